#include <stdio.h>
#include <stdlib.h>
#include <string.h>
#include <stdint.h>
#include <stddef.h>
#include <errno.h>
#include <dlfcn.h>
typedef struct { void *seq_hdr,*frame_hdr; void *data[3]; ptrdiff_t stride[2]; int w,h,layout,bpc; char rest[1024]; } DPic;
typedef struct { const uint8_t*data; size_t sz; void*ref; char rest[256]; } DData;
int main(int argc,char**argv){
  void *h=dlopen("libdav1d.so.6",RTLD_NOW); if(!h){printf("no dav1d %s\n",dlerror());return 1;}
  const char*(*ver)(void)=dlsym(h,"dav1d_version");
  void(*defs)(void*)=dlsym(h,"dav1d_default_settings");
  int(*open_)(void**,const void*)=dlsym(h,"dav1d_open");
  uint8_t*(*dcreate)(DData*,size_t)=dlsym(h,"dav1d_data_create");
  int(*send)(void*,DData*)=dlsym(h,"dav1d_send_data");
  int(*getp)(void*,DPic*)=dlsym(h,"dav1d_get_picture");
  void(*unref)(DPic*)=dlsym(h,"dav1d_picture_unref");
  void(*close_)(void**)=dlsym(h,"dav1d_close");
  printf("dav1d %s\n",ver());
  int *s=calloc(1,1024); defs(s); printf("defaults: n_threads=%d max_frame_delay=%d apply_grain=%d op=%d all_layers=%d limit=%u\n",s[0],s[1],s[2],s[3],s[4],(unsigned)s[5]);
  s[0]=1; s[1]=1;
  void*c=NULL; int r=open_(&c,s); if(r){printf("open fail %d\n",r);return 1;}
  FILE*f=fopen(argv[1],"rb"); uint8_t hdr[32]; fread(hdr,1,32,f); FILE*o=fopen(argv[2],"wb"); int nf=0;
  for(;;){ uint8_t fh[12]; if(fread(fh,1,12,f)!=12)break; uint32_t sz=fh[0]|fh[1]<<8|fh[2]<<16|fh[3]<<24;
    DData d; memset(&d,0,sizeof d); uint8_t*p=dcreate(&d,sz); fread(p,1,sz,f);
    do { r=send(c,&d); if(r<0 && r!=-EAGAIN){printf("send err %d\n",r);return 2;}
      for(;;){ DPic pic; memset(&pic,0,sizeof pic); int g=getp(c,&pic); if(g<0)break;
        if(nf==0)printf("w=%d h=%d layout=%d bpc=%d stride=%td,%td\n",pic.w,pic.h,pic.layout,pic.bpc,pic.stride[0],pic.stride[1]);
        for(int pl=0;pl<3;pl++){int w=pl?(pic.w+1)/2:pic.w,hh=pl?(pic.h+1)/2:pic.h;int bps=pic.bpc>8?2:1;for(int y=0;y<hh;y++)fwrite((uint8_t*)pic.data[pl]+y*pic.stride[pl?1:0],bps,w,o);} nf++; unref(&pic);} 
    } while(d.sz>0);
  }
  /* drain */
  for(;;){ DPic pic; memset(&pic,0,sizeof pic); int g=getp(c,&pic); if(g<0)break; for(int pl=0;pl<3;pl++){int w=pl?(pic.w+1)/2:pic.w,hh=pl?(pic.h+1)/2:pic.h;int bps=pic.bpc>8?2:1;for(int y=0;y<hh;y++)fwrite((uint8_t*)pic.data[pl]+y*pic.stride[pl?1:0],bps,w,o);} nf++; unref(&pic);} 
  printf("frames=%d\n",nf); close_(&c); return 0; }
