#include <stdio.h>
#include <stdlib.h>
#include <string.h>
#include <stdint.h>
#include <dlfcn.h>
typedef struct { unsigned threads,w,h,allow_lowbitdepth; } dec_cfg;
typedef struct aom_image36 {
  int fmt, cp, tc, mc, monochrome, csp, range;
  unsigned w,h,bit_depth,d_w,d_h,r_w,r_h,x_chroma_shift,y_chroma_shift;
  unsigned char *planes[3]; int stride[3]; size_t sz; int bps; int temporal_id, spatial_id;
  void *user_priv; unsigned char *img_data; int img_data_owner, self_allocd; void *metadata; void *fb_priv;
} aom_image36;
int main(int argc,char**argv){
  void *h=dlopen("libaom.so.3",RTLD_NOW); if(!h){printf("no libaom %s\n",dlerror());return 1;}
  void*(*dx)(void)=dlsym(h,"aom_codec_av1_dx");
  int (*init)(void*,void*,const dec_cfg*,long,int)=dlsym(h,"aom_codec_dec_init_ver");
  int (*decode)(void*,const uint8_t*,size_t,void*)=dlsym(h,"aom_codec_decode");
  aom_image36*(*get)(void*,void**)=dlsym(h,"aom_codec_get_frame");
  int (*destroy)(void*)=dlsym(h,"aom_codec_destroy");
  const char*(*ver)(void)=dlsym(h,"aom_codec_version_str");
  printf("libaom %s\n",ver());
  char *ctx=calloc(1,512); dec_cfg cfg={1,0,0,1};
  int abi=-1; for(int v=0;v<80;v++){ memset(ctx,0,512); int r=init(ctx,dx(),&cfg,0,v); if(r==0){abi=v;break;} }
  printf("abi=%d\n",abi); if(abi<0) return 1;
  FILE*f=fopen(argv[1],"rb"); uint8_t hdr[32]; fread(hdr,1,32,f);
  FILE*o=fopen(argv[2],"wb"); int nf=0;
  for(;;){ uint8_t fh[12]; if(fread(fh,1,12,f)!=12)break; uint32_t sz=fh[0]|fh[1]<<8|fh[2]<<16|fh[3]<<24; uint8_t*buf=malloc(sz); fread(buf,1,sz,f);
    int r=decode(ctx,buf,sz,NULL); if(r){printf("decode err %d\n",r);return 2;}
    void*it=NULL; aom_image36*img; while((img=get(ctx,&it))){ if(nf==0)printf("fmt=%x w=%u h=%u bd=%u d_w=%u d_h=%u xs=%u ys=%u stride=%d,%d\n",img->fmt,img->w,img->h,img->bit_depth,img->d_w,img->d_h,img->x_chroma_shift,img->y_chroma_shift,img->stride[0],img->stride[1]);
      for(int p=0;p<3;p++){ int w=p?(img->d_w+1)/2:img->d_w, hh=p?(img->d_h+1)/2:img->d_h; int bps=(img->fmt&0x800)?2:1; for(int y=0;y<hh;y++) fwrite(img->planes[p]+(size_t)y*img->stride[p],bps,w,o);} nf++; }
    free(buf);}
  printf("frames=%d\n",nf); destroy(ctx); return 0; }
