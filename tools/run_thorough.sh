#!/bin/bash
# run thorough tiers sequentially (ids given), evidence goes to out/evidence-thorough so the committed quick evidence stays
cd /verif
export VERIF_EVIDENCE=/verif/out/evidence-thorough
mkdir -p $VERIF_EVIDENCE
for id in "$@"; do
  s=$(date +%s)
  ./check $id --tier thorough > out/thorough_$id.log 2>&1; rc=$?
  echo "$id rc=$rc $(( $(date +%s) - s ))s $(grep -E '^(OK|FAIL|INCONCLUSIVE|HARNESS)' out/thorough_$id.log | tail -1)"
done
