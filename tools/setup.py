#!/usr/bin/env python3
"""setup_cmd: build every flavour of /repo's working tree (hooks on) and the harness programs, run self-checks."""
import os, sys, subprocess, concurrent.futures
V = os.path.dirname(os.path.dirname(os.path.abspath(__file__)))
sys.path.insert(0, os.path.join(V, "lib"))
os.chdir(V)
from vf import build
for d in ("out", "evidence"):
    os.makedirs(os.path.join(V, d), exist_ok=True)
# flavours are built one after the other (each build already uses every core)
for fl in ("plain", "asan", "tsan", "fuzz"):
    build.ensure(fl, quiet=False)
build.harness("plain", "refdec", link="none")
for fl in ("plain", "asan", "tsan"):
    build.harness(fl, "encdrv")
build.harness("plain", "cfgtaint")
r = subprocess.run([sys.executable, os.path.join(V, "lib/vf/av1parse_selftest.py")], stdout=subprocess.PIPE, stderr=subprocess.STDOUT, text=True)
print(r.stdout[-500:])
if r.returncode != 0:
    print("setup: av1parse self-test failed")
    sys.exit(1)
print("setup done")
