#!/bin/bash
# usage: try_mutant.sh <name> <patch.diff> <check id> [more check ids]
# Evaluates a seeded change in an isolated worktree + build root (does not touch /repo or /verif/.build).
set -u
name=$1; patch=$2; shift 2
W=/tmp/mt-$name
if [ ! -d $W ]; then git -C /repo worktree add -q --detach $W HEAD || exit 2; fi
git -C $W checkout -q -- . ; git -C $W apply $patch || { echo "patch does not apply"; exit 2; }
export VERIF_REPO=$W VERIF_BUILD_ROOT=$W/.vb VERIF_OUT=$W/out VERIF_EVIDENCE=$W/evidence
mkdir -p $W/evidence
cd /verif
for c in "$@"; do
  echo "=== $name: $c"
  ./check $c --tier quick 2>&1 | grep -E "^(VIOLATION|OK|FAIL|INCONCLUSIVE|HARNESS)|key:" | cut -c1-220 | tail -12
done
