#!/usr/bin/env python3
"""Regenerate /verif/MANIFEST.json from the table below (one entry per property that has a check)."""
import json, os, subprocess
V = os.path.dirname(os.path.dirname(os.path.abspath(__file__)))
props = [json.loads(l) for l in open(os.path.join(V, "properties.jsonl"))]
T = {
 "C01": ("differential decode: libaom + dav1d vs encoder recon, sample-exact", "3/C01",
         "Every generated (configuration, content, size, length) case is encoded by the real library; libaom 3.6 and dav1d 1.0 (dlopen) must decode the stream and reproduce the encoder's recon picture at every display position. Exploration over a seeded generator of the accepted configuration domain with forced coverage of every feature in the quantifier; reaches inputs no pinned test encodes.",
         "Trusted: libaom/dav1d as conforming decoders (disagreement between them = inconclusive), the VFRM writers of encdrv/refdec. Sampled, not exhaustive; large pictures only in the thorough tier."),
 "C02": ("independent AV1 OBU/header parser over every packet + libaom per-packet output count", "3/C02",
         "Each packet of each stream is parsed in isolation by a syntax parser written from the AV1 specification (validated bit-exactly against libaom/dav1d by header rewriting); framing, one displayed frame per packet, sequence-header repetition/identity (also vs the stream-header API) and pic_type/flags agreement (NON_REF checked by reference tracking) are asserted.",
         "Trusted: lib/vf/av1parse.py (self-test in setup). pic_type is judged in its weakest sound reading."),
 "C03": ("offline checker over the API boundary history + decoded tag order", "3/C03",
         "encdrv records every API call/return; the checker asserts exactly-once, submission order, pts/dts/p_app_private, EOS last and nothing after it, recon set, decoded count and order (pictures carry a tag decoded from libaom's output). N is enumerated around mini-GOP boundaries for hierarchical levels 0..5 x intra period x refresh type x overlays x look-ahead x pts sequences.",
         "Bounded observation after EOS (5 further polls). Recon pictures are identified by display position (the library labels them 0..N-1). A decoded tag counts as evidence of order only where the picture renders it cleanly (order, not fidelity, is the property); unreadable tags are counted in the evidence."),
 "C04": ("repeated runs under seeded schedule perturbation (hook H1) + ThreadSanitizer", "3/C04",
         "Same (config,input) encoded under many perturbed schedules (yields/sleeps injected at every mutex/semaphore/condvar operation of the library); packets+metadata+recon hashes must be identical and the run must terminate; distinct interleavings actually observed are counted from the H3 trace; the same configurations run on a TSan build and every race report is keyed.",
         "'Every interleaving' is sampled. TSan sees only the schedules that ran. Hang = watchdog twice + boundary log. An output difference is keyed with how many runs of the configuration deviate from its most frequent output: the known rare TPL nondeterminism (1-3 % of runs) is matched only while at most half of the runs deviate; a difference in most runs is reported under the plain key."),
 "C05": ("metamorphic equality across logical_processors / unpin / target_socket", "3/C05",
         "Each configuration is encoded with lp in {1,2,3,4,6,8,12,16,0} and pinning/socket variants; output hashes must equal the lp=1 run; differences are attributed only when both sides are reproducible.",
         "pic_based_rate_est=1 excluded (documented lp dependence). Host has one socket."),
 "C06": ("metamorphic equality across use_cpu_flags levels (and an AVX-512 build in thorough)", "3/C06",
         "Each configuration is encoded with use_cpu_flags C-only/SSE2/SSSE3/SSE4.1/AVX2/ALL; output hashes must equal the C-only run.", "Limited to ISA levels of the host."),
 "C07": ("differential execution of every dispatch-table kernel against its C reference (table generated from the rtcd sources), plus exact-size ASan runs", "3/C07",
         "gen/kernels.py parses the SET_* lines and prototypes of the tree under test (781 pointers, 768 with SIMD variants); for each signature class a domain-aware generator produces argument sets (every block size, odd strides, 8/10 bit, zero/max/alternating/ramp/random/planted extremes); the C reference and every variant the host supports run on identical copies and outputs, return values and guard bands are compared byte for byte; the same cases run on exact-size heap blocks under ASan. 750 kernels covered (97.7%), uncovered ones are listed by name in the evidence.",
         "Argument domains come from the C references' asserts, the repo's unit tests and call sites; narrowed sub-domains are listed in evidence assumptions. AVX-512 variants are compared on the ENABLE_AVX512 build in both tiers (host CPU permitting). The convolve generators additionally sweep (block size) x (2-tap BILINEAR path) x (averaging / distance-weighted path) deterministically."),
 "C08": ("differential decode: SVT decoder (both pipelines) vs libaom and dav1d, sample-exact, on SVT streams and on streams from an independent encoder (libaom via ctypes)", "3/C08",
         "Forced-feature and random SVT streams (film grain incl. inherited parameters, 10-bit, tiles, screen content, overlays, LR on a 854x480 stream) and 30 (thorough: ~95) libaom-encoded streams exercising tools the SVT encoder never emits (tile groups, non-uniform tiles, 128x128 superblocks, error resilience, S-frames, real superres, segmentation / delta-q / delta-lf, quantisation matrices, lossless, film-grain test vectors, intrabc, global motion) are decoded by the SVT decoder with is_16bit_pipeline 0 and 1 and compared picture by picture with libaom and dav1d; exact-size input buffers under ASan.",
         "The libaom encoder is driven through ctypes with hand-written struct layouts that are self-checked (lib/vf/av1parse_selftest.py); streams outside the decoder's profile (4:0:0, 4:4:4, 12-bit) must be reported as unsupported and are counted."),
 "C09": ("multi-thread vs single-thread decode under schedule perturbation; ASan; TSan with happens-before annotations (hook H6) modelling the intended volatile hand-off", "3/C09",
         "Each stream is decoded with 2,3,4,8 (thorough up to 16) threads under perturbed schedules and must equal the single-thread pictures; teardown must return; ASan must be silent; TSan runs with per-address release/acquire annotations at the 77 hand-off sites so that only accesses the intended protocol does not order are reported; distinct hand-off interleavings are counted from the trace.",
         "'Any interleaving' is sampled (80 distinct hand-off orders in the quick tier). The hand-off itself being a C11 race is one known finding."),
 "C10": ("deterministic structured mutation fuzzing of svt_av1_dec_frame on the ASan+UBSan decoder build, regression corpus replay", "3/C10",
         "One decoder session per input (init, frame(s), get_picture, teardown) on exact-size heap copies; quick = the committed corpus (134 seeds, 51 reproducers) + 20000 fresh mutants from an 18-strategy mutator seeded by VERIF_SEED (both framings, multi-call records, 16-bit pipeline); any ASan report, non-benign UBSan report, abort, or reproducible stall is a violation. Single allocations are capped at 512 MB (allocator returns NULL) so that mutated headers declaring gigantic pictures are cheap and exercise the allocation-failure path instead of minutes of memset.",
         "Single-threaded decoder as the property states. A libFuzzer target exists for campaigns; the registered check uses the deterministic Python mutator."),
 "C11": ("full encodes on the ASan+UBSan build over a fixed list of extremes (thorough: plus random accepted configurations); reports keyed by site", "3/C11",
         "Every case runs init..EOS..teardown on the clang ASan+UBSan build (recover mode, one process per case): any ASan report, any UBSan report outside the audited benign list, any error packet, crash or reproducible hang is a violation; reports are keyed by (tool, kind, innermost library function) and matched against the known-findings list, which was filled from campaigns of 120+250(+250) random cases (the encoder has a long tail of latent reports: 26, then 14 more reporting functions).",
         "The quick tier runs the fixed extremes only (configurations constant, VERIF_SEED varies content) because random draws mostly rediscover the tail; the thorough tier explores random configurations and may surface further latent reports, which are genuine. A clean sanitizer run is not memory safety."),
 "C12": ("documented-domain predicate (rule table with citations) vs svt_av1_enc_set_parameter on fresh handles", "3/C12",
         "Single-field perturbations of the library defaults over boundaries, one past, 0, -1, type min/max and random values for every field whose range the API header and the user guide state consistently (70 fields), documented cross constraints, and documentation-free metamorphic checks (accepted set is an interval; unrelated fields never flip acceptance). ~1300 set_parameter calls per run.",
         "Fields where header and guide contradict each other or give no range get no verdict (listed in evidence). The predicate is a transcription of the documents, each rule carries its citation."),
 "C14": ("one process per API call sequence on the ASan build with begin/end markers around every call", "3/C14",
         "Every NULL-handle / NULL-buffer probe of the 20 encoder and 11 decoder entry points in every protocol state where it is meaningful must return an error code; sequences with 1..5 rejected set_parameter calls followed by a valid one must configure, initialise and encode two pictures; random legal sequences must not contain a call that fails to return (other than the documented blocking wait); bursts of 80/240/600 (thorough: up to 5100) pictures submitted back to back without fetching, then EOS, then drain, must not block in send_picture.",
         "Protocol-illegal orders (e.g. send_picture before init) are outside the statement's three clauses and are not generated. A call that does not return within the watchdog twice is reported as blocking."),
 "C15": ("teardown at every protocol point with thread census, library live-resource counters (hook H8), LeakSanitizer and heap-growth measurement; deadlocks established by observing all threads parked", "3/C15",
         "Encoder and decoder sessions are torn down after init_handle, after a rejected / accepted set_parameter, after init, mid-stream after k sends with j packets fetched (k 0..40), and after a full drain; a configuration-diversity stratum tears down after init (and after a short drained encode) configurations that change what init allocates (128x128 superblocks, presets 0/3/4, 10-bit, 16-bit pipeline, tiles, overlays, film grain, VBR/CVBR, long look-ahead, superres, screen content, hl 0/5); deinit + deinit_handle must return, the thread census must be back to its pre-session value, H8 must count zero live memory blocks / mutexes / semaphores / threads, LSan must be clean and the in-use heap must not grow over 30 repeated sessions. A hang is reported only when every thread is observed parked with no context switches (gdb names the kernel and the queue).",
         "Teardown points are enumerated; k is stratified in the quick tier."),
 "C16": ("single-fault injection: the k-th allocation / OS-object creation on the API thread fails (linker --wrap on the white-box archive), ASan, H8, LSan", "3/C16",
         "Run 0 numbers every malloc/calloc/realloc/posix_memalign/pthread_create/sem_init/pthread_mutex_init performed on the calling thread inside init_handle, set_parameter and init (91772 events, numbering identical across runs) with its call site; run k fails exactly the k-th: the API call must return an error, deinit(+deinit_handle) must return, no ASan report, H8 and LSan clean. Quick: every (API, call-site function) x first/middle/last occurrence (541 runs); thorough: all call chains x 3 + every k of set_parameter + 800 random k; decoder: every k of threads=1 and the deterministic prefix of threads=2.",
         "Not exhaustive for init_handle/init (about 50 CPU hours); the evidence states the fraction enumerated. Only faults on the API-calling thread are injected (deterministic numbering).", "fault_enumeration"),
 "C17": ("2-3 sessions in one process with staggered starts vs each session's solo output, on the ASan build", "3/C17",
         "Encoder/encoder, encoder/decoder and decoder/decoder pairings with different presets, bit depths, asm levels, resolutions and thread counts; every session's packet/recon/picture hashes must equal its solo run; crashes are keyed by the site ASan names and memory errors that do not occur in solo runs are violations.",
         "Interleavings of the instances are sampled by start offsets only."),
 "C13": ("taint monitor on svt_av1_enc_init_handle + metamorphic equality across prior contents", "3/C13",
         "Two fill patterns are pushed through init_handle and every field (table generated from the header of the current tree) must be overwritten; encodes on top of zero/0xFF/0xA5/random prior contents must be accepted and byte-identical.", "Padding bytes are not fields. Rate-control modes are left out of (b) because their output is not reproducible (C04 finding)."),
 "C18": ("header parser: base_q_idx of every coded frame vs configured bounds/offsets", "3/C18",
         "base_q_idx of all coded frames (hidden included) from the independent parser; rc 1/2 (1- and 2-pass) within qindex(min..max qp) with contents driving RC to both rails; fixed-qindex-offset coding equals qindex(qp)+offset of the frame class (exact temporal layer inside complete mini-GOPs).",
         "In constant-QP mode the library substitutes its default bounds (documented: min/max apply to rate control only); the effective bounds are used there. qp 0 (lossless) is not supported by the encoder: the effective bounds are max(1, configured) in every mode."),
 "C19": ("header parser for frame placement + suffix decodes from every shown key frame in fresh libaom/dav1d", "3/C19",
         "Frame type per display position vs intra period/refresh type over hierarchical levels 0..5, overlays, lengths; every packet with a shown key frame is used as a cut point: the suffix decoded by fresh reference decoders must equal the full decode.", "libaom decides, dav1d is second witness."),
 "C20": ("header parser (frame-level signalling) + decoder block-parser counters (hook H5, validated against libaom) vs the switched-off tool, paired switch-on run; tile info vs spec limits", "3/C20",
         "For each tool switch, alone and crossed with other contexts (tiles, 10-bit, overlays, rate control, lp 1): the off run must not signal the tool in any frame header (loop filter levels, CDEF strengths, LR types, allow_intrabc, allow_screen_content_tools, global-motion types, allow_warped_motion, use_superres) and, for block-level tools (palette, CfL, OBMC, filter intra, inter-intra, local warped motion, intrabc), the SVT decoder's block parser must count zero uses (hook H5; the parse is trusted only when the decoder's pictures equal libaom's); the paired on run shows the content would use the tool. Tiling: signalled log2 counts and tile counts equal the request clamped by the spec formulas for the frame size.",
         "superres has no effect in this snapshot (never signalled even when requested), so its off case is trivially true."),
 "C21": ("metamorphic equality across stride/padding/scribble/free of the caller's buffer + ASan", "3/C21",
         "Variants that differ only in invisible bytes (stride +0..64, padding bytes, buffer overwritten or freed right after send_picture returns) must give identical output; freed/scribbled variants also run under ASan.", "Strides within the property's +0..64."),
 "C22": ("exhaustive white-box evaluation of every order-hint distance helper + long-stream differential decode and history check", "3/C22",
         "All five relative-distance helpers of the tree are called on every (bits, a, b) and compared with the signed modular distance (a source scan makes the run inconclusive if a new helper appears); streams of 300 (quick) and 2200/4300 (thorough) pictures are judged with the C01 and C03 oracles.",
         "Helper enumeration is exhaustive; stream lengths are sampled."),
 "C23": ("offline checker (exact replica of the SRM queues) over hook traces of a stress harness driving the real SRM, an independent client-side history, real-encode traces, TSan", "3/C23",
         "srmstress links the real EbSystemResourceManager.c/EbThreads.c and runs thousands of short histories (1..6 objects, 1..4 producers and consumers, blocking/non-blocking gets, extra references, random shutdown instant, schedule perturbation); every posted object carries a unique ticket; the trace checker (lock-order events from hook H3) and the client-side history are judged independently: exclusive hand-out, conservation, FIFO/exactly-once, release at the last reference, no lost wake-up, shutdown returns every blocked consumer. The same checker runs over the ~25 SRM instances of real encodes.",
         "'Any interleaving' is sampled (about 1950 distinct hand-off orders per quick run). The TLA+ model named in the anchors is another technique and is not built."),
 "C24": ("exhaustive-by-geometry walks of the real segment init/assign code with worker threads + validation of the SB-set transcription against hook-H4 traces of real encodes", "3/C24",
         "segwalk calls the real enc_dec_segments_init and assign_enc_dec_segments with T workers for every picture size in superblocks (1..65 x 1..34 for 64x64 SBs, 128x128 too) and every grid the encoder derives (thorough: all grids up to the maxima): each segment once, dependency order (left, upper, upper-right), completion, disjoint cover; the SB-set transcription is validated against H4 traces of real encodes (64..1920 wide, lp 1..16, tiles).",
         "Geometry is enumerated; worker interleavings are sampled (walks also run on the TSan build)."),
 "C25": ("white-box round trip of the real entropy writer and the real reader; exhaustive for short sequences", "3/C25",
         "The real svt_od_ec_enc/aom_writer and the decoder's reader are linked into one harness: every generated sequence must decode to itself with identical CDF evolution, tell monotone and never under-reporting; exhaustive over short sequences of extreme valid CDFs, random long sequences, carry chains forced.", "Valid CDFs only (as the AV1 spec defines)."),
 "C26": ("reported SSE vs sum of squared differences against libaom's decoded picture", "3/C26",
         "stat_report=1 encodes; for every packet the reported luma/cb/cr SSE must equal the SSD (mod 2^32) between the submitted picture and the picture libaom decodes from that packet (dav1d must agree).", "8-bit only, no film grain/superres, as the property states."),
 "C27": ("metamorphic equality across API call patterns + completion of the always-draining pattern", "3/C27",
         "One (config,input) driven with call patterns built from the property's allowed moves; the always-draining pattern must complete; every pattern that completes must give identical output.", "Patterns that do not drain are allowed to stall."),
}
QUICK_ONLY = set()
checks = []
for p in props:
    pid = p["id"]
    if pid not in T:
        continue
    tech, ref, text, note = T[pid][:4]
    cat = T[pid][4] if len(T[pid]) > 4 else "exploration"
    checks.append({
        "property_id": pid,
        "quick_cmd": "./check %s --tier quick" % pid,
        "thorough_cmd": "./check %s --tier thorough" % pid,
        "evidence_file": "/verif/evidence/%s.json" % pid,
        "replay_cmd_template": "./check %s --replay {path}" % pid,
        "engine": "vf",
        "level_claimed": {"category": cat, "text": text, "design_ref": "DESIGN.md section " + ref},
        "level_note": note,
        "technique": tech,
    })
NA = {}
na = [{"property_id": p["id"], "reason": NA.get(p["id"], "check not registered yet (work in progress; planned in DESIGN.md section 3)")}
      for p in props if p["id"] not in T]
hooks = subprocess.run(["git", "-C", "/repo", "log", "--format=%h %s", "--grep=^verif hooks"], stdout=subprocess.PIPE, text=True).stdout.strip().split("\n")
m = {
 "version": 1,
 "setup_cmd": "python3 tools/setup.py",
 "hooks": {"guard": "SVT_AV1_VERIF",
           "enable": "-DSVT_AV1_VERIF=1 in CMAKE_C_FLAGS of every build flavour (lib/vf/build.py) and of every harness",
           "baseline_off_cmd": "python3 tools/baseline_off.py",
           "source_commits": [h for h in hooks if h], "add_only": True},
 "engines": [{"name": "vf", "path": "/verif/check", "serves_properties": [c["property_id"] for c in checks],
              "kind_free_text": "runtime monitoring: sanitizer builds of the real library, API-boundary recorders, hook traces, independent reference decoders and an independent AV1 header parser as oracles"}],
 "checks": checks,
 "not_applicable": na,
 "notes": "Known findings: /verif/known_findings.json. Design: /verif/DESIGN.md.",
}
json.dump(m, open(os.path.join(V, "MANIFEST.json"), "w"), indent=1)
print("checks:", [c["property_id"] for c in checks])
