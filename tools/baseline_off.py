#!/usr/bin/env python3
"""Hooks-off baseline: build /repo's working tree WITHOUT SVT_AV1_VERIF in the existing /repo/_build configuration,
run SvtAv1ApiTests and compare the passing set with BASELINE.json's stable_pass (all must pass)."""
import json, os, subprocess, sys, xml.etree.ElementTree as ET
B = "/repo/_build"
r = subprocess.run(["cmake", "--build", B, "--target", "SvtAv1ApiTests", "-j", "16"], stdout=subprocess.PIPE, stderr=subprocess.STDOUT, text=True)
if r.returncode:
    print(r.stdout[-3000:]); print("BASELINE-OFF: build failed"); sys.exit(1)
exe = None
for root, d, files in os.walk("/repo/Bin"):
    if "SvtAv1ApiTests" in files:
        exe = os.path.join(root, "SvtAv1ApiTests")
xmlp = "/tmp/verif_baseline_off.xml"
env = dict(os.environ, LD_LIBRARY_PATH=os.path.dirname(exe))
subprocess.run([exe, "--gtest_output=xml:" + xmlp], stdout=subprocess.DEVNULL, stderr=subprocess.DEVNULL, env=env, timeout=1800)
passed = set()
for tc in ET.parse(xmlp).getroot().iter("testcase"):
    if not list(tc.findall("failure")) and tc.get("status", "run") == "run":
        passed.add("%s::%s" % (tc.get("classname"), tc.get("name")))
base = json.load(open("/root/.vp/BASELINE.json"))["stable_pass"]
missing = [t for t in base if t not in passed]
os.unlink(xmlp)
print("BASELINE-OFF: %d/%d baseline tests pass, %d passing in total" % (len(base) - len(missing), len(base), len(passed)))
if missing:
    print("missing:", missing); sys.exit(1)
