#!/bin/bash
# Confirms seeded changes independently: unchanged build -> demo passes; changed build -> compiles, pinned API tests
# still pass (42 stable), demo fails; reverted -> (same as unchanged). usage: confirm_mutants.sh name:prop:dir ...
W=/tmp/cf-wt
LOG=/verif/out/confirm
mkdir -p $LOG
if [ ! -d $W ]; then git -C /repo worktree add -q --detach $W HEAD || exit 2; fi
git -C $W checkout -q -- .
mkdir -p $W/.b && cd $W/.b
cmake -G Ninja $W -DCMAKE_BUILD_TYPE=Release -DBUILD_TESTING=ON -DCMAKE_OUTPUT_DIRECTORY=$W/.b/bin > $LOG/cmake.log 2>&1
build() { nice ninja -j10 SvtAv1EncApp SvtAv1DecApp SvtAv1ApiTests > $LOG/build_$1.log 2>&1; echo $?; }
apitests() { LD_LIBRARY_PATH=$W/.b/bin $W/.b/bin/SvtAv1ApiTests --gtest_output=xml:$LOG/api_$1.xml > /dev/null 2>&1; python3 - $LOG/api_$1.xml <<'PY'
import sys, json, xml.etree.ElementTree as ET
passed=set()
for tc in ET.parse(sys.argv[1]).getroot().iter("testcase"):
    if not list(tc.findall("failure")): passed.add("%s::%s"%(tc.get("classname"),tc.get("name")))
base=json.load(open("/root/.vp/BASELINE.json"))["stable_pass"]
print("apitests %d/%d" % (sum(1 for t in base if t in passed), len(base)))
PY
}
echo "ref build rc=$(build ref)"; apitests ref
rm -rf /tmp/cf-refbin; cp -a $W/.b/bin /tmp/cf-refbin
for spec in "$@"; do
  IFS=: read name prop dir <<< "$spec"
  echo "=== $name $prop"
  git -C $W checkout -q -- . ; echo "reference rebuild rc=$(build ref_$prop)"
  ( cd $dir && timeout 1800 bash ./run.sh $W/.b/bin > $LOG/${name}_${prop}_ref.log 2>&1; echo "demo on unchanged tree: exit $?" )
  git -C $W apply $dir/patch.diff || { echo "patch failed"; continue; }
  echo "changed build rc=$(build ${name}_$prop)"; apitests ${name}_$prop
  ( cd $dir && timeout 1200 bash ./run.sh $W/.b/bin > $LOG/${name}_${prop}_mut.log 2>&1; echo "demo on changed tree: exit $?" )
  git -C $W checkout -q -- .
done
echo "restore build rc=$(build ref2)"
