#!/usr/bin/env python3
"""Turn the ASan/UBSan campaign summaries (out/campaign-asan-*/summary.json) into C11 known-finding entries, one per
(tool, function): C11|<tool>|<kind>|<function>|... .  Run by hand after a campaign; known_findings.json is never
written by a check."""
import glob, json, os, re, sys
V = os.path.dirname(os.path.dirname(os.path.abspath(__file__)))
keys = {}
for p in glob.glob(os.path.join(V, "out", "campaign-asan-*", "summary.json")):
    d = json.load(open(p))
    for k, n in d["hist"].items():
        if k.startswith("RUN|"):
            continue
        e = keys.setdefault(k, {"count": 0, "first": d["first"].get(k, "")})
        e["count"] += n
byfn = {}
for k, e in keys.items():
    parts = k.split("|")
    tool, kind, fn = parts[0], parts[1], parts[2]
    b = byfn.setdefault((tool, fn), {"kinds": set(), "count": 0, "example": ""})
    b["kinds"].add(kind)
    b["count"] += e["count"]
    if not b["example"]:
        m = re.search(r"(/repo/Source/\S+?:\d+)", e["first"])
        b["example"] = (m.group(1) if m else "") + " " + k
kf = json.load(open(os.path.join(V, "known_findings.json")))
kf["findings"] = [f for f in kf["findings"] if not f.get("generated_from_campaign")]
for (tool, fn), b in sorted(byfn.items()):
    kf["findings"].append({
        "property": "C11", "status": "open", "generated_from_campaign": True,
        "key_regex": r"C11\|(crash\|)?%s\|[^|]*\|%s\|.*" % (tool, re.escape(fn)),
        "what": "%s reports in %s (%s) during ordinary encodes; %d occurrences in the campaigns" % (tool, fn, ", ".join(sorted(b["kinds"])), b["count"]),
        "witness": b["example"][:200]})
json.dump(kf, open(os.path.join(V, "known_findings.json"), "w"), indent=1)
print("C11 entries:", len(byfn))
