#!/usr/bin/env python3
"""Campaign: run many random encoder cases on a sanitizer flavour and print the histogram of report keys.
usage: san_campaign.py <flavour> <ncases> <seed> [outdir]"""
import sys, os, json, random, collections
sys.path.insert(0, os.path.join(os.path.dirname(os.path.abspath(__file__)), "..", "lib"))
from vf import cfggen, core, enc
from vf.props import common

fl, n, seed = sys.argv[1], int(sys.argv[2]), int(sys.argv[3])
out = sys.argv[4] if len(sys.argv) > 4 else "/verif/out/campaign-%s-%d" % (fl, seed)
os.makedirs(out, exist_ok=True)
rng = random.Random(seed)
cases = common.forced_feature_cases(rng)
while len(cases) < n:
    c = cfggen.gen_case(rng, quick=True, allow_slow=rng.random() < 0.3)
    cases.append(c)
cases = cases[:n]
for c in cases:
    if fl == "tsan":
        c["frames"] = min(int(c["frames"]), 12)
        c["cfg.logical_processors"] = rng.choice([2, 4, 8, 16])

def one(ic):
    i, c = ic
    if common.known_hang_region(c):
        return c, None
    p = os.path.join(out, "k%04d" % i)
    sched = "%d:%d:%d" % (rng.randrange(1, 1 << 30), 50, 200) if fl == "tsan" else None
    r = enc.run_case(fl, c, p, sched=sched)
    keys = [(k, ex) for k, ex in r.san]
    st = "timeout" if r.timed_out else ("crash rc=%s" % r.rc if enc.crashed(r) else "ok")
    if not keys and st == "ok":
        enc.cleanup(p)
    return c, (st, keys)

hist = collections.Counter()
first = {}
for c, r in core.pmap(one, list(enumerate(cases)), workers=int(os.environ.get("WORKERS", "6"))):
    if r is None:
        continue
    st, keys = r
    if st != "ok":
        hist["RUN|" + st + "|" + common.feature_sig(c)] += 1
        first.setdefault("RUN|" + st + "|" + common.feature_sig(c), json.dumps(c))
    for k, ex in set(keys):
        hist[k] += 1
        first.setdefault(k, ex[:1500])
json.dump({"hist": hist, "first": first}, open(os.path.join(out, "summary.json"), "w"), indent=1)
for k, v in hist.most_common():
    print(v, k)
