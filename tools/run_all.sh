#!/bin/bash
# run every registered quick check sequentially; summary lines to out/run_all.<seed>.log
cd /verif
seed=${VERIF_SEED:-1}
ids=$(python3 -c "import json;print(' '.join(c['property_id'] for c in json.load(open('MANIFEST.json'))['checks']))")
for id in ${@:-$ids}; do
  s=$(date +%s)
  VERIF_SEED=$seed ./check $id --tier quick > out/last_$id.log 2>&1; rc=$?
  echo "$id rc=$rc $(( $(date +%s) - s ))s $(grep -E '^(OK|FAIL|INCONCLUSIVE|HARNESS)' out/last_$id.log | tail -1)"
done
