"""Independent AV1 bitstream *syntax* parser (OBU / sequence header / frame header).

Written from the AV1 bitstream specification (sections 5.3 - 5.12, 7.8, 7.20, 7.21),
not from SVT-AV1 sources: it is used as an oracle for the encoder's output.
Pure Python, stdlib only.

Entry point: parse_stream(packets, strict=False) -> Stream
Each packet is one temporal unit in low-overhead ("Section 5") OBU format.
Tile data is not decoded; tile group headers and tile size fields are.

Result objects
  Stream      .packets [PacketInfo], .sequence_header (last active), .all_frame_headers,
              .errors / .warnings / .notes as [(packet_index, text)], .shown_frames
  PacketInfo  .index .size .obus [Obu] .frame_headers (no redundant copies) .sequence_headers
              .shown_frames .tile_group_obus (OBU_FRAME + OBU_TILE_GROUP) .has_temporal_delimiter
              .metadata_obus, and three message lists:
                errors   - framing / syntax problems (the stream is not parsable as written)
                warnings - bitstream conformance requirements that do not stop parsing
                           (reference to an invalid slot, frame id mismatch, ...)
                notes    - legal but unusual encodings (zero bytes after trailing bits, long leb128)
  Obu         .type .type_name .has_extension .has_size_field .temporal_id .spatial_id .offset
              .header_len .size .payload .parsed .frame_header (owning FrameHeader) .frame_end .dropped
  SequenceHeader  every syntax element of sequence_header_obu() by its spec name (+ bit_depth,
              order_hint_bits, NumPlanes, operating_points [dict], .raw payload bytes)
  FrameHeader every syntax element / derived variable of uncompressed_header() (see __init__ for the
              defaults used when an element is not coded), tile_groups [dict: tg_start, tg_end,
              tile_start_and_end_present_flag, tile_sizes, header_bytes, ok], header_bits,
              header_bytes, obu_type (3/6), temporal_unit, is_shown, display_frame_type, complete,
              redundant_copies, bitpos {name: bit offset}, short_signaling_equiv.
              For show_existing_frame=1 the values made available by the frame loading process
              (size, order_hint, film grain params, gm_params, ...) are filled in from the shown slot.

Reference state is updated when the last tile group of a frame has been seen (tg_end == NumTiles-1),
immediately for show_existing_frame (with the refresh-all step when a KEY_FRAME is shown).  A frame left
incomplete by the next temporal delimiter is reported and then committed anyway.

Not supported: large_scale_tile streams (OBU_TILE_LIST / ext-tile tile size syntax), operating point
selection other than 0, Annex B length-delimited format.
"""

__all__ = ["ParseError", "Obu", "SequenceHeader", "FrameHeader", "PacketInfo", "Stream",
           "parse_stream", "leb128", "read_ivf", "OBU_NAMES"]

# ---------------------------------------------------------------- constants
OBU_SEQUENCE_HEADER = 1
OBU_TEMPORAL_DELIMITER = 2
OBU_FRAME_HEADER = 3
OBU_TILE_GROUP = 4
OBU_METADATA = 5
OBU_FRAME = 6
OBU_REDUNDANT_FRAME_HEADER = 7
OBU_TILE_LIST = 8
OBU_PADDING = 15

OBU_NAMES = {
    1: "OBU_SEQUENCE_HEADER", 2: "OBU_TEMPORAL_DELIMITER", 3: "OBU_FRAME_HEADER",
    4: "OBU_TILE_GROUP", 5: "OBU_METADATA", 6: "OBU_FRAME",
    7: "OBU_REDUNDANT_FRAME_HEADER", 8: "OBU_TILE_LIST", 15: "OBU_PADDING",
}

KEY_FRAME, INTER_FRAME, INTRA_ONLY_FRAME, SWITCH_FRAME = 0, 1, 2, 3
FRAME_TYPE_NAMES = ["KEY_FRAME", "INTER_FRAME", "INTRA_ONLY_FRAME", "SWITCH_FRAME"]

NUM_REF_FRAMES = 8
REFS_PER_FRAME = 7
TOTAL_REFS_PER_FRAME = 8
PRIMARY_REF_NONE = 7
MAX_SEGMENTS = 8
SEG_LVL_MAX = 8
SEG_LVL_REF_FRAME = 5
SELECT_SCREEN_CONTENT_TOOLS = 2
SELECT_INTEGER_MV = 2
SUPERRES_NUM = 8
SUPERRES_DENOM_MIN = 9
SUPERRES_DENOM_BITS = 3
MAX_TILE_WIDTH = 4096
MAX_TILE_AREA = 4096 * 2304
MAX_TILE_COLS = 64
MAX_TILE_ROWS = 64
WARPEDMODEL_PREC_BITS = 16
GM_ABS_ALPHA_BITS = 12
GM_ALPHA_PREC_BITS = 15
GM_ABS_TRANS_ONLY_BITS = 9
GM_TRANS_ONLY_PREC_BITS = 3
GM_ABS_TRANS_BITS = 12
GM_TRANS_PREC_BITS = 6
RESTORATION_TILESIZE_MAX = 256
IDENTITY, TRANSLATION, ROTZOOM, AFFINE = 0, 1, 2, 3
INTRA_FRAME, LAST_FRAME, LAST2_FRAME, LAST3_FRAME, GOLDEN_FRAME, BWDREF_FRAME, ALTREF2_FRAME, ALTREF_FRAME = range(8)
CP_BT_709, CP_UNSPECIFIED = 1, 2
TC_UNSPECIFIED, TC_SRGB = 2, 13
MC_IDENTITY, MC_UNSPECIFIED = 0, 2
ONLY_4X4, TX_MODE_LARGEST, TX_MODE_SELECT = 0, 1, 2
SWITCHABLE_FILTER = 4

SEG_FEATURE_BITS = [8, 6, 6, 6, 6, 3, 0, 0]
SEG_FEATURE_SIGNED = [1, 1, 1, 1, 1, 0, 0, 0]
SEG_FEATURE_MAX = [255, 63, 63, 63, 63, 7, 0, 0]
REMAP_LR_TYPE = [0, 3, 1, 2]            # lr_type -> FrameRestorationType (NONE, SWITCHABLE, WIENER, SGRPROJ)
DEFAULT_REF_DELTAS = [1, 0, 0, 0, -1, 0, -1, -1]
METADATA_NAMES = {1: "HDR_CLL", 2: "HDR_MDCV", 3: "SCALABILITY", 4: "ITUT_T35", 5: "TIMECODE"}

FILM_GRAIN_FIELDS = [
    "apply_grain", "grain_seed", "update_grain", "film_grain_params_ref_idx",
    "num_y_points", "point_y_value", "point_y_scaling", "chroma_scaling_from_luma",
    "num_cb_points", "point_cb_value", "point_cb_scaling",
    "num_cr_points", "point_cr_value", "point_cr_scaling",
    "grain_scaling_minus_8", "ar_coeff_lag", "ar_coeffs_y_plus_128", "ar_coeffs_cb_plus_128",
    "ar_coeffs_cr_plus_128", "ar_coeff_shift_minus_6", "grain_scale_shift",
    "cb_mult", "cb_luma_mult", "cb_offset", "cr_mult", "cr_luma_mult", "cr_offset",
    "overlap_flag", "clip_to_restricted_range",
]
_FG_LISTS = {"point_y_value", "point_y_scaling", "point_cb_value", "point_cb_scaling",
             "point_cr_value", "point_cr_scaling", "ar_coeffs_y_plus_128",
             "ar_coeffs_cb_plus_128", "ar_coeffs_cr_plus_128"}


class ParseError(Exception):
    pass


def _reset_grain():
    return {k: ([] if k in _FG_LISTS else 0) for k in FILM_GRAIN_FIELDS}


def _copy_grain(g):
    return {k: (list(v) if isinstance(v, list) else v) for k, v in g.items()}


def _default_gm():
    return [[(1 << WARPEDMODEL_PREC_BITS) if i % 3 == 2 else 0 for i in range(6)] for _ in range(8)]


def tile_log2(blk, target):
    k = 0
    while (blk << k) < target:
        k += 1
    return k


def leb128(data, pos=0):
    """Decode leb128() at byte offset pos -> (value, nbytes).  Raises ParseError when
    truncated, longer than 8 bytes or >= 2**32."""
    value = 0
    for i in range(8):
        if pos + i >= len(data):
            raise ParseError("leb128 truncated")
        b = data[pos + i]
        value |= (b & 0x7F) << (i * 7)
        if not (b & 0x80):
            if value >= (1 << 32):
                raise ParseError("leb128 value exceeds 2^32-1")
            return value, i + 1
    raise ParseError("leb128 longer than 8 bytes")


def read_ivf(path):
    """-> list of packet bytes from an IVF file."""
    d = open(path, "rb").read()
    if d[:4] != b"DKIF":
        raise ValueError("not an IVF file")
    i = int.from_bytes(d[6:8], "little") or 32
    out = []
    while i + 12 <= len(d):
        sz = int.from_bytes(d[i:i + 4], "little")
        out.append(d[i + 12:i + 12 + sz])
        i += 12 + sz
    return out


# ---------------------------------------------------------------- bit reader
class BitReader:
    """MSB-first bit reader over data[start:end] (byte offsets); positions are in bits
    relative to start."""

    def __init__(self, data, start=0, end=None):
        self.data = data
        self.start = start
        self.end = len(data) if end is None else end
        self.pos = 0
        self.nbits = (self.end - start) * 8

    def f(self, n):
        if n == 0:
            return 0
        p = self.pos
        if p + n > self.nbits:
            raise ParseError("read of %d bits at bit %d runs past the end of the OBU (%d bits)" % (n, p, self.nbits))
        b0 = self.start + (p >> 3)
        b1 = self.start + ((p + n + 7) >> 3)
        v = int.from_bytes(self.data[b0:b1], "big")
        shift = (b1 - b0) * 8 - (p & 7) - n
        self.pos = p + n
        return (v >> shift) & ((1 << n) - 1)

    def su(self, n):
        v = self.f(n)
        sign = 1 << (n - 1)
        if v & sign:
            v -= 2 * sign
        return v

    def ns(self, n):
        w = n.bit_length()          # FloorLog2(n) + 1
        m = (1 << w) - n
        v = self.f(w - 1)
        if v < m:
            return v
        extra = self.f(1)
        return (v << 1) - m + extra

    def le(self, n):
        t = 0
        for i in range(n):
            t += self.f(8) << (8 * i)
        return t

    def uvlc(self):
        lz = 0
        while True:
            if self.f(1):
                break
            lz += 1
            if lz > 64:
                raise ParseError("uvlc without terminator")
        if lz >= 32:
            return (1 << 32) - 1
        return self.f(lz) + (1 << lz) - 1

    def leb128(self):
        if self.pos & 7:
            raise ParseError("leb128 at unaligned position")
        v, n = leb128(self.data[:self.end], self.start + (self.pos >> 3))
        self.pos += 8 * n
        return v

    def byte_alignment(self):
        """-> True when all alignment bits are zero."""
        ok = True
        while self.pos & 7:
            if self.f(1):
                ok = False
        return ok

    def remaining(self):
        return self.nbits - self.pos

    def trailing_ok(self):
        """Check trailing_bits(): a 1 bit then zeros to the end.  Does not move pos.
        -> (ok, n_zero_bytes_after_first_trailing_byte)"""
        p = self.pos
        if p >= self.nbits:
            return False, 0
        save = self.pos
        try:
            if self.f(1) != 1:
                return False, 0
            rest = self.nbits - self.pos
            while rest > 0:
                n = min(rest, 32)
                if self.f(n):
                    return False, 0
                rest -= n
            return True, (self.nbits - ((p | 7) + 1)) // 8
        finally:
            self.pos = save


# ---------------------------------------------------------------- result classes
class Obu:
    def __init__(self):
        self.type = 0
        self.type_name = ""
        self.forbidden_bit = 0
        self.reserved_1bit = 0
        self.has_extension = 0
        self.has_size_field = 0
        self.temporal_id = 0
        self.spatial_id = 0
        self.extension_reserved_3bits = 0
        self.offset = 0
        self.header_len = 0
        self.size = 0
        self.payload = b""
        self.dropped = False        # not in the selected operating point
        self.frame_end = False      # this OBU completed a frame (last tile group / show_existing_frame)
        self.parsed = None          # SequenceHeader / FrameHeader / dict, when applicable
        self.frame_header = None    # owning FrameHeader for frame header / frame / tile group OBUs

    def __repr__(self):
        return "<Obu %s off=%d hdr=%d size=%d>" % (self.type_name, self.offset, self.header_len, self.size)


class SequenceHeader:
    def __repr__(self):
        return "<SequenceHeader profile=%d %dx%d bd=%d>" % (
            self.seq_profile, self.max_frame_width_minus_1 + 1, self.max_frame_height_minus_1 + 1, self.bit_depth)


class FrameHeader:
    def __init__(self):
        d = self.__dict__
        for k in ("show_existing_frame", "frame_to_show_map_idx", "frame_type", "show_frame", "showable_frame",
                  "error_resilient_mode", "disable_cdf_update", "allow_screen_content_tools", "force_integer_mv",
                  "force_integer_mv_coded", "current_frame_id", "display_frame_id", "frame_size_override_flag",
                  "order_hint", "refresh_frame_flags", "frame_refs_short_signaling", "last_frame_idx",
                  "gold_frame_idx", "frame_width", "frame_height", "upscaled_width", "use_superres", "coded_denom",
                  "render_width", "render_height", "render_and_frame_size_different", "found_ref",
                  "allow_intrabc", "allow_high_precision_mv", "is_filter_switchable", "interpolation_filter",
                  "is_motion_mode_switchable", "use_ref_frame_mvs", "disable_frame_end_update_cdf",
                  "uniform_tile_spacing_flag", "TileColsLog2", "TileRowsLog2", "TileCols", "TileRows",
                  "context_update_tile_id", "tile_size_bytes", "minLog2TileCols", "maxLog2TileCols",
                  "minLog2TileRows", "maxLog2TileRows", "minLog2Tiles", "MiCols", "MiRows",
                  "base_q_idx", "DeltaQYDc", "DeltaQUDc", "DeltaQUAc", "DeltaQVDc", "DeltaQVAc", "diff_uv_delta",
                  "using_qmatrix", "qm_y", "qm_u", "qm_v",
                  "segmentation_enabled", "update_map", "temporal_update", "update_data", "SegIdPreSkip",
                  "LastActiveSegId", "delta_q_present", "delta_q_res", "delta_lf_present", "delta_lf_res",
                  "delta_lf_multi", "CodedLossless", "AllLossless", "loop_filter_sharpness",
                  "loop_filter_delta_enabled", "loop_filter_delta_update", "cdef_bits", "UsesLr", "lr_unit_shift",
                  "lr_uv_shift", "TxMode", "tx_mode_select", "reference_select", "skip_mode_present",
                  "skipModeAllowed", "allow_warped_motion", "reduced_tx_set", "buffer_removal_time_present_flag",
                  "frame_presentation_time", "header_bits", "temporal_unit", "temporal_id", "spatial_id",
                  "redundant_copies", "complete"):
            d[k] = 0
        self.primary_ref_frame = PRIMARY_REF_NONE
        self.superres_denom = SUPERRES_NUM
        self.cdef_damping = 3
        self.cdef_coded = False
        self.cdef_y_pri_strength = [0]
        self.cdef_y_sec_strength = [0]
        self.cdef_uv_pri_strength = [0]
        self.cdef_uv_sec_strength = [0]
        self.ref_order_hint = None
        self.ref_frame_idx = [-1] * REFS_PER_FRAME      # -1: not coded (intra frames)
        self.delta_frame_id_minus_1 = []
        self.expected_frame_id = []
        self.OrderHints = [0] * 8
        self.RefFrameSignBias = [0] * 8
        self.MiColStarts = []
        self.MiRowStarts = []
        self.FeatureEnabled = [[0] * SEG_LVL_MAX for _ in range(MAX_SEGMENTS)]
        self.FeatureData = [[0] * SEG_LVL_MAX for _ in range(MAX_SEGMENTS)]
        self.LosslessArray = [0] * MAX_SEGMENTS
        self.loop_filter_level = [0, 0, 0, 0]
        self.ref_deltas = list(DEFAULT_REF_DELTAS)
        self.mode_deltas = [0, 0]
        self.lr_type = [0, 0, 0]
        self.LoopRestorationSize = [RESTORATION_TILESIZE_MAX] * 3
        self.SkipModeFrame = [0, 0]
        self.gm_type = [IDENTITY] * 8
        self.gm_params = _default_gm()
        self.buffer_removal_time = {}
        self.bitpos = {}            # bit offsets (from the start of the header) of selected syntax elements
        self.short_signaling_equiv = None   # explicit ref_frame_idx[] equals what set_frame_refs() would derive
        self.tile_groups = []       # dicts: obu_type, tile_start_and_end_present_flag, tg_start, tg_end, tile_sizes, ok
        self.obu_type = 0
        self.display_frame_type = 0
        self.FrameIsIntra = 0
        self.is_shown = 0
        self.header_bytes = b""
        self.bit_depth = 8
        self.subsampling_x = 1
        self.subsampling_y = 1
        for k, v in _reset_grain().items():
            d[k] = v

    # spec-style aliases
    FrameWidth = property(lambda self: self.frame_width)
    FrameHeight = property(lambda self: self.frame_height)
    UpscaledWidth = property(lambda self: self.upscaled_width)
    RenderWidth = property(lambda self: self.render_width)
    RenderHeight = property(lambda self: self.render_height)
    SuperresDenom = property(lambda self: self.superres_denom)
    CdefDamping = property(lambda self: self.cdef_damping)
    TileSizeBytes = property(lambda self: self.tile_size_bytes)
    OrderHint = property(lambda self: self.order_hint)
    FrameRestorationType = property(lambda self: self.lr_type)
    loop_filter_ref_deltas = property(lambda self: self.ref_deltas)
    loop_filter_mode_deltas = property(lambda self: self.mode_deltas)
    NumTiles = property(lambda self: self.TileCols * self.TileRows)

    @property
    def frame_type_name(self):
        return FRAME_TYPE_NAMES[self.frame_type]

    def film_grain(self):
        return {k: getattr(self, k) for k in FILM_GRAIN_FIELDS}

    def __repr__(self):
        if self.show_existing_frame:
            return "<FrameHeader show_existing idx=%d type=%s>" % (self.frame_to_show_map_idx, FRAME_TYPE_NAMES[self.display_frame_type])
        return "<FrameHeader %s show=%d %dx%d q=%d oh=%d refresh=0x%02x bits=%d>" % (
            self.frame_type_name, self.show_frame, self.frame_width, self.frame_height, self.base_q_idx,
            self.order_hint, self.refresh_frame_flags, self.header_bits)


class PacketInfo:
    def __init__(self, index, size):
        self.index = index
        self.size = size
        self.obus = []
        self.errors = []
        self.warnings = []          # conformance requirements that are not syntax errors
        self.notes = []             # legal but unusual encodings (extra zero bytes, non-minimal leb128)
        self.frame_headers = []
        self.sequence_headers = []
        self.shown_frames = 0
        self.tile_group_obus = 0
        self.has_temporal_delimiter = False
        self.metadata_obus = []

    def __repr__(self):
        return "<PacketInfo %d obus=%s errors=%d>" % (self.index, [o.type for o in self.obus], len(self.errors))


class Stream:
    def __init__(self):
        self.packets = []
        self.sequence_header = None
        self.all_frame_headers = []

    @property
    def errors(self):
        return [(p.index, e) for p in self.packets for e in p.errors]

    @property
    def warnings(self):
        return [(p.index, e) for p in self.packets for e in p.warnings]

    @property
    def notes(self):
        return [(p.index, e) for p in self.packets for e in p.notes]

    @property
    def shown_frames(self):
        return sum(p.shown_frames for p in self.packets)


class _Ref:
    """One slot of the reference frame state (7.20)."""

    def __init__(self):
        self.valid = 0
        self.frame_id = 0
        self.upscaled_width = 0
        self.frame_width = 0
        self.frame_height = 0
        self.render_width = 0
        self.render_height = 0
        self.mi_cols = 0
        self.mi_rows = 0
        self.frame_type = 0
        self.subsampling_x = 0
        self.subsampling_y = 0
        self.bit_depth = 0
        self.order_hint = 0
        self.saved_order_hints = [0] * 8
        self.gm_params = _default_gm()
        self.grain = _reset_grain()
        self.ref_deltas = list(DEFAULT_REF_DELTAS)
        self.mode_deltas = [0, 0]
        self.feature_enabled = [[0] * SEG_LVL_MAX for _ in range(MAX_SEGMENTS)]
        self.feature_data = [[0] * SEG_LVL_MAX for _ in range(MAX_SEGMENTS)]
        self.showable_frame = 0
        self.hdr = None

    def copy(self):
        r = _Ref()
        r.__dict__.update(self.__dict__)
        r.saved_order_hints = list(self.saved_order_hints)
        r.gm_params = [list(x) for x in self.gm_params]
        r.grain = _copy_grain(self.grain)
        r.ref_deltas = list(self.ref_deltas)
        r.mode_deltas = list(self.mode_deltas)
        r.feature_enabled = [list(x) for x in self.feature_enabled]
        r.feature_data = [list(x) for x in self.feature_data]
        return r


# ---------------------------------------------------------------- sequence header
def _parse_sequence_header(payload):
    """-> (SequenceHeader, trailing_ok, extra_zero_bytes).  Raises ParseError."""
    r = BitReader(payload)
    s = SequenceHeader()
    s.raw = bytes(payload)
    s.seq_profile = r.f(3)
    s.still_picture = r.f(1)
    s.reduced_still_picture_header = r.f(1)
    s.timing_info_present_flag = 0
    s.decoder_model_info_present_flag = 0
    s.initial_display_delay_present_flag = 0
    s.equal_picture_interval = 0
    s.num_units_in_display_tick = 0
    s.time_scale = 0
    s.num_ticks_per_picture_minus_1 = 0
    s.buffer_delay_length_minus_1 = 0
    s.num_units_in_decoding_tick = 0
    s.buffer_removal_time_length_minus_1 = 0
    s.frame_presentation_time_length_minus_1 = 0
    s.operating_points = []
    if s.reduced_still_picture_header:
        s.operating_points_cnt_minus_1 = 0
        s.operating_points.append({"operating_point_idc": 0, "seq_level_idx": r.f(5), "seq_tier": 0,
                                   "decoder_model_present_for_this_op": 0,
                                   "initial_display_delay_present_for_this_op": 0})
    else:
        s.timing_info_present_flag = r.f(1)
        if s.timing_info_present_flag:
            s.num_units_in_display_tick = r.f(32)
            s.time_scale = r.f(32)
            s.equal_picture_interval = r.f(1)
            if s.equal_picture_interval:
                s.num_ticks_per_picture_minus_1 = r.uvlc()
            s.decoder_model_info_present_flag = r.f(1)
            if s.decoder_model_info_present_flag:
                s.buffer_delay_length_minus_1 = r.f(5)
                s.num_units_in_decoding_tick = r.f(32)
                s.buffer_removal_time_length_minus_1 = r.f(5)
                s.frame_presentation_time_length_minus_1 = r.f(5)
        s.initial_display_delay_present_flag = r.f(1)
        s.operating_points_cnt_minus_1 = r.f(5)
        for _ in range(s.operating_points_cnt_minus_1 + 1):
            op = {"operating_point_idc": r.f(12), "seq_level_idx": r.f(5), "seq_tier": 0,
                  "decoder_model_present_for_this_op": 0, "initial_display_delay_present_for_this_op": 0}
            if op["seq_level_idx"] > 7:
                op["seq_tier"] = r.f(1)
            if s.decoder_model_info_present_flag:
                op["decoder_model_present_for_this_op"] = r.f(1)
                if op["decoder_model_present_for_this_op"]:
                    n = s.buffer_delay_length_minus_1 + 1
                    op["decoder_buffer_delay"] = r.f(n)
                    op["encoder_buffer_delay"] = r.f(n)
                    op["low_delay_mode_flag"] = r.f(1)
            if s.initial_display_delay_present_flag:
                op["initial_display_delay_present_for_this_op"] = r.f(1)
                if op["initial_display_delay_present_for_this_op"]:
                    op["initial_display_delay_minus_1"] = r.f(4)
            s.operating_points.append(op)
    s.operating_point = 0
    s.OperatingPointIdc = s.operating_points[0]["operating_point_idc"]
    s.seq_level_idx = [op["seq_level_idx"] for op in s.operating_points]
    s.seq_tier = [op["seq_tier"] for op in s.operating_points]
    s.operating_point_idc = [op["operating_point_idc"] for op in s.operating_points]
    s.frame_width_bits_minus_1 = r.f(4)
    s.frame_height_bits_minus_1 = r.f(4)
    s.max_frame_width_minus_1 = r.f(s.frame_width_bits_minus_1 + 1)
    s.max_frame_height_minus_1 = r.f(s.frame_height_bits_minus_1 + 1)
    s.frame_id_numbers_present_flag = 0 if s.reduced_still_picture_header else r.f(1)
    s.delta_frame_id_length_minus_2 = 0
    s.additional_frame_id_length_minus_1 = 0
    if s.frame_id_numbers_present_flag:
        s.delta_frame_id_length_minus_2 = r.f(4)
        s.additional_frame_id_length_minus_1 = r.f(3)
    s.use_128x128_superblock = r.f(1)
    s.enable_filter_intra = r.f(1)
    s.enable_intra_edge_filter = r.f(1)
    s.enable_interintra_compound = 0
    s.enable_masked_compound = 0
    s.enable_warped_motion = 0
    s.enable_dual_filter = 0
    s.enable_order_hint = 0
    s.enable_jnt_comp = 0
    s.enable_ref_frame_mvs = 0
    s.seq_choose_screen_content_tools = 1
    s.seq_force_screen_content_tools = SELECT_SCREEN_CONTENT_TOOLS
    s.seq_choose_integer_mv = 1
    s.seq_force_integer_mv = SELECT_INTEGER_MV
    s.order_hint_bits = 0
    if not s.reduced_still_picture_header:
        s.enable_interintra_compound = r.f(1)
        s.enable_masked_compound = r.f(1)
        s.enable_warped_motion = r.f(1)
        s.enable_dual_filter = r.f(1)
        s.enable_order_hint = r.f(1)
        if s.enable_order_hint:
            s.enable_jnt_comp = r.f(1)
            s.enable_ref_frame_mvs = r.f(1)
        s.seq_choose_screen_content_tools = r.f(1)
        if s.seq_choose_screen_content_tools:
            s.seq_force_screen_content_tools = SELECT_SCREEN_CONTENT_TOOLS
        else:
            s.seq_force_screen_content_tools = r.f(1)
        if s.seq_force_screen_content_tools > 0:
            s.seq_choose_integer_mv = r.f(1)
            if s.seq_choose_integer_mv:
                s.seq_force_integer_mv = SELECT_INTEGER_MV
            else:
                s.seq_force_integer_mv = r.f(1)
        else:
            s.seq_choose_integer_mv = 0
            s.seq_force_integer_mv = SELECT_INTEGER_MV
        if s.enable_order_hint:
            s.order_hint_bits = r.f(3) + 1
    s.OrderHintBits = s.order_hint_bits
    s.enable_superres = r.f(1)
    s.enable_cdef = r.f(1)
    s.enable_restoration = r.f(1)
    # color_config()
    s.high_bitdepth = r.f(1)
    s.twelve_bit = 0
    if s.seq_profile == 2 and s.high_bitdepth:
        s.twelve_bit = r.f(1)
        s.bit_depth = 12 if s.twelve_bit else 10
    else:
        s.bit_depth = 10 if s.high_bitdepth else 8
    s.BitDepth = s.bit_depth
    s.mono_chrome = 0 if s.seq_profile == 1 else r.f(1)
    s.NumPlanes = 1 if s.mono_chrome else 3
    s.color_description_present_flag = r.f(1)
    if s.color_description_present_flag:
        s.color_primaries = r.f(8)
        s.transfer_characteristics = r.f(8)
        s.matrix_coefficients = r.f(8)
    else:
        s.color_primaries = CP_UNSPECIFIED
        s.transfer_characteristics = TC_UNSPECIFIED
        s.matrix_coefficients = MC_UNSPECIFIED
    s.chroma_sample_position = 0
    s.separate_uv_delta_q = 0
    if s.mono_chrome:
        s.color_range = r.f(1)
        s.subsampling_x = 1
        s.subsampling_y = 1
    else:
        if (s.color_primaries == CP_BT_709 and s.transfer_characteristics == TC_SRGB
                and s.matrix_coefficients == MC_IDENTITY):
            s.color_range = 1
            s.subsampling_x = 0
            s.subsampling_y = 0
        else:
            s.color_range = r.f(1)
            if s.seq_profile == 0:
                s.subsampling_x, s.subsampling_y = 1, 1
            elif s.seq_profile == 1:
                s.subsampling_x, s.subsampling_y = 0, 0
            else:
                if s.bit_depth == 12:
                    s.subsampling_x = r.f(1)
                    s.subsampling_y = r.f(1) if s.subsampling_x else 0
                else:
                    s.subsampling_x, s.subsampling_y = 1, 0
            if s.subsampling_x and s.subsampling_y:
                s.chroma_sample_position = r.f(2)
        s.separate_uv_delta_q = r.f(1)
    s.film_grain_params_present = r.f(1)
    s.header_bits = r.pos
    ok, extra = r.trailing_ok()
    return s, ok, extra


# ---------------------------------------------------------------- global motion helpers
def _inverse_recenter(r, v):
    if v > 2 * r:
        return v
    if v & 1:
        return r - ((v + 1) >> 1)
    return r + (v >> 1)


def _decode_subexp(br, num_syms):
    i = 0
    mk = 0
    k = 3
    while True:
        b2 = (k + i - 1) if i else k
        a = 1 << b2
        if num_syms <= mk + 3 * a:
            return br.ns(num_syms - mk) + mk
        if br.f(1):
            i += 1
            mk += a
        else:
            return br.f(b2) + mk


def _decode_unsigned_subexp_with_ref(br, mx, r):
    v = _decode_subexp(br, mx)
    if (r << 1) <= mx:
        return _inverse_recenter(r, v)
    return mx - 1 - _inverse_recenter(mx - 1 - r, v)


def _decode_signed_subexp_with_ref(br, low, high, r):
    return _decode_unsigned_subexp_with_ref(br, high - low, r - low) + low


# ---------------------------------------------------------------- decoder state + frame header
class _Parser:
    def __init__(self, strict=False):
        self.strict = strict
        self.stream = Stream()
        self.seq = None
        self.refs = [_Ref() for _ in range(NUM_REF_FRAMES)]
        self.current_frame_id = 0
        self.seen_frame_header = 0
        self.cur = None             # FrameHeader being assembled (tile groups pending)
        self.cur_state = None       # state to save at reference update
        self.next_tile = 0
        self.pkt = None
        self.temporal_id = 0
        self.spatial_id = 0

    # ---- error plumbing
    def err(self, msg):
        self.pkt.errors.append(msg)
        if self.strict:
            raise ParseError("packet %d: %s" % (self.pkt.index, msg))

    def warn(self, msg):
        self.pkt.warnings.append(msg)

    def note(self, msg):
        self.pkt.notes.append(msg)

    # ---- helpers
    def get_relative_dist(self, a, b):
        s = self.seq
        if not s.enable_order_hint:
            return 0
        diff = a - b
        m = 1 << (s.order_hint_bits - 1)
        return (diff & (m - 1)) - (diff & m)

    # ---- 5.9.2 uncompressed_header
    def uncompressed_header(self, r, fh):
        s = self.seq
        refs = self.refs
        start = r.pos
        id_len = 0
        if s.frame_id_numbers_present_flag:
            id_len = s.additional_frame_id_length_minus_1 + s.delta_frame_id_length_minus_2 + 3
        all_frames = (1 << NUM_REF_FRAMES) - 1
        fh.bit_depth = s.bit_depth
        fh.subsampling_x = s.subsampling_x
        fh.subsampling_y = s.subsampling_y
        fh.temporal_id = self.temporal_id
        fh.spatial_id = self.spatial_id
        st = {}                     # working state: PrevGmParams, lf deltas, seg params
        self.cur_state = st
        if s.reduced_still_picture_header:
            fh.show_existing_frame = 0
            fh.frame_type = KEY_FRAME
            fh.FrameIsIntra = 1
            fh.show_frame = 1
            fh.showable_frame = 0
            fh.error_resilient_mode = 1     # spec leaves it unset; KEY_FRAME && show_frame implies 1
        else:
            fh.show_existing_frame = r.f(1)
            if fh.show_existing_frame:
                fh.frame_to_show_map_idx = r.f(3)
                ref = refs[fh.frame_to_show_map_idx]
                if s.decoder_model_info_present_flag and not s.equal_picture_interval:
                    fh.frame_presentation_time = r.f(s.frame_presentation_time_length_minus_1 + 1)
                fh.refresh_frame_flags = 0
                if s.frame_id_numbers_present_flag:
                    fh.display_frame_id = r.f(id_len)
                    if ref.valid and fh.display_frame_id != ref.frame_id:
                        self.warn("show_existing_frame: display_frame_id %d != RefFrameId[%d] %d"
                                  % (fh.display_frame_id, fh.frame_to_show_map_idx, ref.frame_id))
                if not ref.valid:
                    self.warn("show_existing_frame of slot %d which is not valid" % fh.frame_to_show_map_idx)
                elif ref.hdr is not None and not ref.showable_frame and ref.frame_type != KEY_FRAME:
                    self.warn("show_existing_frame of slot %d whose frame had showable_frame=0" % fh.frame_to_show_map_idx)
                fh.frame_type = ref.frame_type
                fh.display_frame_type = ref.frame_type
                fh.FrameIsIntra = int(ref.frame_type in (KEY_FRAME, INTRA_ONLY_FRAME))
                if fh.frame_type == KEY_FRAME:
                    fh.refresh_frame_flags = all_frames
                if s.film_grain_params_present:
                    fh.__dict__.update(_copy_grain(ref.grain))
                # values made available by the frame loading process (7.21)
                fh.current_frame_id = ref.frame_id
                fh.upscaled_width = ref.upscaled_width
                fh.frame_width = ref.frame_width
                fh.frame_height = ref.frame_height
                fh.render_width = ref.render_width
                fh.render_height = ref.render_height
                fh.MiCols = ref.mi_cols
                fh.MiRows = ref.mi_rows
                fh.order_hint = ref.order_hint
                fh.OrderHints = list(ref.saved_order_hints)
                fh.gm_params = [list(x) for x in ref.gm_params]
                fh.ref_deltas = list(ref.ref_deltas)
                fh.mode_deltas = list(ref.mode_deltas)
                fh.FeatureEnabled = [list(x) for x in ref.feature_enabled]
                fh.FeatureData = [list(x) for x in ref.feature_data]
                fh.bit_depth = ref.bit_depth or s.bit_depth
                fh.shown_header = ref.hdr
                fh.is_shown = 1
                fh.header_bits = r.pos - start
                return
            fh.frame_type = r.f(2)
            fh.FrameIsIntra = int(fh.frame_type in (INTRA_ONLY_FRAME, KEY_FRAME))
            fh.bitpos["show_frame"] = r.pos - start
            fh.show_frame = r.f(1)
            if fh.show_frame and s.decoder_model_info_present_flag and not s.equal_picture_interval:
                fh.frame_presentation_time = r.f(s.frame_presentation_time_length_minus_1 + 1)
            if fh.show_frame:
                fh.showable_frame = int(fh.frame_type != KEY_FRAME)
            else:
                fh.showable_frame = r.f(1)
            if fh.frame_type == SWITCH_FRAME or (fh.frame_type == KEY_FRAME and fh.show_frame):
                fh.error_resilient_mode = 1
            else:
                fh.error_resilient_mode = r.f(1)
        fh.display_frame_type = fh.frame_type
        fh.is_shown = fh.show_frame
        if fh.frame_type == KEY_FRAME and fh.show_frame:
            for x in refs:
                x.valid = 0
                x.order_hint = 0
            fh.OrderHints = [0] * 8
        fh.disable_cdf_update = r.f(1)
        if s.seq_force_screen_content_tools == SELECT_SCREEN_CONTENT_TOOLS:
            fh.allow_screen_content_tools = r.f(1)
        else:
            fh.allow_screen_content_tools = s.seq_force_screen_content_tools
        if fh.allow_screen_content_tools:
            if s.seq_force_integer_mv == SELECT_INTEGER_MV:
                fh.force_integer_mv = r.f(1)
            else:
                fh.force_integer_mv = s.seq_force_integer_mv
        else:
            fh.force_integer_mv = 0
        fh.force_integer_mv_coded = fh.force_integer_mv
        if fh.FrameIsIntra:
            fh.force_integer_mv = 1
        if s.frame_id_numbers_present_flag:
            fh.prev_frame_id = self.current_frame_id
            fh.current_frame_id = r.f(id_len)
            self.current_frame_id = fh.current_frame_id
            self.mark_ref_frames(fh, id_len)
        else:
            fh.current_frame_id = 0
        if fh.frame_type == SWITCH_FRAME:
            fh.frame_size_override_flag = 1
        elif s.reduced_still_picture_header:
            fh.frame_size_override_flag = 0
        else:
            fh.frame_size_override_flag = r.f(1)
        fh.order_hint = r.f(s.order_hint_bits)
        if fh.FrameIsIntra or fh.error_resilient_mode:
            fh.primary_ref_frame = PRIMARY_REF_NONE
        else:
            fh.primary_ref_frame = r.f(3)
        if s.decoder_model_info_present_flag:
            fh.buffer_removal_time_present_flag = r.f(1)
            if fh.buffer_removal_time_present_flag:
                for op_num, op in enumerate(s.operating_points):
                    if op["decoder_model_present_for_this_op"]:
                        idc = op["operating_point_idc"]
                        in_t = (idc >> self.temporal_id) & 1
                        in_s = (idc >> (self.spatial_id + 8)) & 1
                        if idc == 0 or (in_t and in_s):
                            fh.buffer_removal_time[op_num] = r.f(s.buffer_removal_time_length_minus_1 + 1)
        fh.allow_high_precision_mv = 0
        fh.use_ref_frame_mvs = 0
        fh.allow_intrabc = 0
        fh.bitpos["refresh_frame_flags"] = r.pos - start
        if fh.frame_type == SWITCH_FRAME or (fh.frame_type == KEY_FRAME and fh.show_frame):
            fh.refresh_frame_flags = all_frames
        else:
            fh.refresh_frame_flags = r.f(8)
        if fh.frame_type == INTRA_ONLY_FRAME and fh.refresh_frame_flags == all_frames:
            self.warn("INTRA_ONLY_FRAME with refresh_frame_flags == 0xFF")
        if not fh.FrameIsIntra or fh.refresh_frame_flags != all_frames:
            if fh.error_resilient_mode and s.enable_order_hint:
                fh.ref_order_hint = []
                for i in range(NUM_REF_FRAMES):
                    v = r.f(s.order_hint_bits)
                    fh.ref_order_hint.append(v)
                    if v != refs[i].order_hint or not refs[i].valid:
                        # decoder would substitute a blank frame with this order hint
                        if v != refs[i].order_hint:
                            refs[i].valid = 0
                        refs[i].order_hint = v
        if fh.FrameIsIntra:
            self.frame_size(r, fh)
            self.render_size(r, fh)
            if fh.allow_screen_content_tools and fh.upscaled_width == fh.frame_width:
                fh.allow_intrabc = r.f(1)
        else:
            fh.bitpos["frame_refs_short_signaling"] = r.pos - start
            if not s.enable_order_hint:
                fh.frame_refs_short_signaling = 0
            else:
                fh.frame_refs_short_signaling = r.f(1)
                if fh.frame_refs_short_signaling:
                    fh.last_frame_idx = r.f(3)
                    fh.gold_frame_idx = r.f(3)
                    self.set_frame_refs(fh)
            for i in range(REFS_PER_FRAME):
                if not fh.frame_refs_short_signaling:
                    fh.ref_frame_idx[i] = r.f(3)
                if s.frame_id_numbers_present_flag:
                    d = r.f(s.delta_frame_id_length_minus_2 + 2)
                    fh.delta_frame_id_minus_1.append(d)
                    exp = (fh.current_frame_id + (1 << id_len) - (d + 1)) % (1 << id_len)
                    fh.expected_frame_id.append(exp)
                    if refs[fh.ref_frame_idx[i]].valid and refs[fh.ref_frame_idx[i]].frame_id != exp:
                        self.warn("expectedFrameId[%d]=%d != RefFrameId[%d]=%d"
                                  % (i, exp, fh.ref_frame_idx[i], refs[fh.ref_frame_idx[i]].frame_id))
            fh.bitpos["ref_frame_idx_end"] = r.pos - start
            if s.enable_order_hint and not fh.frame_refs_short_signaling:
                tmp = FrameHeader()
                tmp.order_hint = fh.order_hint
                tmp.last_frame_idx = fh.ref_frame_idx[0]
                tmp.gold_frame_idx = fh.ref_frame_idx[GOLDEN_FRAME - LAST_FRAME]
                nw = len(self.pkt.warnings)
                self.set_frame_refs(tmp)
                fh.short_signaling_equiv = (tmp.ref_frame_idx == fh.ref_frame_idx and len(self.pkt.warnings) == nw)
                del self.pkt.warnings[nw:]
            for i in range(REFS_PER_FRAME):
                x = refs[fh.ref_frame_idx[i]]
                if not x.valid:
                    if not (fh.error_resilient_mode and fh.ref_order_hint is not None):
                        self.warn("ref_frame_idx[%d]=%d refers to an invalid reference slot" % (i, fh.ref_frame_idx[i]))
                elif x.bit_depth != s.bit_depth or x.subsampling_x != s.subsampling_x or x.subsampling_y != s.subsampling_y:
                    self.warn("ref_frame_idx[%d]=%d: reference bit depth / subsampling differs" % (i, fh.ref_frame_idx[i]))
            if fh.frame_size_override_flag and not fh.error_resilient_mode:
                self.frame_size_with_refs(r, fh)
            else:
                self.frame_size(r, fh)
                self.render_size(r, fh)
            if fh.force_integer_mv:
                fh.allow_high_precision_mv = 0
            else:
                fh.allow_high_precision_mv = r.f(1)
            fh.is_filter_switchable = r.f(1)
            if fh.is_filter_switchable:
                fh.interpolation_filter = SWITCHABLE_FILTER
            else:
                fh.interpolation_filter = r.f(2)
            fh.is_motion_mode_switchable = r.f(1)
            if fh.error_resilient_mode or not s.enable_ref_frame_mvs:
                fh.use_ref_frame_mvs = 0
            else:
                fh.use_ref_frame_mvs = r.f(1)
            for i in range(REFS_PER_FRAME):
                ref_frame = LAST_FRAME + i
                hint = refs[fh.ref_frame_idx[i]].order_hint
                fh.OrderHints[ref_frame] = hint
                if not s.enable_order_hint:
                    fh.RefFrameSignBias[ref_frame] = 0
                else:
                    fh.RefFrameSignBias[ref_frame] = int(self.get_relative_dist(hint, fh.order_hint) > 0)
        if s.reduced_still_picture_header or fh.disable_cdf_update:
            fh.disable_frame_end_update_cdf = 1
        else:
            fh.disable_frame_end_update_cdf = r.f(1)
        if fh.primary_ref_frame == PRIMARY_REF_NONE:
            # setup_past_independence()
            st["prev_gm"] = _default_gm()
            fh.ref_deltas = list(DEFAULT_REF_DELTAS)
            fh.mode_deltas = [0, 0]
            # FeatureData / FeatureEnabled already zero
        else:
            # load_previous()
            prev = refs[fh.ref_frame_idx[fh.primary_ref_frame]]
            st["prev_gm"] = [list(x) for x in prev.gm_params]
            fh.ref_deltas = list(prev.ref_deltas)
            fh.mode_deltas = list(prev.mode_deltas)
            fh.FeatureEnabled = [list(x) for x in prev.feature_enabled]
            fh.FeatureData = [list(x) for x in prev.feature_data]
        self.tile_info(r, fh)
        self.quantization_params(r, fh)
        self.segmentation_params(r, fh)
        # delta_q_params / delta_lf_params
        fh.delta_q_res = 0
        fh.delta_q_present = 0
        if fh.base_q_idx > 0:
            fh.delta_q_present = r.f(1)
        if fh.delta_q_present:
            fh.delta_q_res = r.f(2)
        fh.delta_lf_present = 0
        fh.delta_lf_res = 0
        fh.delta_lf_multi = 0
        if fh.delta_q_present:
            if not fh.allow_intrabc:
                fh.delta_lf_present = r.f(1)
            if fh.delta_lf_present:
                fh.delta_lf_res = r.f(2)
                fh.delta_lf_multi = r.f(1)
        fh.CodedLossless = 1
        for seg in range(MAX_SEGMENTS):
            qindex = fh.base_q_idx
            if fh.segmentation_enabled and fh.FeatureEnabled[seg][0]:
                qindex = min(255, max(0, fh.base_q_idx + fh.FeatureData[seg][0]))
            ll = int(qindex == 0 and fh.DeltaQYDc == 0 and fh.DeltaQUAc == 0 and fh.DeltaQUDc == 0
                     and fh.DeltaQVAc == 0 and fh.DeltaQVDc == 0)
            fh.LosslessArray[seg] = ll
            if not ll:
                fh.CodedLossless = 0
        fh.AllLossless = int(fh.CodedLossless and fh.frame_width == fh.upscaled_width)
        self.loop_filter_params(r, fh)
        self.cdef_params(r, fh)
        self.lr_params(r, fh)
        # read_tx_mode
        if fh.CodedLossless:
            fh.TxMode = ONLY_4X4
        else:
            fh.tx_mode_select = r.f(1)
            fh.TxMode = TX_MODE_SELECT if fh.tx_mode_select else TX_MODE_LARGEST
        # frame_reference_mode
        fh.reference_select = 0 if fh.FrameIsIntra else r.f(1)
        self.skip_mode_params(r, fh)
        if fh.FrameIsIntra or fh.error_resilient_mode or not s.enable_warped_motion:
            fh.allow_warped_motion = 0
        else:
            fh.allow_warped_motion = r.f(1)
        fh.reduced_tx_set = r.f(1)
        self.global_motion_params(r, fh, st["prev_gm"])
        self.film_grain_params(r, fh)
        fh.header_bits = r.pos - start

    def mark_ref_frames(self, fh, id_len):
        s = self.seq
        diff_len = s.delta_frame_id_length_minus_2 + 2
        cur = fh.current_frame_id
        for x in self.refs:
            if fh.frame_type == KEY_FRAME and fh.show_frame:
                x.valid = 0
            elif cur > (1 << diff_len):
                if x.frame_id > cur or x.frame_id < cur - (1 << diff_len):
                    x.valid = 0
            else:
                if x.frame_id > cur and x.frame_id < ((1 << id_len) + cur - (1 << diff_len)):
                    x.valid = 0

    # ---- frame size
    def superres_params(self, r, fh):
        s = self.seq
        fh.use_superres = r.f(1) if s.enable_superres else 0
        if fh.use_superres:
            fh.coded_denom = r.f(SUPERRES_DENOM_BITS)
            fh.superres_denom = fh.coded_denom + SUPERRES_DENOM_MIN
        else:
            fh.superres_denom = SUPERRES_NUM
        fh.upscaled_width = fh.frame_width
        fh.frame_width = (fh.upscaled_width * SUPERRES_NUM + (fh.superres_denom // 2)) // fh.superres_denom

    def compute_image_size(self, fh):
        if fh.frame_width <= 0 or fh.frame_height <= 0:
            raise ParseError("frame size %dx%d (taken from a reference slot that was never written)"
                             % (fh.frame_width, fh.frame_height))
        fh.MiCols = 2 * ((fh.frame_width + 7) >> 3)
        fh.MiRows = 2 * ((fh.frame_height + 7) >> 3)

    def frame_size(self, r, fh):
        s = self.seq
        if fh.frame_size_override_flag:
            fh.frame_width_minus_1 = r.f(s.frame_width_bits_minus_1 + 1)
            fh.frame_height_minus_1 = r.f(s.frame_height_bits_minus_1 + 1)
            fh.frame_width = fh.frame_width_minus_1 + 1
            fh.frame_height = fh.frame_height_minus_1 + 1
            if fh.frame_width > s.max_frame_width_minus_1 + 1 or fh.frame_height > s.max_frame_height_minus_1 + 1:
                self.warn("frame size %dx%d exceeds sequence maximum" % (fh.frame_width, fh.frame_height))
        else:
            fh.frame_width = s.max_frame_width_minus_1 + 1
            fh.frame_height = s.max_frame_height_minus_1 + 1
        self.superres_params(r, fh)
        self.compute_image_size(fh)

    def render_size(self, r, fh):
        fh.render_and_frame_size_different = r.f(1)
        if fh.render_and_frame_size_different:
            fh.render_width = r.f(16) + 1
            fh.render_height = r.f(16) + 1
        else:
            fh.render_width = fh.upscaled_width
            fh.render_height = fh.frame_height

    def frame_size_with_refs(self, r, fh):
        fh.found_ref = 0
        for i in range(REFS_PER_FRAME):
            fh.found_ref = r.f(1)
            if fh.found_ref:
                x = self.refs[fh.ref_frame_idx[i]]
                fh.found_ref_index = i
                fh.upscaled_width = x.upscaled_width
                fh.frame_width = fh.upscaled_width
                fh.frame_height = x.frame_height
                fh.render_width = x.render_width
                fh.render_height = x.render_height
                break
        if not fh.found_ref:
            self.frame_size(r, fh)
            self.render_size(r, fh)
        else:
            self.superres_params(r, fh)
            self.compute_image_size(fh)

    # ---- 7.8 set_frame_refs
    def set_frame_refs(self, fh):
        s = self.seq
        refs = self.refs
        idx = [-1] * REFS_PER_FRAME
        idx[LAST_FRAME - LAST_FRAME] = fh.last_frame_idx
        idx[GOLDEN_FRAME - LAST_FRAME] = fh.gold_frame_idx
        used = [0] * NUM_REF_FRAMES
        used[fh.last_frame_idx] = 1
        used[fh.gold_frame_idx] = 1
        cur_hint = 1 << (s.order_hint_bits - 1)
        shifted = [cur_hint + self.get_relative_dist(refs[i].order_hint, fh.order_hint) for i in range(NUM_REF_FRAMES)]
        if shifted[fh.last_frame_idx] >= cur_hint:
            self.warn("frame_refs_short_signaling: last_frame_idx is not a forward reference")
        if shifted[fh.gold_frame_idx] >= cur_hint:
            self.warn("frame_refs_short_signaling: gold_frame_idx is not a forward reference")

        def find_latest_backward():
            ref, best = -1, 0
            for i in range(NUM_REF_FRAMES):
                h = shifted[i]
                if not used[i] and h >= cur_hint and (ref < 0 or h >= best):
                    ref, best = i, h
            return ref

        def find_earliest_backward():
            ref, best = -1, 0
            for i in range(NUM_REF_FRAMES):
                h = shifted[i]
                if not used[i] and h >= cur_hint and (ref < 0 or h < best):
                    ref, best = i, h
            return ref

        def find_latest_forward():
            ref, best = -1, 0
            for i in range(NUM_REF_FRAMES):
                h = shifted[i]
                if not used[i] and h < cur_hint and (ref < 0 or h >= best):
                    ref, best = i, h
            return ref

        ref = find_latest_backward()
        if ref >= 0:
            idx[ALTREF_FRAME - LAST_FRAME] = ref
            used[ref] = 1
        ref = find_earliest_backward()
        if ref >= 0:
            idx[BWDREF_FRAME - LAST_FRAME] = ref
            used[ref] = 1
        ref = find_earliest_backward()
        if ref >= 0:
            idx[ALTREF2_FRAME - LAST_FRAME] = ref
            used[ref] = 1
        for ref_frame in (LAST2_FRAME, LAST3_FRAME, BWDREF_FRAME, ALTREF2_FRAME, ALTREF_FRAME):
            if idx[ref_frame - LAST_FRAME] < 0:
                ref = find_latest_forward()
                if ref >= 0:
                    idx[ref_frame - LAST_FRAME] = ref
                    used[ref] = 1
        ref, best = -1, 0
        for i in range(NUM_REF_FRAMES):
            h = shifted[i]
            if ref < 0 or h < best:
                ref, best = i, h
        for i in range(REFS_PER_FRAME):
            if idx[i] < 0:
                idx[i] = ref
        fh.ref_frame_idx = idx

    # ---- 5.9.15 tile_info
    def tile_info(self, r, fh):
        s = self.seq
        if s.use_128x128_superblock:
            sb_cols = (fh.MiCols + 31) >> 5
            sb_rows = (fh.MiRows + 31) >> 5
            sb_shift = 5
        else:
            sb_cols = (fh.MiCols + 15) >> 4
            sb_rows = (fh.MiRows + 15) >> 4
            sb_shift = 4
        sb_size = sb_shift + 2
        max_tile_width_sb = MAX_TILE_WIDTH >> sb_size
        max_tile_area_sb = MAX_TILE_AREA >> (2 * sb_size)
        fh.sbCols, fh.sbRows = sb_cols, sb_rows
        fh.minLog2TileCols = tile_log2(max_tile_width_sb, sb_cols)
        fh.maxLog2TileCols = tile_log2(1, min(sb_cols, MAX_TILE_COLS))
        fh.maxLog2TileRows = tile_log2(1, min(sb_rows, MAX_TILE_ROWS))
        fh.minLog2Tiles = max(fh.minLog2TileCols, tile_log2(max_tile_area_sb, sb_rows * sb_cols))
        fh.uniform_tile_spacing_flag = r.f(1)
        fh.MiColStarts = []
        fh.MiRowStarts = []
        if fh.uniform_tile_spacing_flag:
            fh.TileColsLog2 = fh.minLog2TileCols
            while fh.TileColsLog2 < fh.maxLog2TileCols:
                if r.f(1):
                    fh.TileColsLog2 += 1
                else:
                    break
            tile_width_sb = (sb_cols + (1 << fh.TileColsLog2) - 1) >> fh.TileColsLog2
            start = 0
            while start < sb_cols:
                fh.MiColStarts.append(start << sb_shift)
                start += tile_width_sb
            fh.TileCols = len(fh.MiColStarts)
            fh.MiColStarts.append(fh.MiCols)
            fh.minLog2TileRows = max(fh.minLog2Tiles - fh.TileColsLog2, 0)
            fh.TileRowsLog2 = fh.minLog2TileRows
            while fh.TileRowsLog2 < fh.maxLog2TileRows:
                if r.f(1):
                    fh.TileRowsLog2 += 1
                else:
                    break
            tile_height_sb = (sb_rows + (1 << fh.TileRowsLog2) - 1) >> fh.TileRowsLog2
            start = 0
            while start < sb_rows:
                fh.MiRowStarts.append(start << sb_shift)
                start += tile_height_sb
            fh.TileRows = len(fh.MiRowStarts)
            fh.MiRowStarts.append(fh.MiRows)
        else:
            widest = 0
            start = 0
            fh.width_in_sbs_minus_1 = []
            fh.height_in_sbs_minus_1 = []
            while start < sb_cols:
                fh.MiColStarts.append(start << sb_shift)
                max_w = min(sb_cols - start, max_tile_width_sb)
                v = r.ns(max_w)
                fh.width_in_sbs_minus_1.append(v)
                size_sb = v + 1
                widest = max(size_sb, widest)
                start += size_sb
            fh.TileCols = len(fh.MiColStarts)
            fh.MiColStarts.append(fh.MiCols)
            fh.TileColsLog2 = tile_log2(1, fh.TileCols)
            if fh.minLog2Tiles > 0:
                max_tile_area_sb = (sb_rows * sb_cols) >> (fh.minLog2Tiles + 1)
            else:
                max_tile_area_sb = sb_rows * sb_cols
            max_tile_height_sb = max(max_tile_area_sb // widest, 1)
            start = 0
            while start < sb_rows:
                fh.MiRowStarts.append(start << sb_shift)
                max_h = min(sb_rows - start, max_tile_height_sb)
                v = r.ns(max_h)
                fh.height_in_sbs_minus_1.append(v)
                start += v + 1
            fh.TileRows = len(fh.MiRowStarts)
            fh.MiRowStarts.append(fh.MiRows)
            fh.TileRowsLog2 = tile_log2(1, fh.TileRows)
            fh.minLog2TileRows = max(fh.minLog2Tiles - fh.TileColsLog2, 0)
        if fh.TileCols > MAX_TILE_COLS or fh.TileRows > MAX_TILE_ROWS:
            self.warn("tile count %dx%d exceeds limits" % (fh.TileCols, fh.TileRows))
        if fh.TileColsLog2 > 0 or fh.TileRowsLog2 > 0:
            fh.context_update_tile_id = r.f(fh.TileRowsLog2 + fh.TileColsLog2)
            fh.tile_size_bytes = r.f(2) + 1
            if fh.context_update_tile_id >= fh.TileCols * fh.TileRows:
                self.warn("context_update_tile_id %d >= number of tiles" % fh.context_update_tile_id)
        else:
            fh.context_update_tile_id = 0
            fh.tile_size_bytes = 0

    # ---- 5.9.12 quantization_params
    def read_delta_q(self, r):
        if r.f(1):
            return r.su(7)
        return 0

    def quantization_params(self, r, fh):
        s = self.seq
        fh.base_q_idx = r.f(8)
        fh.DeltaQYDc = self.read_delta_q(r)
        if s.NumPlanes > 1:
            fh.diff_uv_delta = r.f(1) if s.separate_uv_delta_q else 0
            fh.DeltaQUDc = self.read_delta_q(r)
            fh.DeltaQUAc = self.read_delta_q(r)
            if fh.diff_uv_delta:
                fh.DeltaQVDc = self.read_delta_q(r)
                fh.DeltaQVAc = self.read_delta_q(r)
            else:
                fh.DeltaQVDc = fh.DeltaQUDc
                fh.DeltaQVAc = fh.DeltaQUAc
        else:
            fh.DeltaQUDc = fh.DeltaQUAc = fh.DeltaQVDc = fh.DeltaQVAc = 0
        fh.using_qmatrix = r.f(1)
        if fh.using_qmatrix:
            fh.qm_y = r.f(4)
            fh.qm_u = r.f(4)
            fh.qm_v = r.f(4) if s.separate_uv_delta_q else fh.qm_u

    # ---- 5.9.14 segmentation_params
    def segmentation_params(self, r, fh):
        fh.segmentation_enabled = r.f(1)
        if fh.segmentation_enabled:
            if fh.primary_ref_frame == PRIMARY_REF_NONE:
                fh.update_map = 1
                fh.temporal_update = 0
                fh.update_data = 1
            else:
                fh.update_map = r.f(1)
                fh.temporal_update = r.f(1) if fh.update_map else 0
                fh.update_data = r.f(1)
            if fh.update_data:
                for i in range(MAX_SEGMENTS):
                    for j in range(SEG_LVL_MAX):
                        en = r.f(1)
                        fh.FeatureEnabled[i][j] = en
                        clipped = 0
                        if en:
                            bits = SEG_FEATURE_BITS[j]
                            limit = SEG_FEATURE_MAX[j]
                            if SEG_FEATURE_SIGNED[j]:
                                v = r.su(1 + bits)
                                clipped = max(-limit, min(limit, v))
                            else:
                                v = r.f(bits)
                                clipped = max(0, min(limit, v))
                        fh.FeatureData[i][j] = clipped
        else:
            fh.update_map = fh.temporal_update = fh.update_data = 0
            fh.FeatureEnabled = [[0] * SEG_LVL_MAX for _ in range(MAX_SEGMENTS)]
            fh.FeatureData = [[0] * SEG_LVL_MAX for _ in range(MAX_SEGMENTS)]
        fh.segmentation_update_map = fh.update_map
        fh.segmentation_temporal_update = fh.temporal_update
        fh.segmentation_update_data = fh.update_data
        fh.SegIdPreSkip = 0
        fh.LastActiveSegId = 0
        for i in range(MAX_SEGMENTS):
            for j in range(SEG_LVL_MAX):
                if fh.FeatureEnabled[i][j]:
                    fh.LastActiveSegId = i
                    if j >= SEG_LVL_REF_FRAME:
                        fh.SegIdPreSkip = 1

    # ---- 5.9.11 loop_filter_params
    def loop_filter_params(self, r, fh):
        s = self.seq
        fh.loop_filter_level = [0, 0, 0, 0]
        if fh.CodedLossless or fh.allow_intrabc:
            fh.ref_deltas = list(DEFAULT_REF_DELTAS)
            fh.mode_deltas = [0, 0]
            fh.loop_filter_coded = False
            return
        fh.loop_filter_coded = True
        fh.loop_filter_level[0] = r.f(6)
        fh.loop_filter_level[1] = r.f(6)
        if s.NumPlanes > 1 and (fh.loop_filter_level[0] or fh.loop_filter_level[1]):
            fh.loop_filter_level[2] = r.f(6)
            fh.loop_filter_level[3] = r.f(6)
        fh.loop_filter_sharpness = r.f(3)
        fh.loop_filter_delta_enabled = r.f(1)
        if fh.loop_filter_delta_enabled:
            fh.loop_filter_delta_update = r.f(1)
            if fh.loop_filter_delta_update:
                for i in range(TOTAL_REFS_PER_FRAME):
                    if r.f(1):
                        fh.ref_deltas[i] = r.su(7)
                for i in range(2):
                    if r.f(1):
                        fh.mode_deltas[i] = r.su(7)

    # ---- 5.9.19 cdef_params
    def cdef_params(self, r, fh):
        s = self.seq
        if fh.CodedLossless or fh.allow_intrabc or not s.enable_cdef:
            fh.cdef_coded = False
            fh.cdef_bits = 0
            fh.cdef_y_pri_strength = [0]
            fh.cdef_y_sec_strength = [0]
            fh.cdef_uv_pri_strength = [0]
            fh.cdef_uv_sec_strength = [0]
            fh.cdef_damping = 3
            return
        fh.cdef_coded = True
        fh.cdef_damping = r.f(2) + 3
        fh.cdef_bits = r.f(2)
        n = 1 << fh.cdef_bits
        fh.cdef_y_pri_strength = [0] * n
        fh.cdef_y_sec_strength = [0] * n
        fh.cdef_uv_pri_strength = [0] * n
        fh.cdef_uv_sec_strength = [0] * n
        for i in range(n):
            fh.cdef_y_pri_strength[i] = r.f(4)
            v = r.f(2)
            fh.cdef_y_sec_strength[i] = 4 if v == 3 else v
            if s.NumPlanes > 1:
                fh.cdef_uv_pri_strength[i] = r.f(4)
                v = r.f(2)
                fh.cdef_uv_sec_strength[i] = 4 if v == 3 else v

    # ---- 5.9.20 lr_params
    def lr_params(self, r, fh):
        s = self.seq
        fh.lr_type = [0, 0, 0]
        fh.lr_type_coded = [0, 0, 0]
        fh.UsesLr = 0
        fh.lr_coded = False
        if fh.AllLossless or fh.allow_intrabc or not s.enable_restoration:
            return
        fh.lr_coded = True
        uses_chroma = 0
        for i in range(s.NumPlanes):
            v = r.f(2)
            fh.lr_type_coded[i] = v
            fh.lr_type[i] = REMAP_LR_TYPE[v]
            if fh.lr_type[i] != 0:
                fh.UsesLr = 1
                if i > 0:
                    uses_chroma = 1
        if fh.UsesLr:
            if s.use_128x128_superblock:
                fh.lr_unit_shift = r.f(1) + 1
            else:
                fh.lr_unit_shift = r.f(1)
                if fh.lr_unit_shift:
                    fh.lr_unit_shift += r.f(1)
            if s.subsampling_x and s.subsampling_y and uses_chroma:
                fh.lr_uv_shift = r.f(1)
            else:
                fh.lr_uv_shift = 0
            fh.LoopRestorationSize[0] = RESTORATION_TILESIZE_MAX >> (2 - fh.lr_unit_shift)
            fh.LoopRestorationSize[1] = fh.LoopRestorationSize[0] >> fh.lr_uv_shift
            fh.LoopRestorationSize[2] = fh.LoopRestorationSize[0] >> fh.lr_uv_shift

    # ---- 5.9.22 skip_mode_params
    def skip_mode_params(self, r, fh):
        s = self.seq
        refs = self.refs
        rd = self.get_relative_dist
        if fh.FrameIsIntra or not fh.reference_select or not s.enable_order_hint:
            fh.skipModeAllowed = 0
        else:
            fwd_idx = bwd_idx = -1
            fwd_hint = bwd_hint = 0
            for i in range(REFS_PER_FRAME):
                h = refs[fh.ref_frame_idx[i]].order_hint
                if rd(h, fh.order_hint) < 0:
                    if fwd_idx < 0 or rd(h, fwd_hint) > 0:
                        fwd_idx, fwd_hint = i, h
                elif rd(h, fh.order_hint) > 0:
                    if bwd_idx < 0 or rd(h, bwd_hint) < 0:
                        bwd_idx, bwd_hint = i, h
            if fwd_idx < 0:
                fh.skipModeAllowed = 0
            elif bwd_idx >= 0:
                fh.skipModeAllowed = 1
                fh.SkipModeFrame = [LAST_FRAME + min(fwd_idx, bwd_idx), LAST_FRAME + max(fwd_idx, bwd_idx)]
            else:
                sec_idx, sec_hint = -1, 0
                for i in range(REFS_PER_FRAME):
                    h = refs[fh.ref_frame_idx[i]].order_hint
                    if rd(h, fwd_hint) < 0:
                        if sec_idx < 0 or rd(h, sec_hint) > 0:
                            sec_idx, sec_hint = i, h
                if sec_idx < 0:
                    fh.skipModeAllowed = 0
                else:
                    fh.skipModeAllowed = 1
                    fh.SkipModeFrame = [LAST_FRAME + min(fwd_idx, sec_idx), LAST_FRAME + max(fwd_idx, sec_idx)]
        fh.skip_mode_present = r.f(1) if fh.skipModeAllowed else 0

    # ---- 5.9.24 global_motion_params
    def global_motion_params(self, r, fh, prev_gm):
        fh.gm_type = [IDENTITY] * 8
        fh.gm_params = _default_gm()
        if fh.FrameIsIntra:
            return
        for ref in range(LAST_FRAME, ALTREF_FRAME + 1):
            if r.f(1):                      # is_global
                if r.f(1):                  # is_rot_zoom
                    typ = ROTZOOM
                else:
                    typ = TRANSLATION if r.f(1) else AFFINE
            else:
                typ = IDENTITY
            fh.gm_type[ref] = typ
            if typ >= ROTZOOM:
                self.read_global_param(r, fh, prev_gm, typ, ref, 2)
                self.read_global_param(r, fh, prev_gm, typ, ref, 3)
                if typ == AFFINE:
                    self.read_global_param(r, fh, prev_gm, typ, ref, 4)
                    self.read_global_param(r, fh, prev_gm, typ, ref, 5)
                else:
                    fh.gm_params[ref][4] = -fh.gm_params[ref][3]
                    fh.gm_params[ref][5] = fh.gm_params[ref][2]
            if typ >= TRANSLATION:
                self.read_global_param(r, fh, prev_gm, typ, ref, 0)
                self.read_global_param(r, fh, prev_gm, typ, ref, 1)

    def read_global_param(self, r, fh, prev_gm, typ, ref, idx):
        abs_bits = GM_ABS_ALPHA_BITS
        prec_bits = GM_ALPHA_PREC_BITS
        if idx < 2:
            if typ == TRANSLATION:
                abs_bits = GM_ABS_TRANS_ONLY_BITS - (0 if fh.allow_high_precision_mv else 1)
                prec_bits = GM_TRANS_ONLY_PREC_BITS - (0 if fh.allow_high_precision_mv else 1)
            else:
                abs_bits = GM_ABS_TRANS_BITS
                prec_bits = GM_TRANS_PREC_BITS
        prec_diff = WARPEDMODEL_PREC_BITS - prec_bits
        rnd = (1 << WARPEDMODEL_PREC_BITS) if (idx % 3) == 2 else 0
        sub = (1 << prec_bits) if (idx % 3) == 2 else 0
        mx = 1 << abs_bits
        rr = (prev_gm[ref][idx] >> prec_diff) - sub
        fh.gm_params[ref][idx] = (_decode_signed_subexp_with_ref(r, -mx, mx + 1, rr) << prec_diff) + rnd

    # ---- 5.9.30 film_grain_params
    def film_grain_params(self, r, fh):
        s = self.seq
        g = _reset_grain()
        if not s.film_grain_params_present or (not fh.show_frame and not fh.showable_frame):
            fh.__dict__.update(g)
            return
        g["apply_grain"] = r.f(1)
        if not g["apply_grain"]:
            fh.__dict__.update(_reset_grain())
            return
        g["grain_seed"] = r.f(16)
        if fh.frame_type == INTER_FRAME:
            g["update_grain"] = r.f(1)
        else:
            g["update_grain"] = 1
        if not g["update_grain"]:
            idx = r.f(3)
            if idx not in fh.ref_frame_idx:
                self.warn("film_grain_params_ref_idx %d is not one of ref_frame_idx[]" % idx)
            seed = g["grain_seed"]
            g = _copy_grain(self.refs[idx].grain)
            if not g["apply_grain"]:
                self.warn("film_grain_params_ref_idx %d refers to a frame without film grain params" % idx)
            g["film_grain_params_ref_idx"] = idx
            g["grain_seed"] = seed
            g["update_grain"] = 0
            g["apply_grain"] = 1
            fh.__dict__.update(g)
            return
        g["num_y_points"] = r.f(4)
        if g["num_y_points"] > 14:
            self.warn("num_y_points > 14")
        for _ in range(g["num_y_points"]):
            g["point_y_value"].append(r.f(8))
            g["point_y_scaling"].append(r.f(8))
        g["chroma_scaling_from_luma"] = 0 if s.mono_chrome else r.f(1)
        if (s.mono_chrome or g["chroma_scaling_from_luma"]
                or (s.subsampling_x == 1 and s.subsampling_y == 1 and g["num_y_points"] == 0)):
            g["num_cb_points"] = 0
            g["num_cr_points"] = 0
        else:
            g["num_cb_points"] = r.f(4)
            for _ in range(g["num_cb_points"]):
                g["point_cb_value"].append(r.f(8))
                g["point_cb_scaling"].append(r.f(8))
            g["num_cr_points"] = r.f(4)
            for _ in range(g["num_cr_points"]):
                g["point_cr_value"].append(r.f(8))
                g["point_cr_scaling"].append(r.f(8))
            if g["num_cb_points"] > 10 or g["num_cr_points"] > 10:
                self.warn("num_cb_points/num_cr_points > 10")
        g["grain_scaling_minus_8"] = r.f(2)
        g["ar_coeff_lag"] = r.f(2)
        num_pos_luma = 2 * g["ar_coeff_lag"] * (g["ar_coeff_lag"] + 1)
        if g["num_y_points"]:
            num_pos_chroma = num_pos_luma + 1
            g["ar_coeffs_y_plus_128"] = [r.f(8) for _ in range(num_pos_luma)]
        else:
            num_pos_chroma = num_pos_luma
        if g["chroma_scaling_from_luma"] or g["num_cb_points"]:
            g["ar_coeffs_cb_plus_128"] = [r.f(8) for _ in range(num_pos_chroma)]
        if g["chroma_scaling_from_luma"] or g["num_cr_points"]:
            g["ar_coeffs_cr_plus_128"] = [r.f(8) for _ in range(num_pos_chroma)]
        g["ar_coeff_shift_minus_6"] = r.f(2)
        g["grain_scale_shift"] = r.f(2)
        if g["num_cb_points"]:
            g["cb_mult"] = r.f(8)
            g["cb_luma_mult"] = r.f(8)
            g["cb_offset"] = r.f(9)
        if g["num_cr_points"]:
            g["cr_mult"] = r.f(8)
            g["cr_luma_mult"] = r.f(8)
            g["cr_offset"] = r.f(9)
        g["overlap_flag"] = r.f(1)
        g["clip_to_restricted_range"] = r.f(1)
        fh.__dict__.update(g)

    # ---- 7.20 reference frame update process / 7.21 loading process
    def finish_frame(self):
        """decode_frame_wrapup(): reference update for the current frame."""
        fh = self.cur
        self.cur = None
        self.seen_frame_header = 0
        if fh is None:
            return
        fh.complete = 1
        s = self.seq
        if fh.show_existing_frame:
            if fh.frame_type == KEY_FRAME:
                # loading process then refresh of every slot
                src = self.refs[fh.frame_to_show_map_idx].copy()
                src.valid = 1
                src.frame_type = KEY_FRAME
                for i in range(NUM_REF_FRAMES):
                    self.refs[i] = src.copy()
                self.current_frame_id = src.frame_id
            return
        for i in range(NUM_REF_FRAMES):
            if not (fh.refresh_frame_flags >> i) & 1:
                continue
            x = _Ref()
            x.valid = 1
            x.frame_id = fh.current_frame_id
            x.upscaled_width = fh.upscaled_width
            x.frame_width = fh.frame_width
            x.frame_height = fh.frame_height
            x.render_width = fh.render_width
            x.render_height = fh.render_height
            x.mi_cols = fh.MiCols
            x.mi_rows = fh.MiRows
            x.frame_type = fh.frame_type
            x.subsampling_x = s.subsampling_x
            x.subsampling_y = s.subsampling_y
            x.bit_depth = s.bit_depth
            x.order_hint = fh.order_hint
            x.saved_order_hints = list(fh.OrderHints)
            x.gm_params = [list(p) for p in fh.gm_params]
            x.grain = _copy_grain(fh.film_grain())
            x.ref_deltas = list(fh.ref_deltas)
            x.mode_deltas = list(fh.mode_deltas)
            x.feature_enabled = [list(p) for p in fh.FeatureEnabled]
            x.feature_data = [list(p) for p in fh.FeatureData]
            x.showable_frame = fh.showable_frame
            x.hdr = fh
            self.refs[i] = x

    def abandon_pending(self, why):
        if self.cur is not None and self.seen_frame_header:
            self.err("frame (order_hint %d) incomplete: %s after tiles 0..%d of %d"
                     % (self.cur.order_hint, why, self.next_tile - 1, self.cur.TileCols * self.cur.TileRows))
            self.finish_frame()

    # ---- 5.11.1 tile_group_obu
    def tile_group(self, r, obu):
        fh = self.cur
        num_tiles = fh.TileCols * fh.TileRows
        tg = {"obu_type": obu.type, "tile_start_and_end_present_flag": 0, "tg_start": 0, "tg_end": num_tiles - 1,
              "tile_sizes": [], "ok": True, "packet": self.pkt.index}
        start_pos = r.pos
        if num_tiles > 1:
            tg["tile_start_and_end_present_flag"] = r.f(1)
        if num_tiles > 1 and tg["tile_start_and_end_present_flag"]:
            bits = fh.TileColsLog2 + fh.TileRowsLog2
            tg["tg_start"] = r.f(bits)
            tg["tg_end"] = r.f(bits)
        if not r.byte_alignment():
            self.err("nonzero padding/alignment bits before tile data")
            tg["ok"] = False
        tg["header_bytes"] = (r.pos - start_pos) // 8
        fh.tile_groups.append(tg)
        obu.parsed = tg if obu.type == OBU_TILE_GROUP else obu.parsed
        if tg["tg_start"] != self.next_tile:
            self.err("tile group tg_start %d, expected %d" % (tg["tg_start"], self.next_tile))
            tg["ok"] = False
        if tg["tg_end"] < tg["tg_start"] or tg["tg_end"] >= num_tiles:
            self.err("tile group tg_end %d out of range (tg_start %d, NumTiles %d)" % (tg["tg_end"], tg["tg_start"], num_tiles))
            tg["ok"] = False
            self.finish_frame()
            return
        sz = r.remaining() // 8
        for tile_num in range(tg["tg_start"], tg["tg_end"] + 1):
            if tile_num == tg["tg_end"]:
                tile_size = sz
                if tile_size < 1:
                    self.err("tile %d: no data left for the last tile of the group" % tile_num)
                    tg["ok"] = False
            else:
                if sz < fh.tile_size_bytes:
                    self.err("tile %d: tile_size_minus_1 field runs past the end of the OBU" % tile_num)
                    tg["ok"] = False
                    break
                tile_size = r.le(fh.tile_size_bytes) + 1
                sz -= fh.tile_size_bytes
                if tile_size > sz:
                    self.err("tile %d: tile size %d exceeds remaining OBU payload %d" % (tile_num, tile_size, sz))
                    tg["ok"] = False
                    break
                sz -= tile_size
                r.pos += 8 * tile_size
            tg["tile_sizes"].append(tile_size)
        self.next_tile = tg["tg_end"] + 1
        if tg["tg_end"] == num_tiles - 1:
            obu.frame_end = True
            self.finish_frame()

    # ---- 5.9.1 frame_header_obu (also used inside frame_obu)
    def frame_header(self, r, obu):
        """-> FrameHeader (new), or None for a frame_header_copy()."""
        if self.seq is None:
            raise ParseError("frame header before any sequence header")
        if self.seen_frame_header:
            # frame_header_copy(): must be bit-identical to the first one
            fh = self.cur
            n = fh.header_bits
            if r.remaining() < n:
                self.err("frame_header_copy shorter than the original frame header")
                r.pos = r.nbits
                return None
            save = r.pos
            same = True
            left = n
            chk = BitReader(fh.header_bytes)
            while left > 0:
                k = min(left, 32)
                if r.f(k) != chk.f(k):
                    same = False
                left -= k
            if not same:
                self.err("frame_header_copy differs from the original frame header")
            r.pos = save + n
            fh.redundant_copies += 1
            return None
        if obu.type == OBU_REDUNDANT_FRAME_HEADER:
            self.warn("OBU_REDUNDANT_FRAME_HEADER without a preceding frame header")
        fh = FrameHeader()
        fh.obu_type = obu.type
        fh.temporal_unit = self.pkt.index
        fh.obu_index = len(self.pkt.obus) - 1
        self.seen_frame_header = 1
        self.cur = fh
        self.next_tile = 0
        start = r.pos
        try:
            self.uncompressed_header(r, fh)
        except ParseError:
            self.cur = None
            self.seen_frame_header = 0
            raise
        nbytes = (fh.header_bits + 7) // 8
        b0 = r.start + (start >> 3)
        if start & 7 == 0:
            fh.header_bytes = bytes(r.data[b0:b0 + nbytes])
        self.pkt.frame_headers.append(fh)
        self.stream.all_frame_headers.append(fh)
        if fh.is_shown:
            self.pkt.shown_frames += 1
        if fh.show_existing_frame:
            obu.frame_end = True
            self.finish_frame()
        return fh

    # ---- metadata (light)
    def metadata(self, obu):
        md = {"metadata_type": None, "name": None}
        try:
            t, n = leb128(obu.payload, 0)
        except ParseError as e:
            self.err("metadata OBU: %s" % e)
            return md
        md["metadata_type"] = t
        md["name"] = METADATA_NAMES.get(t, "reserved/unregistered")
        body = obu.payload[n:]
        md["body"] = body
        stripped = body.rstrip(b"\x00")
        if not stripped:
            self.err("trailing bits malformed in metadata OBU")
        else:
            last = stripped[-1]
            fixed = {1: 4, 2: 24}.get(t)
            if fixed is not None and (len(stripped) != fixed + 1 or last != 0x80):
                self.err("trailing bits malformed in metadata OBU (type %d)" % t)
        return md

    # ---- one OBU payload
    def handle_obu(self, obu):
        pkt = self.pkt
        t = obu.type
        self.temporal_id = obu.temporal_id
        self.spatial_id = obu.spatial_id
        if t not in (OBU_SEQUENCE_HEADER, OBU_TEMPORAL_DELIMITER) and self.seq is not None \
                and self.seq.OperatingPointIdc != 0 and obu.has_extension:
            idc = self.seq.OperatingPointIdc
            if not ((idc >> obu.temporal_id) & 1 and (idc >> (obu.spatial_id + 8)) & 1):
                obu.dropped = True
                return
        if t == OBU_TEMPORAL_DELIMITER:
            if obu.size != 0:
                self.err("temporal delimiter with nonzero size")
            if pkt.has_temporal_delimiter:
                self.err("more than one temporal delimiter in packet")
            pkt.has_temporal_delimiter = True
            self.abandon_pending("temporal delimiter")
            self.seen_frame_header = 0
        elif t == OBU_SEQUENCE_HEADER:
            sh, ok, extra = _parse_sequence_header(obu.payload)
            obu.parsed = sh
            if not ok:
                self.err("trailing bits malformed in sequence header")
            elif extra:
                self.note("sequence header followed by %d extra zero bytes" % extra)
            pkt.sequence_headers.append(sh)
            if self.seq is not None and self.seq.raw != sh.raw:
                self.abandon_pending("new sequence header")
                sh.changed = True
            else:
                sh.changed = False
            self.seq = sh
            self.stream.sequence_header = sh
        elif t in (OBU_FRAME_HEADER, OBU_REDUNDANT_FRAME_HEADER):
            r = BitReader(obu.payload)
            fh = self.frame_header(r, obu)
            obu.parsed = fh if fh is not None else self.cur
            obu.frame_header = obu.parsed
            if obu.size > 0:
                ok, extra = r.trailing_ok()
                if not ok:
                    self.err("trailing bits malformed in frame header OBU (header ends at bit %d of %d)"
                             % (r.pos, r.nbits))
                elif extra:
                    self.note("frame header OBU followed by %d extra zero bytes" % extra)
        elif t == OBU_FRAME:
            pkt.tile_group_obus += 1
            r = BitReader(obu.payload)
            if self.seen_frame_header:
                self.warn("OBU_FRAME while a frame header is already active (frame_header_copy inside OBU_FRAME)")
            fh = self.frame_header(r, obu)
            obu.parsed = fh if fh is not None else self.cur
            obu.frame_header = obu.parsed
            if fh is not None and fh.show_existing_frame:
                self.err("OBU_FRAME with show_existing_frame=1")
                return
            if not r.byte_alignment():
                self.err("nonzero padding/alignment bits before tile data")
            self.tile_group(r, obu)
        elif t == OBU_TILE_GROUP:
            pkt.tile_group_obus += 1
            if not self.seen_frame_header or self.cur is None:
                self.err("tile group OBU without an active frame header")
                return
            r = BitReader(obu.payload)
            obu.frame_header = self.cur
            self.tile_group(r, obu)
        elif t == OBU_METADATA:
            md = self.metadata(obu)
            obu.parsed = md
            pkt.metadata_obus.append(md)
        elif t == OBU_TILE_LIST:
            self.warn("OBU_TILE_LIST present (large scale tile), not parsed")
        elif t == OBU_PADDING:
            pass

    # ---- one packet (temporal unit)
    def parse_packet(self, index, data):
        pkt = PacketInfo(index, len(data))
        self.pkt = pkt
        self.stream.packets.append(pkt)
        pos = 0
        n = len(data)
        if n == 0:
            self.err("empty packet")
        while pos < n:
            obu = Obu()
            obu.offset = pos
            b = data[pos]
            obu.forbidden_bit = b >> 7
            obu.type = (b >> 3) & 15
            obu.type_name = OBU_NAMES.get(obu.type, "OBU_RESERVED_%d" % obu.type)
            obu.has_extension = (b >> 2) & 1
            obu.has_size_field = (b >> 1) & 1
            obu.reserved_1bit = b & 1
            hl = 1
            if obu.forbidden_bit:
                self.err("obu_forbidden_bit set (offset %d)" % pos)
            if obu.reserved_1bit:
                self.err("obu_reserved_1bit set (offset %d)" % pos)
            if obu.has_extension:
                if pos + 1 >= n:
                    self.err("obu extension byte missing (offset %d)" % pos)
                    pkt.obus.append(obu)
                    break
                e = data[pos + 1]
                obu.temporal_id = e >> 5
                obu.spatial_id = (e >> 3) & 3
                obu.extension_reserved_3bits = e & 7
                if obu.extension_reserved_3bits:
                    self.err("extension_header_reserved_3bits nonzero (offset %d)" % pos)
                hl = 2
            if obu.has_size_field:
                try:
                    size, nb = leb128(data, pos + hl)
                except ParseError as ex:
                    self.err("obu_size: %s (offset %d)" % (ex, pos))
                    pkt.obus.append(obu)
                    break
                if nb > 1 and data[pos + hl + nb - 1] == 0:
                    self.note("obu_size leb128 not minimally encoded (offset %d)" % pos)
                hl += nb
            else:
                self.err("obu_has_size_field is 0 (offset %d)" % pos)
                size = n - pos - hl
            obu.header_len = hl
            obu.size = size
            if pos + hl + size > n:
                self.err("obu size exceeds packet (offset %d, type %d, size %d, %d bytes left)"
                         % (pos, obu.type, size, n - pos - hl))
                obu.payload = bytes(data[pos + hl:n])
                pkt.obus.append(obu)
                break
            obu.payload = bytes(data[pos + hl:pos + hl + size])
            pkt.obus.append(obu)
            if len(pkt.obus) == 1 and obu.type != OBU_TEMPORAL_DELIMITER:
                self.err("first OBU is not a temporal delimiter")
            if obu.type not in OBU_NAMES:
                self.err("reserved obu type %d" % obu.type)
            else:
                try:
                    self.handle_obu(obu)
                except ParseError as ex:
                    if self.strict:
                        raise
                    pkt.errors.append("%s at offset %d: %s" % (obu.type_name, pos, ex))
                except (IndexError, KeyError, ValueError, ZeroDivisionError, OverflowError, TypeError) as ex:
                    # corrupt state reached through a damaged header: report, never crash
                    self.cur = None
                    self.seen_frame_header = 0
                    if self.strict:
                        raise ParseError("packet %d: %s at offset %d: %r" % (pkt.index, obu.type_name, pos, ex))
                    pkt.errors.append("%s at offset %d: unparsable (%r)" % (obu.type_name, pos, ex))
            pos += hl + size
        return pkt


def parse_stream(packets, strict=False):
    """Parse a list of temporal units (bytes, low-overhead OBU format) with persistent
    decoder state.  Problems are recorded in PacketInfo.errors (syntax / framing) and
    PacketInfo.warnings (semantic conformance requirements); with strict=True the first
    error raises ParseError instead."""
    p = _Parser(strict)
    for i, data in enumerate(packets):
        p.parse_packet(i, bytes(data))
    if p.cur is not None and p.seen_frame_header and p.stream.packets:
        p.pkt = p.stream.packets[-1]
        p.abandon_pending("end of stream")
    return p.stream


if __name__ == "__main__":
    import sys
    for path in sys.argv[1:]:
        st = parse_stream(read_ivf(path))
        print("%s: %d packets, %d frame headers, %d shown, %d errors, %d warnings" % (
            path, len(st.packets), len(st.all_frame_headers), st.shown_frames, len(st.errors), len(st.warnings)))
        for pk in st.packets:
            print("  pkt %d: %s" % (pk.index, " ".join(o.type_name[4:] for o in pk.obus)))
            for fh in pk.frame_headers:
                print("     ", fh)
            for e in pk.errors:
                print("      ERROR", e)
            for w in pk.warnings:
                print("      warn ", w)
