"""Sanitizer options and report parsing -> canonical report keys (DESIGN 2.1)."""
import glob
import json
import os
import re

from . import build

GENERIC = {"memset", "memcpy", "memmove", "memcmp", "svt_memcpy_small", "svt_memcpy_sse", "svt_memcpy_intrin_sse",
           "svt_memcpy_c", "svt_memcpy", "svt_memset", "__asan_memcpy", "__asan_memset", "__asan_memmove",
           "__interceptor_memcpy", "__interceptor_memset", "__interceptor_memmove", "__tsan_memcpy", "__tsan_memset",
           "generate_padding", "generate_padding16_bit", "generate_padding_l", "generate_padding_r",
           "eb_memcpy", "svt_memcpy_app", "malloc", "free", "calloc", "posix_memalign", "realloc",
           "__interceptor_malloc", "__interceptor_free", "__interceptor_calloc", "__interceptor_posix_memalign",
           "operator new", "operator delete", "pthread_mutex_lock", "pthread_mutex_unlock", "__interceptor_strlen",
           "strlen", "printf_common", "vfprintf", "fprintf", "fwrite", "__interceptor_fwrite", "read", "fread",
           "__interceptor_fread", "__interceptor_read", "generate_padding_t", "generate_padding_b", "pad_row",
           "xx_loadu_128", "xx_storeu_128", "xx_load_128", "xx_store_128", "xx_loadl_64", "xx_storel_64"}

_benign = None


def benign_sites():
    global _benign
    if _benign is None:
        p = os.path.join(build.VERIF, "lib", "ubsan_benign_sites.json")
        _benign = json.load(open(p)).get("sites", []) if os.path.exists(p) else []
    return _benign


def env_for(flavour, prefix, detect_leaks=False, extra_asan=""):
    """Environment for a sanitized run writing logs to <prefix>.<tool>.<pid>."""
    e = {}
    if flavour in ("asan", "fuzz"):
        e["ASAN_OPTIONS"] = ("log_path=%s.asan:halt_on_error=0:detect_leaks=%d:detect_stack_use_after_return=1:"
                             "allocator_may_return_null=1:handle_abort=1:print_summary=1:symbolize=1%s"
                             % (prefix, 1 if detect_leaks else 0, (":" + extra_asan) if extra_asan else ""))
        e["UBSAN_OPTIONS"] = "log_path=%s.ubsan:print_stacktrace=1:halt_on_error=0:symbolize=1" % prefix
        e["LSAN_OPTIONS"] = "log_path=%s.lsan:print_suppressions=0" % prefix
    elif flavour == "tsan":
        e["TSAN_OPTIONS"] = ("log_path=%s.tsan:halt_on_error=0:second_deadlock_stack=1:report_signal_unsafe=0:"
                             "history_size=4:exitcode=0" % prefix)
    e["ASAN_SYMBOLIZER_PATH"] = "/usr/bin/llvm-symbolizer-14"
    e["TSAN_SYMBOLIZER_PATH"] = "/usr/bin/llvm-symbolizer-14"
    return e


_frame_re = re.compile(r"^\s*#(\d+)\s+(?:0x[0-9a-f]+\s+)?(?:in\s+)?(\S+)(?:\s+(\S+))?")


def _frames(lines):
    out = []
    for ln in lines:
        m = _frame_re.match(ln)
        if m:
            fn = m.group(2)
            loc = m.group(3) or ""
            out.append((fn, loc))
    return out


def _in_lib(loc):
    return "/Source/" in loc or "/repo/" in loc or "third_party" in loc


def _innermost(frames, n=1):
    """innermost in-library, non-generic function names"""
    res = []
    for fn, loc in frames:
        base = fn.split("(")[0]
        if base in GENERIC or base.startswith("__interceptor") or base.startswith("__asan") or base.startswith("__tsan") \
                or base.startswith("__sanitizer") or base.startswith("__ubsan"):
            continue
        if loc and not _in_lib(loc) and "/verif/harness" not in loc:
            # libc / runtime frame
            if not res:
                continue
        res.append(base)
        if len(res) >= n:
            break
    return res or ["?"]


def parse_asan(text):
    """-> list of (key, excerpt)"""
    out = []
    blocks = re.split(r"(?m)^=+\d+=+ERROR: ", text)
    for b in blocks[1:]:
        lines = b.split("\n")
        head = lines[0]
        m = re.match(r"(AddressSanitizer|LeakSanitizer): ([A-Za-z0-9_-]+(?: [a-z-]+)*)", head)
        kind = m.group(2) if m else head[:40]
        if "LeakSanitizer" in head:
            # one key per leak stack
            for lb in re.split(r"(?m)^(?=Direct leak|Indirect leak)", b)[1:]:
                ll = lb.split("\n")
                if ll[0].startswith("Indirect"):
                    continue
                fr = _frames(ll[1:])
                out.append(("lsan|leak|%s" % ">".join(_innermost(fr, 2)), "\n".join(ll[:8])))
            continue
        # access kind
        acc = ""
        for ln in lines[1:6]:
            mm = re.match(r"(READ|WRITE) of size (\d+)", ln)
            if mm:
                acc = mm.group(1)
                break
        # first stack = faulting access
        st = []
        started = False
        for ln in lines[1:]:
            if _frame_re.match(ln):
                st.append(ln)
                started = True
            elif started:
                break
        fr = _frames(st)
        kind = kind.split(" on ")[0].strip()
        out.append(("asan|%s|%s|%s" % (kind, ">".join(_innermost(fr, 1)), acc), "\n".join(lines[:14])))
    return out


_ubsan_re = re.compile(r"^(\S+?):(\d+):(\d+): runtime error: (.*)$")


def _ubsan_class(msg):
    msg = re.sub(r"0x[0-9a-f]+", "ADDR", msg)
    msg = re.sub(r"-?\d+(\.\d+)?(e[+-]?\d+)?", "N", msg)
    return msg[:100]


def parse_ubsan(text):
    out = []
    lines = text.split("\n")
    i = 0
    while i < len(lines):
        m = _ubsan_re.match(lines[i])
        if m:
            f, msg = os.path.basename(m.group(1)), m.group(4)
            st = []
            j = i + 1
            while j < len(lines) and _frame_re.match(lines[j]):
                st.append(lines[j])
                j += 1
            fr = _frames(st)
            fn = _innermost(fr, 1)[0] if fr else "?"
            key = "ubsan|%s|%s|%s" % (_ubsan_kind(msg), fn if fn != "?" else f, _ubsan_class(msg))
            out.append((key, "\n".join(lines[i:min(j, i + 6)]), f, fn, msg))
            i = j
        else:
            i += 1
    return out


def _ubsan_kind(msg):
    if "out of bounds" in msg:
        return "bounds"
    if "shift exponent" in msg:
        return "shift-exponent"
    if "signed integer overflow" in msg:
        return "signed-overflow"
    if "division by zero" in msg:
        return "div-zero"
    if "outside the range of representable" in msg:
        return "float-cast"
    if "null pointer" in msg:
        return "null"
    if "load of value" in msg:
        return "invalid-value"
    if "negation of" in msg:
        return "signed-overflow"
    return "other"


def is_benign_ubsan(fn, f, msg):
    for s in benign_sites():
        if s.get("function") in (fn, None) and (s.get("file") in (f, None)) and s.get("contains", "") in msg:
            return True
    return False


def parse_tsan(text):
    out = []
    blocks = re.split(r"(?m)^WARNING: ThreadSanitizer: ", text)
    for b in blocks[1:]:
        lines = b.split("\n")
        kind = lines[0].split(" (pid")[0].strip()
        # stacks: sections start with lines ending in ':' that are not frames
        stacks = []
        cur = None
        for ln in lines[1:]:
            if _frame_re.match(ln):
                if cur is not None:
                    cur.append(ln)
            elif ln.strip().endswith(":") or " by thread " in ln or " by main thread" in ln:
                cur = []
                stacks.append((ln.strip(), cur))
            elif ln.startswith("SUMMARY"):
                break
        fns = []
        for title, st in stacks:
            if re.match(r"(Previous |Read|Write|Atomic|Mutex|Cycle|Thread T\d+ .*created|Location)", title) is None:
                pass
            if title.startswith(("Write of", "Read of", "Previous write", "Previous read", "Atomic", "Previous atomic")):
                fns.append(_innermost(_frames(st), 1)[0])
        if kind == "data race" and len(fns) >= 2:
            pair = "+".join(sorted(fns[:2]))
        elif stacks:
            pair = _innermost(_frames(stacks[0][1]), 1)[0]
        else:
            pair = "?"
        out.append(("tsan|%s|%s" % (kind, pair), "\n".join(lines[:24])))
    return out


def collect(prefix):
    """Read all sanitizer logs written under <prefix>.{asan,ubsan,lsan,tsan}.* -> list of (key, excerpt)."""
    res = []
    for path in sorted(glob.glob(prefix + ".asan.*") + glob.glob(prefix + ".lsan.*")):
        t = open(path, errors="replace").read()
        res += parse_asan(t)
        # UBSan reports can land in the ASan log when both runtimes share it
        for k, ex, f, fn, msg in parse_ubsan(t):
            if not is_benign_ubsan(fn, f, msg):
                res.append((k, ex))
    for path in sorted(glob.glob(prefix + ".ubsan.*")):
        t = open(path, errors="replace").read()
        # ASan and UBSan share one runtime and one log_path flag: UBSAN_OPTIONS is parsed last, so ASan/LSan
        # reports land in the ".ubsan" file as well
        res += parse_asan(t)
        for k, ex, f, fn, msg in parse_ubsan(t):
            if not is_benign_ubsan(fn, f, msg):
                res.append((k, ex))
    for path in sorted(glob.glob(prefix + ".tsan.*")):
        res += parse_tsan(open(path, errors="replace").read())
    return res


def parse_stderr(flavour, text):
    """Fallback when reports went to stderr."""
    res = []
    if flavour in ("asan", "fuzz"):
        res += parse_asan(text)
        for k, ex, f, fn, msg in parse_ubsan(text):
            if not is_benign_ubsan(fn, f, msg):
                res.append((k, ex))
    elif flavour == "tsan":
        res += parse_tsan(text)
    return res
