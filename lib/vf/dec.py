"""Decoder case helpers: run decdrv on a case dict (see harness/decdrv.c for the keys), read its outputs."""
import json
import os
import signal
import subprocess
import time

from . import build, core, sanlog

EB_DecUnsupportedBitstream = 0x40001000
EB_DecNoOutputPicture = 0x40001004
EB_DecDecodingError = 0x40001008


class DecResult:
    pass


def decdrv(flavour):
    return build.harness(flavour, "decdrv", libs=("dec",))


def write_case(path, case):
    with open(path, "w") as f:
        for k, v in case.items():
            if k.startswith("_"):
                continue
            f.write("%s=%s\n" % (k, v))


def case_timeout(case, flavour, ivf=None):
    """Generous watchdog: never decides a property, only marks 'no progress'."""
    sz = 0
    try:
        sz = os.path.getsize(ivf or case.get("in", ""))
    except OSError:
        pass
    mult = {"plain": 1, "avx512": 1, "asan": 8, "tsan": 25, "fuzz": 8}.get(flavour, 1)
    sessions = max(1, int(case.get("sessions", 1)))
    # a plain decode of these streams takes well under a second: 60 s is > 100x
    return max(60.0 if mult == 1 else 120.0, 60.0 * mult * sessions * (1 + sz / 2e6))


def _thread_snapshot(pid):
    """[(tid, state, wchan, cpu_ticks)] of a live process (Linux /proc)."""
    out = []
    try:
        tids = sorted(os.listdir("/proc/%d/task" % pid), key=int)
    except OSError:
        return out
    for tid in tids:
        try:
            st = open("/proc/%d/task/%s/stat" % (pid, tid)).read()
            f = st[st.rindex(")") + 2:].split()
            try:
                wchan = open("/proc/%d/task/%s/wchan" % (pid, tid)).read().strip()
            except OSError:
                wchan = "?"
            out.append((int(tid), f[0], wchan, int(f[11]) + int(f[12])))
        except (OSError, ValueError, IndexError):
            pass
    return out


def run_watched(cmd, timeout, env=None):
    """Like core.run, but when the watchdog fires the threads of the process are sampled twice (1.5 s apart) before
    the process group is killed: RunResult.hang = {"threads": n, "cpu_ticks_delta": d, "states": [...]} tells a
    deadlock (nobody runs, nobody can be woken) from a slow run."""
    e = dict(os.environ)
    if env:
        e.update(env)
    t0 = time.time()
    p = subprocess.Popen(cmd, stdout=subprocess.PIPE, stderr=subprocess.PIPE, env=e, stdin=subprocess.DEVNULL,
                         start_new_session=True)
    try:
        out, err = p.communicate(timeout=timeout)
        r = core.RunResult(p.returncode, out.decode("utf-8", "replace"), err.decode("utf-8", "replace"), False,
                           time.time() - t0)
        r.hang = None
        return r
    except subprocess.TimeoutExpired:
        s1 = _thread_snapshot(p.pid)
        time.sleep(1.5)
        s2 = _thread_snapshot(p.pid)
        c1 = {t: c for t, _, _, c in s1}
        delta = sum(c - c1.get(t, c) for t, _, _, c in s2)
        hang = {"threads": len(s2), "cpu_ticks_delta": delta, "states": ["%s:%s" % (st, w) for _, st, w, _ in s2]}
        out, err = b"", b""
        for sig, wait in ((signal.SIGTERM, 3), (signal.SIGKILL, 10)):
            try:
                os.killpg(p.pid, sig)
            except OSError:
                pass
            try:
                out, err = p.communicate(timeout=wait)
                break
            except Exception:
                continue
        r = core.RunResult(-9, out.decode("utf-8", "replace"), err.decode("utf-8", "replace"), True, time.time() - t0)
        r.hang = hang
        return r


def make_case(ivf, threads=1, is_16bit_pipeline=0, **over):
    """Convenience: the usual decdrv case for a stream."""
    c = {"in": ivf, "cfg.threads": int(threads), "cfg.is_16bit_pipeline": int(is_16bit_pipeline)}
    c.update(over)
    return c


def run_dec_case(flavour, case, prefix, env=None, timeout=None, sched=None, trace=False, detect_leaks=False,
                 no_hb=False, read_frames=True):
    """Run one decdrv case.  Returns DecResult with fields:
       rc, timed_out, hang (thread snapshot when the watchdog fired), crashed, res (dict or None), frames ([(key,w,h,bd,bytes)] when read_frames), san [(key, excerpt)],
       stderr, wall, log_tail (last boundary-log lines), prefix, case"""
    exe = decdrv(flavour)
    case = dict(case)
    case["out"] = prefix
    cpath = prefix + ".case"
    write_case(cpath, case)
    for suffix in (".res", ".frames", ".log"):
        if os.path.exists(prefix + suffix):
            os.unlink(prefix + suffix)
    e = {"SVT_LOG": "1"}
    e.update(sanlog.env_for(flavour, prefix, detect_leaks=detect_leaks))
    if sched:
        e["SVT_VERIF_SCHED"] = sched
    if no_hb:
        e["SVT_VERIF_NO_HB"] = "1"
    if trace:
        e["SVT_VERIF_TRACE"] = prefix + ".trace"
        if os.path.exists(prefix + ".trace"):
            os.unlink(prefix + ".trace")
    if env:
        e.update(env)
    to = timeout or case_timeout(case, flavour)
    r = run_watched([exe, cpath], timeout=to, env=e)
    res = DecResult()
    res.hang = r.hang
    res.case = case
    res.flavour = flavour
    res.prefix = prefix
    res.rc = r.rc
    res.timed_out = r.timed_out
    res.stderr = r.err
    res.stdout = r.out
    res.wall = r.wall
    res.res = None
    rp = prefix + ".res"
    if os.path.exists(rp):
        try:
            res.res = json.loads(open(rp).read())
        except ValueError:
            res.res = None
    res.crashed = (not r.timed_out) and r.rc not in (0, 2, 3)
    res.frames = []
    if read_frames and os.path.exists(prefix + ".frames"):
        try:
            res.frames = core.read_frames(prefix + ".frames")
        except ValueError:
            res.frames = []
    res.log_tail = []
    lp = prefix + ".log"
    if os.path.exists(lp):
        try:
            res.log_tail = open(lp, errors="replace").read().splitlines()[-6:]
        except OSError:
            pass
    res.san = sanlog.collect(prefix)
    if flavour != "plain" and not res.san and ("Sanitizer" in r.err or "runtime error" in r.err):
        res.san = sanlog.parse_stderr(flavour, r.err)
    return res


def pending_call(res):
    """Which API call never returned (from the boundary log): name or None."""
    last_c = None
    for ln in res.log_tail:
        p = ln.split()
        if len(p) >= 3 and p[1] == "C":
            last_c = p[2]
        elif len(p) >= 3 and p[1] == "R" and last_c == p[2]:
            last_c = None
    return last_c


def unsupported(res):
    return bool(res.res and res.res.get("unsupported"))


def frames_digest(frames):
    return core.sha(*[b"%d %d %d %d " % (k, w, h, bd) + d for (k, w, h, bd, d) in frames])


def compare_frames(a, b):
    """-> None when equal else a short description of the first difference (count, geometry or sample)."""
    if len(a) != len(b):
        return "picture count %d vs %d" % (len(a), len(b))
    for i, (x, y) in enumerate(zip(a, b)):
        if (x[1], x[2], x[3]) != (y[1], y[2], y[3]):
            return "picture %d geometry %dx%d/%d vs %dx%d/%d" % (i, x[1], x[2], x[3], y[1], y[2], y[3])
        if x[4] != y[4]:
            return "picture %d: %s" % (i, core.first_diff(x[4], y[4]))
    return None


def cleanup(prefix, keep=()):
    import glob
    for p in glob.glob(prefix + ".*"):
        if any(p.endswith(k) for k in keep):
            continue
        try:
            os.unlink(p)
        except OSError:
            pass
