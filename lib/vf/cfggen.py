"""Seeded generator of encoder cases inside the domain verify_settings accepts (DESIGN 2.5)."""
import random

CONTENTS = ["flat", "extreme", "gradient", "noise", "pan", "rects", "screen", "cuts", "mix", "zoom"]
SIZES_QUICK = [(64, 64), (66, 66), (70, 94), (96, 64), (128, 96), (130, 74), (176, 144), (192, 128), (200, 120),
               (256, 144), (320, 180), (352, 288)]
SIZES_BIG = [(640, 360), (854, 480), (1280, 720), (1920, 1080)]


def tool_overrides(rng, n=None):
    """A random handful of tool switches, each within its accepted domain."""
    domain = {
        "disable_dlf_flag": [0, 1], "cdef_level": [-1, 0, 1, 2, 3, 4], "enable_restoration_filtering": [-1, 0, 1],
        "sg_filter_mode": [-1, 0, 1, 2, 3, 4], "wn_filter_mode": [-1, 0, 1, 2, 3], "enable_warped_motion": [-1, 0, 1],
        "enable_global_motion": [0, 1], "obmc_level": [-1, 0, 1, 2, 3], "filter_intra_level": [-1, 0, 1],
        "enable_intra_edge_filter": [-1, 0, 1], "pic_based_rate_est": [-1, 0], "palette_level": [-1, 0, 1, 2, 3, 4, 5, 6],
        "rdoq_level": [-1, 0, 1], "set_chroma_mode": [-1, 0, 1, 2, 3], "disable_cfl_flag": [-1, 0, 1],
        "pred_me": [-1, 0, 1, 2, 3, 4, 5], "bipred_3x3_inject": [-1, 0, 1, 2], "compound_level": [-1, 0, 1, 2],
        "intra_angle_delta": [-1, 0, 1], "inter_intra_compound": [-1, 0, 1], "enable_paeth": [-1, 0, 1],
        "enable_smooth": [-1, 0, 1], "enable_mfmv": [-1, 0, 1], "enable_redundant_blk": [-1, 0, 1],
        "spatial_sse_full_loop_level": [-1, 0, 1], "over_bndry_blk": [-1, 0, 1], "new_nearest_comb_inject": [-1, 0, 1],
        "nsq_table": [-1, 0, 1], "frame_end_cdf_update": [-1, 0, 1], "mrp_level": [-1],
        "enable_hbd_mode_decision": [0, 1, 2], "ext_block_flag": [0, 1], "unrestricted_motion_vector": [0, 1],
        "enable_adaptive_quantization": [0, 1, 2], "scene_change_detection": [0], "enable_hme_flag": [0, 1],
        "enable_hme_level0_flag": [0, 1], "enable_hme_level1_flag": [0, 1], "enable_hme_level2_flag": [0, 1],
        "tf_level": [-1, 0, 1, 2, 3], "altref_strength": [0, 3, 5, 6], "altref_nframes": [0, 3, 7, 10],
        "high_dynamic_range_input": [0, 1], "enable_qp_scaling_flag": [0, 1],
    }
    keys = sorted(domain)
    n = rng.randint(0, 6) if n is None else n
    out = {}
    for k in rng.sample(keys, n):
        out["cfg." + k] = rng.choice(domain[k])
    return out


def gen_case(rng, quick=True, allow_slow=True, frames=None, size=None, rc=None, bitdepth=None, preset=None):
    """One encoder case (dict of encdrv keys) within the accepted configuration domain."""
    c = {}
    w, h = size or rng.choice(SIZES_QUICK)
    c["width"], c["height"] = w, h
    bd = bitdepth if bitdepth is not None else rng.choice([8, 8, 8, 10])
    c["bitdepth"] = bd
    if preset is None:
        preset = rng.choice([8, 8, 8, 7, 7, 6, 6, 5, 5, 4, 3, 2, 1, 0] if allow_slow else [8, 8, 7, 6, 5])
    c["cfg.enc_mode"] = preset
    area = w * h
    if frames is None:
        if preset <= 2:
            frames = rng.choice([2, 3, 5, 9]) if area <= 176 * 144 else rng.choice([2, 3])
        elif preset <= 4:
            frames = rng.choice([3, 6, 10, 17])
        else:
            frames = rng.choice([1, 2, 5, 9, 16, 17, 24, 33])
    c["frames"] = frames
    c["content"] = rng.choice(CONTENTS)
    c["content_seed"] = rng.randint(1, 1 << 30)
    c["cfg.recon_enabled"] = 1
    c["cfg.logical_processors"] = rng.choice([1, 2, 4, 8])
    hl = rng.choice([0, 1, 2, 3, 3, 4, 4, 5])
    c["cfg.hierarchical_levels"] = hl
    c["cfg.intra_period_length"] = rng.choice([-1, -1, -2, 0, 1, 3, 7, 8, 15, 16, 31])
    c["cfg.intra_refresh_type"] = rng.choice([1, 2])
    c["cfg.qp"] = rng.choice([0, 1, 10, 20, 30, 35, 43, 50, 55, 63])
    if bd == 10:
        c["cfg.is_16bit_pipeline"] = rng.choice([0, 1])
    elif rng.random() < 0.15:
        c["cfg.is_16bit_pipeline"] = 1
    # rate control
    mode = rc if rc is not None else rng.choice([0, 0, 0, 0, 1, 2])
    c["cfg.rate_control_mode"] = mode
    if mode:
        c["cfg.target_bit_rate"] = rng.choice([20000, 100000, 500000, 2000000, 20000000])
        lo = rng.choice([0, 0, 10, 20])
        hi = rng.choice([63, 63, 50, 40])
        c["cfg.min_qp_allowed"], c["cfg.max_qp_allowed"] = lo, max(lo, hi)
        if mode == 2:
            ip = rng.choice([7, 15, 16, 31])
            c["cfg.intra_period_length"] = ip
            c["cfg.look_ahead_distance"] = ip
        elif c["cfg.intra_period_length"] > 255:
            c["cfg.intra_period_length"] = 31
    if mode == 0 and rng.random() < 0.3:
        c["cfg.look_ahead_distance"] = rng.choice([0, 1, 8, 17, 33])
        if c["cfg.look_ahead_distance"] > 0 and rng.random() < 0.5:
            c["cfg.enable_tpl_la"] = 1
    if mode <= 1 and rng.random() < 0.12:
        c["passes"] = 2
    # overlays / altref
    if rng.random() < 0.2:
        c["cfg.enable_overlays"] = 1
    # tiles
    if rng.random() < 0.3:
        c["cfg.tile_columns"] = rng.choice([0, 1, 2])
        c["cfg.tile_rows"] = rng.choice([0, 1, 2])
    # superres (not with 2-pass)
    if c.get("passes", 1) == 1 and rng.random() < 0.15:
        c["cfg.superres_mode"] = rng.choice([1, 2])
        c["cfg.superres_denom"] = rng.choice([9, 10, 12, 14, 16])
        c["cfg.superres_kf_denom"] = rng.choice([8, 9, 12, 16])
    # film grain
    if rng.random() < 0.15:
        c["cfg.film_grain_denoise_strength"] = rng.choice([1, 4, 10, 25, 50])
    # screen content
    r = rng.random()
    if r < 0.15:
        c["cfg.screen_content_mode"] = 1
        if rng.random() < 0.5:
            c["cfg.intrabc_mode"] = rng.choice([0, 1, 2, 3])
        if rng.random() < 0.5:
            c["cfg.palette_level"] = rng.choice([0, 1, 3, 6])
    elif r < 0.25:
        c["cfg.screen_content_mode"] = rng.choice([0, 2])
    if rng.random() < 0.2:
        c["cfg.use_fixed_qindex_offsets"] = 1
        for i in range(6):
            c["cfg.qindex_offsets[%d]" % i] = rng.choice([-40, -10, 0, 5, 20, 60])
        c["cfg.key_frame_qindex_offset"] = rng.choice([-30, 0, 15])
    c.update(tool_overrides(rng))
    # hme enable combos must keep at least a consistent set; defaults are fine
    return c


def tiny_case(rng, frames=8, **over):
    c = {"width": 64, "height": 64, "bitdepth": 8, "frames": frames, "content": "pan",
         "content_seed": rng.randint(1, 1 << 30), "cfg.enc_mode": 8, "cfg.recon_enabled": 1,
         "cfg.logical_processors": 2}
    c.update(over)
    return c


def case_ident(case):
    """Stable identity of a case (for distinct counting)."""
    return "|".join("%s=%s" % (k, case[k]) for k in sorted(case) if not k.startswith("_") and k != "out")
