"""Core of the check framework: verdict bookkeeping, known-findings matching, evidence files,
parallel case runner, subprocess helper with watchdog."""
import concurrent.futures
import hashlib
import json
import os
import random
import re
import shutil
import signal
import subprocess
import sys
import time

from . import build

VERIF = build.VERIF
OUT = os.environ.get("VERIF_OUT", os.path.join(VERIF, "out"))
EVIDENCE = os.environ.get("VERIF_EVIDENCE", os.path.join(VERIF, "evidence"))
KNOWN = os.path.join(VERIF, "known_findings.json")

EXIT_OK, EXIT_VIOLATION, EXIT_HARNESS = 0, 1, 2


class HarnessError(Exception):
    pass


def seed_from_env():
    try:
        return int(os.environ.get("VERIF_SEED", "1"))
    except ValueError:
        return 1


def sha(*parts):
    h = hashlib.sha256()
    for p in parts:
        if isinstance(p, str):
            p = p.encode()
        h.update(p)
        h.update(b"\0")
    return h.hexdigest()[:16]


def file_sha(path):
    h = hashlib.sha256()
    with open(path, "rb") as f:
        while True:
            b = f.read(1 << 20)
            if not b:
                break
            h.update(b)
    return h.hexdigest()


# ------------------------------------------------------------------ active-check accounting
def _active_dir():
    d = os.path.join(OUT, ".active")
    os.makedirs(d, exist_ok=True)
    return d


def register_active():
    p = os.path.join(_active_dir(), str(os.getpid()))
    open(p, "w").write(str(time.time()))
    return p


def active_count():
    n = 0
    d = _active_dir()
    for f in os.listdir(d):
        try:
            os.kill(int(f), 0)
            n += 1
        except (OSError, ValueError):
            try:
                os.unlink(os.path.join(d, f))
            except OSError:
                pass
    return max(1, n)


def default_workers(per_case_threads=1):
    n = build.NCPU // active_count()
    return max(2, n // max(1, per_case_threads) if per_case_threads > 1 else n)


# ------------------------------------------------------------------ subprocess with watchdog
class RunResult:
    def __init__(self, rc, out, err, timed_out, wall):
        self.rc, self.out, self.err, self.timed_out, self.wall = rc, out, err, timed_out, wall


def _proc_cpu_seconds(pid):
    """user+system CPU seconds of a live process (all its threads), or None"""
    try:
        f = open("/proc/%d/stat" % pid).read()
        rest = f[f.rindex(")") + 2:].split()
        return (int(rest[11]) + int(rest[12])) / float(os.sysconf("SC_CLK_TCK"))
    except (OSError, ValueError, IndexError):
        return None


def run(cmd, timeout=120, env=None, cwd=None, stdin=None):
    """Run cmd in its own process group; on timeout kill the whole group."""
    e = dict(os.environ)
    if env:
        e.update(env)
    t0 = time.time()
    p = subprocess.Popen(cmd, stdout=subprocess.PIPE, stderr=subprocess.PIPE, env=e, cwd=cwd,
                         stdin=subprocess.PIPE if stdin is not None else subprocess.DEVNULL,
                         start_new_session=True)
    try:
        out, err = p.communicate(input=stdin, timeout=timeout)
        return RunResult(p.returncode, out.decode("utf-8", "replace"), err.decode("utf-8", "replace"), False,
                         time.time() - t0)
    except subprocess.TimeoutExpired:
        out, err = b"", b""
        cpu = _proc_cpu_seconds(p.pid)
        for sig, wait in ((signal.SIGTERM, 3), (signal.SIGKILL, 10)):
            try:
                os.killpg(p.pid, sig)
            except OSError:
                pass
            try:
                out, err = p.communicate(timeout=wait)
                break
            except Exception:
                continue
        rr = RunResult(-9, out.decode("utf-8", "replace"), err.decode("utf-8", "replace"), True, time.time() - t0)
        rr.cpu_s = cpu  # CPU seconds the process had consumed when the watchdog fired (None if unknown)
        return rr


def pmap(fn, items, workers=None):
    """Run fn over items in a thread pool (each fn call spawns processes); preserves order."""
    items = list(items)
    if not items:
        return []
    workers = workers or default_workers()
    with concurrent.futures.ThreadPoolExecutor(max_workers=workers) as ex:
        return list(ex.map(fn, items))


# ------------------------------------------------------------------ known findings
def load_known():
    if not os.path.exists(KNOWN):
        return []
    return json.load(open(KNOWN)).get("findings", [])


def match_known(pid, key, known):
    for k in known:
        if k.get("property") != pid or k.get("status") != "open":
            continue
        if k.get("key") == key:
            return k
        rx = k.get("key_regex")
        if rx and re.fullmatch(rx, key):
            return k
    return None


# ------------------------------------------------------------------ a check run
class Check:
    def __init__(self, pid, tier, level="exploration", seed=None):
        self.pid = pid
        self.tier = tier
        self.level = level
        self.seed = seed_from_env() if seed is None else seed
        self.t0 = time.time()
        self.rng = random.Random(self.seed * 1000003 + sum(ord(c) for c in pid))
        self.violations = []  # (key, what, replay)
        self.known_hits = {}  # key -> (entry, count)
        self.inconclusive = []  # (what)
        self.evaluations = 0
        self.nontrivial = set()
        self.samples = []
        self.extra = {}
        self.assumptions = []
        self.known = load_known()
        self.dir = os.path.join(OUT, "%s-%s-%d" % (pid, tier, os.getpid()))
        if os.path.exists(self.dir):
            shutil.rmtree(self.dir)
        os.makedirs(self.dir)
        self.replay_dir = os.path.join(OUT, "replay", pid)
        if os.path.isdir(self.replay_dir) and not os.environ.get("VERIF_KEEP_REPLAY"):
            shutil.rmtree(self.replay_dir, ignore_errors=True)
        os.makedirs(self.replay_dir, exist_ok=True)
        register_active()

    # -- bookkeeping
    def count(self, n=1):
        self.evaluations += n

    def nontrivial_case(self, ident):
        self.nontrivial.add(ident)

    def sample(self, obj, limit=6):
        if len(self.samples) < limit:
            self.samples.append(obj)

    def bump(self, key, n=1):
        self.extra[key] = self.extra.get(key, 0) + n

    def note_set(self, key, value):
        s = self.extra.setdefault(key, [])
        if value not in s:
            s.append(value)

    def write_replay(self, name, case):
        p = os.path.join(self.replay_dir, re.sub(r"[^A-Za-z0-9_.-]", "_", name)[:120] + ".json")
        json.dump({"property": self.pid, "tier": self.tier, "seed": self.seed, "case": case}, open(p, "w"), indent=1,
                  default=str)
        return p

    def violation(self, key, what, case=None, name=None):
        """Report a violation candidate; known findings are matched by key."""
        k = match_known(self.pid, key, self.known)
        if k is not None:
            ent = self.known_hits.setdefault(key, [k, 0, what])
            ent[1] += 1
            return False
        replay = self.write_replay(name or sha(key), {"key": key, "what": what, "case": case})
        self.violations.append((key, what, replay))
        return True

    def inconclusive_case(self, what, case=None):
        self.inconclusive.append(what)
        self.write_replay("inconclusive-" + sha(what), {"what": what, "case": case})

    # -- finish
    def finish(self, rule, explanation=None, min_evaluations=1):
        wall = time.time() - self.t0
        cov = {
            "evaluations": int(self.evaluations),
            "distinct_nontrivial": len(self.nontrivial),
            "rule": rule,
            "samples": self.samples if self.samples else ["(no sample recorded)"],
            "inconclusive": len(self.inconclusive),
            "inconclusive_samples": self.inconclusive[:5],
            "known_findings_hit": {k: v[1] for k, v in self.known_hits.items()},
            "violation_keys": sorted(set(v[0] for v in self.violations))[:50],
        }
        if explanation:
            cov["explanation"] = explanation
        for k, v in self.extra.items():
            cov[k] = v
        ev = {
            "property_id": self.pid,
            "tier": self.tier,
            "seed": int(self.seed),
            "level": self.level,
            "coverage": cov,
            "assumptions": self.assumptions,
            "wall_s": round(wall, 2),
            "violations": len(self.violations),
        }
        # a --replay run evaluates one case: its record must not replace the evidence of the last full run
        evdir = os.path.join(OUT, "evidence-replay") if getattr(self, "is_replay", False) else EVIDENCE
        os.makedirs(evdir, exist_ok=True)
        tmp = os.path.join(evdir, ".%s.%d.tmp" % (self.pid, os.getpid()))
        json.dump(ev, open(tmp, "w"), indent=1, default=str)
        os.replace(tmp, os.path.join(evdir, self.pid + ".json"))
        for key, (ent, cnt, what) in sorted(self.known_hits.items()):
            print("KNOWN-FINDING: property=%s %s [%s] (x%d)" % (self.pid, ent.get("what", what), key, cnt))
        seen = set()
        for key, what, replay in self.violations:
            if key in seen:
                continue
            seen.add(key)
            print("VIOLATION property=%s replay=%s" % (self.pid, replay))
            print("  key: %s" % key)
            print("  what: %s" % what[:600])
        status = EXIT_OK
        if self.violations:
            status = EXIT_VIOLATION
        elif getattr(self, "is_replay", False):
            status = EXIT_OK
        elif self.evaluations < min_evaluations or len(self.nontrivial) < 2:
            print("INCONCLUSIVE property=%s: too little was observed (evaluations=%d, non-trivial=%d, inconclusive=%d)"
                  % (self.pid, self.evaluations, len(self.nontrivial), len(self.inconclusive)))
            status = EXIT_HARNESS
        print("%s %s tier=%s seed=%d evaluations=%d nontrivial=%d inconclusive=%d known=%d violations=%d wall=%.1fs"
              % ("OK" if status == 0 else "FAIL", self.pid, self.tier, self.seed, self.evaluations,
                 len(self.nontrivial), len(self.inconclusive), len(self.known_hits), len(seen), wall))
        if status == EXIT_OK and not os.environ.get("VERIF_KEEP"):
            shutil.rmtree(self.dir, ignore_errors=True)
        return status


# ------------------------------------------------------------------ VFRM frames files
def read_frames(path):
    """-> list of (key, w, h, bd, bytes) in file order"""
    out = []
    if not os.path.exists(path):
        return out
    with open(path, "rb") as f:
        d = f.read()
    i = 0
    n = len(d)
    while i < n:
        j = d.find(b"\n", i)
        if j < 0:
            break
        h = d[i:j].split()
        if len(h) != 6 or h[0] != b"FRAME":
            raise ValueError("bad VFRM header in %s at %d" % (path, i))
        sz = int(h[5])
        out.append((int(h[1]), int(h[2]), int(h[3]), int(h[4]), d[j + 1:j + 1 + sz]))
        i = j + 1 + sz
    return out


def first_diff(a, b):
    if len(a) != len(b):
        return "length %d vs %d" % (len(a), len(b))
    if a == b:
        return None
    lo, hi = 0, len(a)
    # binary search the first differing byte
    while hi - lo > 1:
        mid = (lo + hi) // 2
        if a[lo:mid] != b[lo:mid]:
            hi = mid
        else:
            lo = mid
    return "first differing byte at offset %d (%d vs %d)" % (lo, a[lo], b[lo])
