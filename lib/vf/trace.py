"""Reader for the hook trace (H2) and the offline SRM checker (C23 oracle)."""
import struct
import collections

EV = {
    1: "SRM_CTOR", 2: "SRM_WRAPPER", 3: "SRM_FIFO", 4: "GET_EMPTY_CALL", 5: "GET_EMPTY_RET", 6: "POST_FULL",
    7: "ASSIGN", 8: "GET_FULL_CALL", 9: "GET_FULL_RET", 10: "RELEASE", 11: "INC_LIVE", 12: "SHUTDOWN",
    13: "SRM_INVARIANT", 14: "REL_ENABLE", 32: "SEG_INIT", 33: "SEG_START", 34: "SEG_SB", 35: "SEG_DONE",
}
K = {v: k for k, v in EV.items()}
RELEASED = 0xFFFFFFFF  # EB_ObjectWrapperReleasedValue is ~0u
FIFO_SHUTDOWN = 0x80002034


def read(path):
    """-> list of (seq, tid, kind, a, b, c, d) sorted by seq"""
    recs = []
    with open(path, "rb") as f:
        data = f.read()
    n = len(data) // 56
    for i in range(n):
        recs.append(struct.unpack_from("<7Q", data, i * 56))
    recs.sort(key=lambda r: r[0])
    return recs


class SrmModel:
    """Sequential model of one system resource (pool + FIFO queue + reference counts)."""

    def __init__(self, rid, nobj, nprod, ncons, index):
        self.rid, self.nobj, self.nprod, self.ncons, self.index = rid, nobj, nprod, ncons, index
        self.wrappers = {}  # ptr -> state 'pool'|'held-empty'|'queued'|'held-full'
        self.live = {}  # ptr -> shadow live count
        self.enabled = {}
        self.fifos = {}  # ptr -> (index, is_consumer)
        self.posted = collections.deque()  # tickets in posting order (wrapper ptrs with ticket ids)
        self.assigned = collections.defaultdict(collections.deque)  # consumer fifo -> deque of (ticket, wrapper)
        self.empty_assigned = collections.defaultdict(collections.deque)  # producer fifo -> deque of wrappers
        self.ticket = 0
        self.ticket_of = {}
        self.last_ticket_seen = {}
        self.blocked = {}  # fifo -> ('empty'|'full', seq) while a blocking call is outstanding
        self.shutdown = False
        self.events = 0
        self.posts = 0
        self.releases = 0


def check_srm(recs, strict_quiescent=True):
    """Run the C23 oracle over a trace. Returns (violations, stats) where violations is a list of
    (kind, message) and stats has per-resource counters and the hand-off order hash input."""
    res = {}  # rid -> SrmModel (current incarnation)
    by_fifo = {}
    by_queue_wrapper = {}
    viol = []
    order = []  # hand-off order for interleaving hashes
    nres = 0
    pending_nb = {}  # tid -> fifo for non-blocking get in flight
    stats = collections.Counter()

    def v(kind, msg):
        if len(viol) < 50:
            viol.append((kind, msg))

    for (seq, tid, kind, a, b, c, d) in recs:
        name = EV.get(kind)
        if name is None or kind >= 32:
            continue
        stats[name] += 1
        if name == "SRM_CTOR":
            m = SrmModel(a, b, c, d, nres)
            nres += 1
            # a new incarnation may reuse the address of a destroyed one
            old = res.get(a)
            if old:
                for f in old.fifos:
                    by_fifo.pop(f, None)
            res[a] = m
            continue
        if name == "SRM_WRAPPER":
            m = res.get(a)
            if m:
                m.wrappers[b] = "pool"
                m.live[b] = RELEASED
                m.enabled[b] = True
            continue
        if name == "SRM_FIFO":
            m = res.get(a)
            if m:
                m.fifos[b] = (c, d)
                by_fifo[b] = m
            continue
        if name in ("GET_EMPTY_CALL", "GET_EMPTY_RET", "GET_FULL_CALL", "GET_FULL_RET"):
            m = by_fifo.get(a)
        elif name == "ASSIGN":
            m = by_fifo.get(b)
        else:
            m = res.get(a)
        if m is None:
            stats["events_without_resource"] += 1
            continue
        m.events += 1
        if name == "GET_EMPTY_CALL":
            m.blocked[(a, tid)] = ("empty", seq)
        elif name == "GET_EMPTY_RET":
            m.blocked.pop((a, tid), None)
            w = b
            st = m.wrappers.get(w)
            if st is None:
                v("unknown-object", "resource #%d: get_empty returned an object that is not in the pool set" % m.index)
                continue
            if st in ("held-empty", "held-full", "queued"):
                v("double-handout", "resource #%d: get_empty handed out object in state %s (seq %d)" % (m.index, st, seq))
            q = m.empty_assigned[a]
            if not q or q[0] != w:
                v("empty-assignment-order", "resource #%d: get_empty returned an object that was not the head of this "
                                             "producer's assignment queue (seq %d)" % (m.index, seq))
                if w in q:
                    q.remove(w)
            else:
                q.popleft()
            m.wrappers[w] = "held-empty"
            m.live[w] = 0
            m.enabled[w] = True
        elif name == "POST_FULL":
            w = b
            st = m.wrappers.get(w)
            if st != "held-empty":
                v("post-of-unheld", "resource #%d: post_full of object in state %s (seq %d)" % (m.index, st, seq))
            m.wrappers[w] = "queued"
            m.ticket += 1
            m.ticket_of[w] = m.ticket
            m.posted.append((m.ticket, w))
            m.posts += 1
            order.append((m.index, "P", tid))
        elif name == "ASSIGN":
            fifo, w = b, c
            isc = m.fifos.get(fifo, (0, 0))[1]
            if isc:
                # full queue: must be the oldest posted ticket (FIFO), each ticket assigned once
                if not m.posted:
                    v("assign-without-post", "resource #%d: assignment of object that was never posted (seq %d)" % (m.index, seq))
                else:
                    t, w0 = m.posted[0]
                    if w0 != w:
                        v("fifo-order", "resource #%d: object assigned out of posting order (seq %d)" % (m.index, seq))
                        m.posted = collections.deque(x for x in m.posted if x[1] != w)
                        t = m.ticket_of.get(w, -1)
                    else:
                        m.posted.popleft()
                    m.assigned[fifo].append((t, w))
                order.append((m.index, "A", m.fifos.get(fifo, (0, 0))[0]))
            else:
                # empty queue: object must be in the pool
                if m.wrappers.get(w) != "pool":
                    v("pool-assign", "resource #%d: empty-queue assignment of object in state %s (seq %d)"
                      % (m.index, m.wrappers.get(w), seq))
                m.empty_assigned[fifo].append(w)
        elif name == "GET_FULL_CALL":
            if b:
                m.blocked[(a, tid)] = ("full", seq)
        elif name == "GET_FULL_RET":
            m.blocked.pop((a, tid), None)
            w, err, nb_empty = b, c, d
            if w == 0:
                if err == FIFO_SHUTDOWN and not m.shutdown:
                    v("shutdown-code-without-shutdown", "resource #%d: consumer got FifoShutdown before shutdown" % m.index)
                continue
            q = m.assigned[a]
            if not q or q[0][1] != w:
                v("consumer-order", "resource #%d: consumer received an object that is not the head of its assignment "
                                    "queue (seq %d)" % (m.index, seq))
                for x in list(q):
                    if x[1] == w:
                        q.remove(x)
                t = m.ticket_of.get(w, -1)
            else:
                t, _ = q.popleft()
            last = m.last_ticket_seen.get(a, 0)
            if t <= last:
                v("ticket-order", "resource #%d: consumer saw ticket %d after %d (seq %d)" % (m.index, t, last, seq))
            m.last_ticket_seen[a] = t
            if m.wrappers.get(w) != "queued":
                v("double-delivery", "resource #%d: object delivered in state %s (seq %d)" % (m.index, m.wrappers.get(w), seq))
            m.wrappers[w] = "held-full"
            order.append((m.index, "G", m.fifos.get(a, (0, 0))[0]))
        elif name == "INC_LIVE":
            w = b
            if m.live.get(w) == RELEASED:
                # incrementing a released wrapper: it is in the pool; the code wraps around. Record.
                stats["inc_live_on_released"] += 1
                m.live[w] = (RELEASED + c) & 0xFFFFFFFF
            else:
                m.live[w] = m.live.get(w, 0) + c
            if d != m.live[w]:
                v("live-count-shadow", "resource #%d: live_count %d differs from shadow %d (seq %d)" % (m.index, d, m.live[w], seq))
        elif name == "REL_ENABLE":
            m.enabled[b] = bool(c)
        elif name == "RELEASE":
            w, before, returned = b, c, d
            m.releases += 1
            sh = m.live.get(w)
            if sh is not None and sh != before:
                v("live-count-shadow", "resource #%d: live_count before release %d differs from shadow %d (seq %d)"
                  % (m.index, before, sh, seq))
            st = m.wrappers.get(w)
            if before == RELEASED:
                # release of an object that is already in the pool
                v("release-of-pooled", "resource #%d: release of an object that is already in the pool (seq %d)" % (m.index, seq))
            newc = 0 if before == 0 else before - 1
            should_return = m.enabled.get(w, True) and newc == 0
            if bool(returned) != bool(should_return):
                v("release-rule", "resource #%d: object %s the pool with live_count %d->%d enable=%s (seq %d)"
                  % (m.index, "returned to" if returned else "kept out of", before, newc, m.enabled.get(w), seq))
            if returned:
                if st == "pool":
                    v("double-release", "resource #%d: object returned to the pool twice (seq %d)" % (m.index, seq))
                if st == "queued":
                    v("release-while-queued", "resource #%d: object returned to the pool while still queued (seq %d)" % (m.index, seq))
                m.wrappers[w] = "pool"
                m.live[w] = RELEASED
            else:
                m.live[w] = newc
        elif name == "SHUTDOWN":
            m.shutdown = True
        elif name == "SRM_INVARIANT":
            v("queue-overflow", "resource #%d: object queue holds %d entries, capacity %d" % (m.index, b, c))
        # conservation: every wrapper is in exactly one state by construction of the dict; check counts
        if len(m.wrappers) != m.nobj and m.events > 0 and name != "SRM_WRAPPER":
            v("object-set", "resource #%d: %d objects known, %d constructed" % (m.index, len(m.wrappers), m.nobj))

    # quiescence: blocked consumers while their assignment queue is non-empty, and consumers still blocked after shutdown
    for m in res.values():
        for (fifo, tid), (what, seq) in m.blocked.items():
            if what == "full":
                if m.assigned.get(fifo):
                    v("lost-wakeup", "resource #%d: consumer blocked (since seq %d) while %d object(s) are assigned to it"
                      % (m.index, seq, len(m.assigned[fifo])))
                elif m.shutdown and strict_quiescent:
                    v("shutdown-stuck", "resource #%d: consumer still blocked after shutdown (since seq %d)" % (m.index, seq))
            else:
                if m.empty_assigned.get(fifo):
                    v("lost-wakeup", "resource #%d: producer blocked (since seq %d) while an empty object is assigned to it"
                      % (m.index, seq))
    info = {
        "resources": [{"index": m.index, "objects": m.nobj, "producers": m.nprod, "consumers": m.ncons,
                       "events": m.events, "posts": m.posts, "releases": m.releases,
                       "blocked": [(what, m.fifos.get(f, (0, 0))[0], seq) for (f, t), (what, seq) in m.blocked.items()],
                       "pool": sum(1 for s in m.wrappers.values() if s == "pool"),
                       "shutdown": m.shutdown}
                      for m in sorted(res.values(), key=lambda x: x.index)],
        "event_counts": dict(stats),
        "order": order,
    }
    return viol, info


def blocked_report(info):
    """Human-readable list of threads parked in get_empty at the end of a trace (hang diagnosis)."""
    out = []
    for r in info["resources"]:
        for what, fi, seq in r["blocked"]:
            if what == "empty":
                out.append("resource #%d (objects=%d prod=%d cons=%d): producer fifo %d parked in get_empty, pool=%d"
                           % (r["index"], r["objects"], r["producers"], r["consumers"], fi, r["pool"]))
    return out
