"""Reader for the hook trace (H2), the offline SRM checker (C23 oracle) and the EncDec segment
trace checker (C24, H4).

SRM checker: a sequential model of EbSystemResourceManager.c replayed over the H3 events.  The events are
emitted inside the critical sections the SRM itself uses, `seq` comes from one process-wide atomic counter,
so sorting by `seq` gives, per lock, exactly the order in which the critical sections ran.

  empty side : ctor pushes every wrapper to empty_queue.object_queue; svt_release_object pushes FRONT;
               svt_get_empty_object registers the producer fifo (REGISTER) and pops what ASSIGN gave it.
  full side  : svt_post_full_object pushes BACK (FIFO); consumers register with every get_full call
               (blocking or not; the non-blocking variant registers twice when it finds an object).
  assignation: pops (process, object) pairs while both circular buffers are non-empty.

Two generations of hooks are understood: with kinds 15 (POOL_RETURN) / 16 (REGISTER) present ("v2") the
real pool return and the real process queue are observed; without them the checker falls back to the value
predicted by the RELEASE record and checks wake-ups only at quiescence.
"""
import struct
import collections

EV = {
    1: "SRM_CTOR", 2: "SRM_WRAPPER", 3: "SRM_FIFO", 4: "GET_EMPTY_CALL", 5: "GET_EMPTY_RET", 6: "POST_FULL",
    7: "ASSIGN", 8: "GET_FULL_CALL", 9: "GET_FULL_RET", 10: "RELEASE", 11: "INC_LIVE", 12: "SHUTDOWN",
    13: "SRM_INVARIANT", 14: "REL_ENABLE", 15: "POOL_RETURN", 16: "REGISTER",
    32: "SEG_INIT", 33: "SEG_START", 34: "SEG_SB", 35: "SEG_DONE",
}
K = {v: k for k, v in EV.items()}
RELEASED = 0xFFFFFFFF  # EB_ObjectWrapperReleasedValue is ~0u
FIFO_SHUTDOWN = 0x80002034  # EB_NoErrorFifoShutdown (int32, sign-extended in the record: compare the low 32 bits)
REC = struct.Struct("<7Q")


def read(path):
    """-> list of (seq, tid, kind, a, b, c, d) sorted by seq"""
    with open(path, "rb") as f:
        data = f.read()
    n = len(data) // REC.size
    recs = list(REC.iter_unpack(data[:n * REC.size]))
    recs.sort()
    return recs


class _ProcQ:
    """Exact replica of the process circular buffer (push_front by svt_release_process, pop_front by assignation)."""
    __slots__ = ("arr", "head", "tail", "n", "count", "seen")

    def __init__(self, n):
        self.n = max(1, n)
        self.arr = [None] * self.n
        self.head = 0
        self.tail = 0
        self.count = 0
        self.seen = False  # a REGISTER was observed (v2 hooks): the model is meaningful

    def push_front(self, f):
        self.head = self.n - 1 if self.head == 0 else self.head - 1
        old = self.arr[self.head]
        self.arr[self.head] = f
        self.count += 1
        return old

    def pop_front(self):
        f = self.arr[self.head]
        self.arr[self.head] = None
        self.head = 0 if self.head == self.n - 1 else self.head + 1
        self.count -= 1
        return f

    def empty(self):
        return self.head == self.tail and self.arr[self.head] is None


class SrmModel:
    """Sequential model of one system resource (pool + FIFO queue + reference counts)."""

    def __init__(self, rid, nobj, nprod, ncons, index):
        self.rid, self.nobj, self.nprod, self.ncons, self.index = rid, nobj, nprod, ncons, index
        self.wrappers = {}  # ptr -> 'pool'|'held-empty'|'queued'|'held-full'
        self.live = {}  # ptr -> shadow live count
        self.enabled = {}
        self.fifos = {}  # ptr -> (index, is_consumer)
        self.pool_free = set()  # in the pool, not yet assigned to a producer fifo (empty object_queue)
        self.posted = collections.deque()  # (ticket, wrapper) posted, not yet assigned, in posting order
        self.assigned = collections.defaultdict(collections.deque)  # consumer fifo -> deque of (ticket, wrapper)
        self.empty_assigned = collections.defaultdict(collections.deque)  # producer fifo -> deque of wrappers
        self.procq = {0: _ProcQ(nprod), 1: _ProcQ(ncons)}
        self.ticket = 0
        self.ticket_of = {}
        self.last_ticket_seen = {}
        self.blocked = {}  # (fifo, tid) -> ('empty'|'full', seq) while a blocking call is outstanding
        self.shutdown = False
        self.events = 0
        self.posts = 0
        self.releases = 0
        self.returns = 0
        self.delivered = 0
        self.reregistrations = 0
        self.tids = {}  # tid -> local ordinal (first appearance) for canonical interleaving hashes

    def ltid(self, tid):
        t = self.tids.get(tid)
        if t is None:
            t = self.tids[tid] = len(self.tids)
        return t


def check_srm(recs, strict_quiescent=True):
    """Run the C23 oracle over a trace. Returns (violations, info): violations is a list of (kind, message);
    info has per-resource counters ('resources'), 'event_counts', the hand-off order 'order' (list of
    (resource index, op, actor) usable for interleaving hashes) and the same split 'order_by_resource'.
    strict_quiescent: the trace ends at quiescence after a clean teardown, so a consumer still blocked after
    svt_shutdown_process is a violation."""
    res = {}  # rid -> SrmModel (current incarnation at that address)
    models = []  # every incarnation, in construction order
    by_fifo = {}
    viol = []
    order = []
    stats = collections.Counter()
    v2 = any(r[2] == 16 for r in recs)
    pend = {}  # tid -> (model, wrapper, should_return, newc, before, seq): RELEASE waiting for its POOL_RETURN

    def v(kind, msg):
        if len(viol) < 50:
            viol.append((kind, msg))

    def check_inv(m, side, seq):
        """objects and waiting processes never coexist once a critical section of that queue is over"""
        q = m.procq[side]
        if not q.seen:
            return
        objs = len(m.posted) if side else len(m.pool_free)
        if objs and not q.empty():
            v("missed-assignation", "resource #%d: %s queue left with %d object(s) and a registered process after a "
                                    "critical section (before seq %d)" % (m.index, "full" if side else "empty", objs, seq))
            # resynchronise so that one defect is reported once
            q.seen = False

    def resolve_release(p, actual):
        """p: a RELEASE whose live_count update is already applied; actual: the wrapper really went back to the pool"""
        m, w, should_return, newc, before, seq = p
        if actual:
            st = m.wrappers.get(w)
            if st == "pool":
                v("double-release", "resource #%d: object returned to the pool twice (seq %d)" % (m.index, seq))
            if st == "queued":
                v("release-while-queued", "resource #%d: object returned to the pool while still queued (seq %d)"
                  % (m.index, seq))
            if not should_return:
                v("release-rule", "resource #%d: object returned to the pool before its last reference was released "
                                  "(live_count %d->%d, enable=%s, seq %d)"
                  % (m.index, before, newc, m.enabled.get(w), seq))
            m.wrappers[w] = "pool"
            m.pool_free.add(w)
            m.live[w] = RELEASED
            m.returns += 1
        elif should_return:
            v("release-rule", "resource #%d: last reference released but the object was kept out of the pool "
                              "(live_count %d->%d, enable=%s, seq %d)"
              % (m.index, before, newc, m.enabled.get(w), seq))

    for (seq, tid, kind, a, b, c, d) in recs:
        name = EV.get(kind)
        if name is None or kind >= 32:
            continue
        stats[name] += 1
        p = pend.pop(tid, None)
        if p is not None:
            if name == "POOL_RETURN" and p[0].rid == a and p[1] == b:
                resolve_release(p, True)
                continue
            resolve_release(p, False)
        if name == "SRM_CTOR":
            m = SrmModel(a, b, c, d, len(models))
            models.append(m)
            old = res.get(a)
            if old:
                for f in old.fifos:
                    if by_fifo.get(f) is old:
                        del by_fifo[f]
            res[a] = m
            continue
        if name == "SRM_WRAPPER":
            m = res.get(a)
            if m:
                m.wrappers[b] = "pool"
                m.pool_free.add(b)
                m.live[b] = RELEASED
                m.enabled[b] = True
            continue
        if name == "SRM_FIFO":
            m = res.get(a)
            if m:
                m.fifos[b] = (c, d)
                by_fifo[b] = m
            continue
        if name in ("GET_EMPTY_CALL", "GET_EMPTY_RET", "GET_FULL_CALL", "GET_FULL_RET"):
            m = by_fifo.get(a)
        elif name in ("ASSIGN", "REGISTER"):
            m = by_fifo.get(b)
        elif name == "SRM_INVARIANT":
            v("queue-overflow", "an object queue holds %d entries, capacity %d (seq %d)" % (b, c, seq))
            continue
        else:
            m = res.get(a)
        if m is None:
            stats["events_without_resource"] += 1
            continue
        m.events += 1
        if name == "GET_EMPTY_CALL":
            m.blocked[(a, tid)] = ("empty", seq)
        elif name == "REGISTER":
            side = m.fifos.get(b, (0, 0))[1]
            check_inv(m, side, seq)
            q = m.procq[side]
            q.seen = True
            old = q.push_front(b)
            if old is not None:
                if old != b:
                    v("process-queue-overflow",
                      "resource #%d: %s process queue (capacity %d): the registration of fifo %d was overwritten by "
                      "fifo %d (seq %d)" % (m.index, "full" if side else "empty", q.n, m.fifos.get(old, (-1, 0))[0],
                                            m.fifos.get(b, (-1, 0))[0], seq))
                else:
                    m.reregistrations += 1
        elif name == "GET_EMPTY_RET":
            m.blocked.pop((a, tid), None)
            w = b
            st = m.wrappers.get(w)
            if st is None:
                v("unknown-object", "resource #%d: get_empty returned an object that is not one of the %d constructed "
                                    "(seq %d)" % (m.index, m.nobj, seq))
                continue
            if st != "pool":
                v("double-handout", "resource #%d: get_empty handed out an object in state %s (seq %d)" % (m.index, st, seq))
            q = m.empty_assigned[a]
            if not q or q[0] != w:
                v("empty-assignment-order", "resource #%d: get_empty returned an object that was not the head of this "
                                             "producer's assignment queue (seq %d)" % (m.index, seq))
                if w in q:
                    q.remove(w)
            else:
                q.popleft()
            m.pool_free.discard(w)
            m.wrappers[w] = "held-empty"
            m.live[w] = 0
            m.enabled[w] = True
            order.append((m.index, "E", m.fifos.get(a, (0, 0))[0]))
        elif name == "POST_FULL":
            check_inv(m, 1, seq)
            w = b
            st = m.wrappers.get(w)
            if st != "held-empty":
                v("post-of-unheld", "resource #%d: post_full of an object in state %s (seq %d)" % (m.index, st, seq))
            m.wrappers[w] = "queued"
            m.ticket += 1
            m.ticket_of[w] = m.ticket
            m.posted.append((m.ticket, w))
            m.posts += 1
            order.append((m.index, "P", m.ltid(tid)))
        elif name == "ASSIGN":
            fifo, w = b, c
            fi, isc = m.fifos.get(fifo, (0, 0))
            q = m.procq[isc]
            if q.seen:
                f0 = q.pop_front() if not q.empty() else None
                if f0 != fifo:
                    v("process-queue-model", "resource #%d: assignation served fifo %d but the head of the process queue "
                                             "was %s (seq %d)" % (m.index, fi, m.fifos.get(f0, ("none", 0))[0], seq))
                    q.seen = False
            if isc:
                if not m.posted:
                    v("assign-without-post", "resource #%d: assignment of an object that was not posted (seq %d)" % (m.index, seq))
                    t = m.ticket_of.get(w, -1)
                else:
                    t, w0 = m.posted[0]
                    if w0 != w:
                        v("fifo-order", "resource #%d: object assigned out of posting order (seq %d)" % (m.index, seq))
                        m.posted = collections.deque(x for x in m.posted if x[1] != w)
                        t = m.ticket_of.get(w, -1)
                    else:
                        m.posted.popleft()
                m.assigned[fifo].append((t, w))
                order.append((m.index, "A", fi))
            else:
                if w not in m.pool_free:
                    v("pool-assign", "resource #%d: empty-queue assignment of an object in state %s that is not waiting "
                                     "in the pool (seq %d)" % (m.index, m.wrappers.get(w), seq))
                m.pool_free.discard(w)
                m.empty_assigned[fifo].append(w)
        elif name == "GET_FULL_CALL":
            if b:
                m.blocked[(a, tid)] = ("full", seq)
        elif name == "GET_FULL_RET":
            blocking = m.blocked.pop((a, tid), None) is not None
            w, err, nb_empty = b, c & 0xFFFFFFFF, d
            if w == 0:
                if err == FIFO_SHUTDOWN:
                    if not m.shutdown:
                        v("shutdown-code-without-shutdown", "resource #%d: consumer got FifoShutdown before shutdown "
                                                            "(seq %d)" % (m.index, seq))
                elif blocking:
                    v("null-delivery", "resource #%d: blocking get_full returned no object and no shutdown code "
                                       "(seq %d)" % (m.index, seq))
                continue
            q = m.assigned[a]
            if not q or q[0][1] != w:
                v("consumer-order", "resource #%d: consumer received an object that is not the head of its assignment "
                                    "queue (seq %d)" % (m.index, seq))
                for x in list(q):
                    if x[1] == w:
                        q.remove(x)
                t = m.ticket_of.get(w, -1)
            else:
                t, _ = q.popleft()
            last = m.last_ticket_seen.get(a, 0)
            if t <= last:
                v("ticket-order", "resource #%d: consumer saw ticket %d after %d (seq %d)" % (m.index, t, last, seq))
            m.last_ticket_seen[a] = t
            if m.wrappers.get(w) != "queued":
                v("double-delivery", "resource #%d: object delivered in state %s (seq %d)" % (m.index, m.wrappers.get(w), seq))
            m.wrappers[w] = "held-full"
            m.delivered += 1
            order.append((m.index, "G", m.fifos.get(a, (0, 0))[0]))
        elif name == "INC_LIVE":
            w = b
            if m.live.get(w) == RELEASED:
                # incrementing a released wrapper: it is in the pool; the code wraps around
                stats["inc_live_on_released"] += 1
                v("inc-live-on-pooled", "resource #%d: inc_live_count on an object that is in the pool (seq %d)" % (m.index, seq))
                m.live[w] = (RELEASED + c) & 0xFFFFFFFF
            else:
                m.live[w] = (m.live.get(w, 0) + c) & 0xFFFFFFFF
            if d != m.live[w]:
                v("live-count-shadow", "resource #%d: live_count %d differs from shadow %d (seq %d)" % (m.index, d, m.live[w], seq))
                m.live[w] = d
        elif name == "REL_ENABLE":
            m.enabled[b] = bool(c)
        elif name == "RELEASE":
            check_inv(m, 0, seq)
            w, before, predicted = b, c, d
            m.releases += 1
            sh = m.live.get(w)
            if sh is not None and sh != before:
                v("live-count-shadow", "resource #%d: live_count before release %d differs from shadow %d (seq %d)"
                  % (m.index, before, sh, seq))
            if before == RELEASED or m.wrappers.get(w) == "pool":
                v("release-of-pooled", "resource #%d: release of an object that is already in the pool (seq %d)" % (m.index, seq))
            newc = 0 if before == 0 else before - 1
            should_return = m.enabled.get(w, True) and newc == 0
            m.live[w] = newc
            p = (m, w, should_return, newc, before, seq)
            if v2:
                pend[tid] = p  # resolved by the POOL_RETURN record that follows in the same critical section, if any
            else:
                resolve_release(p, bool(predicted))
        elif name == "POOL_RETURN":
            # not preceded by the RELEASE record of the same thread
            v("release-rule", "resource #%d: pool return without a release (seq %d)" % (m.index, seq))
        elif name == "SHUTDOWN":
            m.shutdown = True
            order.append((m.index, "S", 0))

    for p in pend.values():
        resolve_release(p, False)

    # quiescence
    for m in models:
        if len(m.wrappers) != m.nobj:
            v("object-set", "resource #%d: %d objects known, %d constructed" % (m.index, len(m.wrappers), m.nobj))
        check_inv(m, 0, 1 << 62)
        check_inv(m, 1, 1 << 62)
        for (fifo, tid), (what, seq) in m.blocked.items():
            fi = m.fifos.get(fifo, (0, 0))[0]
            if what == "full":
                if m.shutdown:
                    if strict_quiescent:
                        v("shutdown-stuck", "resource #%d: consumer %d still blocked after shutdown (since seq %d)"
                          % (m.index, fi, seq))
                elif m.assigned.get(fifo):
                    v("lost-wakeup", "resource #%d: consumer %d blocked (since seq %d) while %d object(s) are assigned "
                                     "to it" % (m.index, fi, seq, len(m.assigned[fifo])))
                elif m.posted:
                    v("lost-wakeup", "resource #%d: consumer %d blocked (since seq %d) while %d posted object(s) wait "
                                     "unassigned" % (m.index, fi, seq, len(m.posted)))
            else:
                if m.empty_assigned.get(fifo):
                    v("lost-wakeup-producer", "resource #%d: producer %d blocked (since seq %d) while an empty object is "
                                              "assigned to it" % (m.index, fi, seq))
                elif m.pool_free:
                    v("lost-wakeup-producer", "resource #%d: producer %d blocked (since seq %d) while %d object(s) wait "
                                              "in the pool" % (m.index, fi, seq, len(m.pool_free)))
    by_res = collections.defaultdict(list)
    for o in order:
        by_res[o[0]].append(o[1:])
    info = {
        "resources": [{"index": m.index, "objects": m.nobj, "producers": m.nprod, "consumers": m.ncons,
                       "events": m.events, "posts": m.posts, "delivered": m.delivered, "releases": m.releases,
                       "returns": m.returns, "reregistrations": m.reregistrations,
                       "blocked": [(what, m.fifos.get(f, (0, 0))[0], seq) for (f, t), (what, seq) in m.blocked.items()],
                       "pool": sum(1 for s in m.wrappers.values() if s == "pool"),
                       "undelivered": len(m.posted) + sum(len(q) for q in m.assigned.values()),
                       "shutdown": m.shutdown}
                      for m in models],
        "event_counts": dict(stats),
        "order": order,
        "order_by_resource": dict(by_res),
        "hooks_v2": v2,
    }
    return viol, info


def blocked_report(info):
    """Human-readable list of threads parked in get_empty at the end of a trace (hang diagnosis)."""
    out = []
    for r in info["resources"]:
        for what, fi, seq in r["blocked"]:
            if what == "empty":
                out.append("resource #%d (objects=%d prod=%d cons=%d): producer fifo %d parked in get_empty, pool=%d"
                           % (r["index"], r["objects"], r["producers"], r["consumers"], fi, r["pool"]))
    return out


# ====================================================================== C24: EncDec segment trace (H4)
def seg_init_fields(rec):
    """SEG_INIT record -> dict(ptr, cols, rows, w, h, max_rows, max_bands) (see EbVerifHooks.h)"""
    seq, tid, kind, a, b, c, d = rec
    return {"ptr": a, "cols": b & 0xFFFF, "rows": (b >> 16) & 0xFFFF, "w": c & 0xFFFF, "h": (c >> 16) & 0xFFFF,
            "max_rows": d & 0xFFFF, "max_bands": (d >> 16) & 0xFFFF, "seq": seq}


def seg_requests(recs):
    """Distinct (w, h, cols, rows, ctor_cols, ctor_rows) tuples initialised in the trace (input of `segwalk sets`)."""
    out = []
    seen = set()
    for r in recs:
        if r[2] == 32:
            f = seg_init_fields(r)
            k = (f["w"], f["h"], f["cols"], f["rows"], f["max_bands"] - f["max_rows"], f["max_rows"])
            if k not in seen:
                seen.add(k)
                out.append(k)
    return out


def check_segments(recs, predicted):
    """C24 oracle over H4 records.  predicted: dict (w,h,cols,rows,ctor_cols,ctor_rows) -> {segment index: [(x,y),..]}
    (the SB sets produced by the transcription of the kernel's traversal loop, from `segwalk sets`).
    Every initialisation of a segments object opens an 'instance' (one tile group of one picture, one encode
    pass); its START/SB/DONE records follow until the next initialisation of the same object.
    Returns (violations, info)."""
    viol = []

    def v(kind, msg):
        if len(viol) < 40:
            viol.append((kind, msg))

    cur = {}  # ptr -> instance
    done_instances = []

    def close(inst):
        done_instances.append(inst)

    stats = collections.Counter()
    for rec in recs:
        seq, tid, kind, a, b, c, d = rec
        if kind < 32 or kind > 35:
            continue
        stats[EV[kind]] += 1
        if kind == 32:
            f = seg_init_fields(rec)
            if a in cur:
                close(cur[a])
            key = (f["w"], f["h"], f["cols"], f["rows"], f["max_bands"] - f["max_rows"], f["max_rows"])
            cur[a] = {"f": f, "key": key, "start": {}, "done": {}, "sbs": collections.defaultdict(list), "open": {},
                      "pic": None, "tg": None, "abs": [], "order": []}
            continue
        inst = cur.get(a)
        if inst is None:
            stats["events_without_init"] += 1
            v("event-without-init", "segment record for an object that was never initialised (seq %d)" % seq)
            continue
        if kind == 33:
            pic, tg = c, d
            if inst["pic"] is None:
                inst["pic"], inst["tg"] = pic, tg
            elif (inst["pic"], inst["tg"]) != (pic, tg):
                v("mixed-instance", "segments object used by picture %d tile group %d while still armed for picture %d "
                                    "tile group %d (seq %d)" % (pic, tg, inst["pic"], inst["tg"], seq))
            if b in inst["start"]:
                v("double-start", "picture %d tile group %d: segment %d started twice (seq %d and %d)"
                  % (pic, tg, b, inst["start"][b], seq))
            inst["start"][b] = seq
            inst["open"][tid] = b
            inst["order"].append(b)
        elif kind == 34:
            if inst["open"].get(tid) != b:
                v("sb-outside-segment", "SB record of segment %d from a thread that has not started it (seq %d)" % (b, seq))
            inst["sbs"][b].append((c & 0xFFFF, (c >> 16) & 0xFFFF))
            inst["abs"].append(((c >> 32) & 0xFFFF, (c >> 48) & 0xFFFF))
        elif kind == 35:
            if inst["open"].get(tid) != b:
                v("done-without-start", "segment %d finished by a thread that has not started it (seq %d)" % (b, seq))
            inst["open"].pop(tid, None)
            if b in inst["done"]:
                v("double-done", "segment %d finished twice (seq %d)" % (b, seq))
            inst["done"][b] = seq
    for inst in cur.values():
        close(inst)

    pictures = collections.defaultdict(list)  # (pic, generation) -> instances
    gen = collections.Counter()
    nseg = nsb = nchecked = nskipped = ndeps = 0
    grids = set()
    orders = []
    for inst in sorted(done_instances, key=lambda i: i["f"]["seq"]):
        f = inst["f"]
        if not inst["start"] and not inst["sbs"]:
            nskipped += 1  # armed but never encoded (first pass of a 2-pass encode bypasses EncDec)
            continue
        pred = predicted.get(inst["key"])
        where = "picture %s tile group %s (%dx%d SBs, grid %dx%d)" % (inst["pic"], inst["tg"], f["w"], f["h"], f["cols"], f["rows"])
        if pred is None:
            v("no-prediction", "%s: no predicted SB sets" % where)
            continue
        nchecked += 1
        grids.add((f["w"], f["h"], f["cols"], f["rows"]))
        seg_of = {}
        for s, sbs in pred.items():
            for xy in sbs:
                seg_of[tuple(xy)] = s
        if len(seg_of) != f["w"] * f["h"]:
            v("prediction-coverage", "%s: the transcription covers %d of %d SBs" % (where, len(seg_of), f["w"] * f["h"]))
        for s, sbs in pred.items():
            want = [tuple(x) for x in sbs]
            got = inst["sbs"].get(s, [])
            nseg += 1
            nsb += len(got)
            if s not in inst["start"]:
                v("never-started", "%s: segment %d (%d SBs) never started" % (where, s, len(want)))
                continue
            if s not in inst["done"]:
                v("never-done", "%s: segment %d never finished" % (where, s))
            if got != want:
                v("sb-set", "%s: segment %d processed %s, predicted %s" % (where, s, got[:6], want[:6]))
        for s in inst["start"]:
            if s not in pred:
                if inst["sbs"].get(s):
                    v("sb-set", "%s: segment %d is empty in the prediction but processed %s" % (where, s, inst["sbs"][s][:4]))
                stats["empty_segments_started"] += 1
        # dependency order on seq
        w, h = f["w"], f["h"]
        bad = False
        for (x, y), s in seg_of.items():
            if bad:
                break
            for nx, ny in ((x - 1, y), (x, y - 1), (x + 1, y - 1)):
                if nx < 0 or ny < 0 or nx >= w:
                    continue
                n = seg_of.get((nx, ny))
                if n is None or n == s:
                    continue
                ndeps += 1
                ds, ss = inst["done"].get(n), inst["start"].get(s)
                if ss is not None and (ds is None or ds > ss):
                    v("dependency-order", "%s: segment %d started (seq %s) before segment %d holding SB (%d,%d) was done (seq %s)"
                      % (where, s, ss, n, nx, ny, ds))
                    bad = True
                    break
        g = gen[(inst["pic"], inst["tg"])]
        gen[(inst["pic"], inst["tg"])] += 1
        pictures[(inst["pic"], g)].append(inst)
        orders.append((f["w"], f["h"], f["cols"], f["rows"], tuple(inst["order"])))
    # every SB of the picture once across its tile groups
    npics = 0
    for (pic, g), insts in pictures.items():
        seen = set()
        total = 0
        for inst in insts:
            for xy in inst["abs"]:
                total += 1
                if xy in seen:
                    v("picture-coverage", "picture %s: SB %s processed twice" % (pic, xy))
                    break
                seen.add(xy)
        if seen:
            mw = max(x for x, y in seen) + 1
            mh = max(y for x, y in seen) + 1
            if len(seen) != mw * mh:
                v("picture-coverage", "picture %s (pass %d): %d distinct SBs processed, bounding box %dx%d" % (pic, g, len(seen), mw, mh))
            npics += 1
    info = {"event_counts": dict(stats), "instances_checked": nchecked, "instances_skipped": nskipped,
            "pictures": npics, "segments": nseg, "sbs": nsb, "dependencies_checked": ndeps,
            "grids": sorted(grids), "orders": orders,
            "picture_boxes": sorted({(max(x for x, y in i["abs"]) + 1, max(y for x, y in i["abs"]) + 1)
                                     for insts in pictures.values() for i in insts if i["abs"]})}
    return viol, info
