"""Build manager: build flavours of /repo's *current working tree* (hooks on) and the
harness programs that go with them.  Everything lands under /verif/.build/<flavour>/."""
import fcntl
import hashlib
import os
import subprocess
import sys
import time

VERIF = os.path.dirname(os.path.dirname(os.path.dirname(os.path.abspath(__file__))))
REPO = os.environ.get("VERIF_REPO", "/repo")
BUILD_ROOT = os.environ.get("VERIF_BUILD_ROOT", os.path.join(VERIF, ".build"))
HARNESS_SRC = os.path.join(VERIF, "harness")
NCPU = os.cpu_count() or 4

UBSAN = "-fsanitize=undefined -fno-sanitize=alignment,shift-base,pointer-overflow,function"
FLAVOURS = {
    # name: (cc, cxx, cflags, ldflags, cmake extra)
    "plain": ("gcc", "g++", "-O2 -g1", "", []),
    "asan": ("clang", "clang++",
             "-O1 -g1 -fno-omit-frame-pointer -fsanitize=address %s -fsanitize-recover=all" % UBSAN,
             "-fsanitize=address %s" % UBSAN, []),
    "tsan": ("clang", "clang++", "-O1 -g1 -fno-omit-frame-pointer -fsanitize=thread",
             "-fsanitize=thread", []),
    "fuzz": ("clang", "clang++",
             "-O1 -g1 -fno-omit-frame-pointer -fsanitize=fuzzer-no-link,address %s -fsanitize-recover=all" % UBSAN,
             "-fsanitize=address %s" % UBSAN, ["-DBUILD_ENC=OFF"]),
    "avx512": ("gcc", "g++", "-O2 -g1", "", ["-DENABLE_AVX512=ON"]),
}
COMMON_DEFS = "-DSVT_AV1_VERIF=1 -DNDEBUG"


class BuildError(Exception):
    pass


def log(msg):
    sys.stderr.write("[build] %s\n" % msg)
    sys.stderr.flush()


def _tree_signature():
    """Changes when files are added/removed or a CMakeLists changes => re-run cmake (re-glob)."""
    h = hashlib.sha256()
    for top in ("Source", "third_party"):
        for root, dirs, files in os.walk(os.path.join(REPO, top)):
            dirs.sort()
            for f in sorted(files):
                p = os.path.join(root, f)
                h.update(p.encode())
                if f == "CMakeLists.txt" or f.endswith(".cmake") or f.endswith(".in"):
                    try:
                        h.update(open(p, "rb").read())
                    except OSError:
                        pass
    h.update(open(os.path.join(REPO, "CMakeLists.txt"), "rb").read())
    return h.hexdigest()


class _Lock:
    def __init__(self, path):
        self.path = path

    def __enter__(self):
        os.makedirs(os.path.dirname(self.path), exist_ok=True)
        self.f = open(self.path, "w")
        fcntl.flock(self.f, fcntl.LOCK_EX)
        return self

    def __exit__(self, *a):
        fcntl.flock(self.f, fcntl.LOCK_UN)
        self.f.close()


def bdir(flavour):
    return os.path.join(BUILD_ROOT, flavour)


def libdir(flavour):
    return os.path.join(bdir(flavour), "bin")


def flavour_flags(flavour):
    cc, cxx, cflags, ldflags, extra = FLAVOURS[flavour]
    return cc, cflags, ldflags


_memo_lock = __import__("threading").RLock()
_ensured = {}
_harness_memo = {}


def ensure(flavour, quiet=True):
    """Bring the flavour up to date with /repo's working tree (once per process).  Returns build dir."""
    with _memo_lock:
        if flavour not in _ensured:
            _ensured[flavour] = _ensure(flavour, quiet)
        return _ensured[flavour]


def _ensure(flavour, quiet=True):
    cc, cxx, cflags, ldflags, extra = FLAVOURS[flavour]
    d = bdir(flavour)
    with _Lock(os.path.join(BUILD_ROOT, flavour + ".lock")):
        os.makedirs(d, exist_ok=True)
        sig = _tree_signature() + "|" + cflags + "|" + " ".join(extra) + "|" + REPO
        sigfile = os.path.join(d, ".verif_sig")
        old = open(sigfile).read() if os.path.exists(sigfile) else ""
        t0 = time.time()
        if old != sig or not os.path.exists(os.path.join(d, "build.ninja")):
            log("configuring %s" % flavour)
            cmd = ["cmake", "-G", "Ninja", REPO, "-Wno-dev", "-Wno-deprecated",
                   "-DCMAKE_BUILD_TYPE=Release",
                   "-DCMAKE_C_COMPILER=" + cc, "-DCMAKE_CXX_COMPILER=" + cxx,
                   "-DCMAKE_C_FLAGS=%s" % COMMON_DEFS,
                   "-DCMAKE_C_FLAGS_RELEASE=" + cflags,
                   "-DCMAKE_CXX_FLAGS_RELEASE=" + cflags,
                   "-DCMAKE_SHARED_LINKER_FLAGS=" + ldflags,
                   "-DCMAKE_EXE_LINKER_FLAGS=" + ldflags,
                   "-DCMAKE_OUTPUT_DIRECTORY=" + libdir(flavour),
                   "-DBUILD_TESTING=OFF", "-DBUILD_APPS=OFF", "-DBUILD_SHARED_LIBS=ON"] + extra
            r = subprocess.run(cmd, cwd=d, stdout=subprocess.PIPE, stderr=subprocess.STDOUT, text=True)
            if r.returncode != 0:
                raise BuildError("cmake failed for %s:\n%s" % (flavour, r.stdout[-4000:]))
            open(sigfile, "w").write(sig)
        r = subprocess.run(["ninja", "-j", str(NCPU)], cwd=d, stdout=subprocess.PIPE,
                           stderr=subprocess.STDOUT, text=True)
        if r.returncode != 0:
            raise BuildError("ninja failed for %s:\n%s" % (flavour, r.stdout[-6000:]))
        dt = time.time() - t0
        if dt > 3 or not quiet:
            log("%s up to date (%.1fs)" % (flavour, dt))
    return d


def _objects(flavour, which):
    """Object files of the flavour's library build: which in {'enc','dec'}."""
    d = bdir(flavour)
    objs = []
    skip_dirs = ("Source/App",)
    for root, dirs, files in os.walk(d):
        rel = os.path.relpath(root, d)
        if rel.startswith("CMakeFiles") or any(s in rel for s in skip_dirs):
            continue
        if which == "enc" and "Source/Lib/Decoder" in rel:
            continue
        if which == "dec" and "Source/Lib/Encoder" in rel:
            continue
        for f in files:
            if f.endswith(".o"):
                objs.append(os.path.join(root, f))
    return sorted(objs)


def whitebox_archive(flavour, which="enc"):
    """Static archive of the very object files the shared library was linked from."""
    ensure(flavour)
    d = bdir(flavour)
    out = os.path.join(d, "libwb_%s.a" % which)
    with _Lock(os.path.join(BUILD_ROOT, flavour + ".wb.lock")):
        objs = _objects(flavour, which)
        if not objs:
            raise BuildError("no objects for %s/%s" % (flavour, which))
        newest = max(os.path.getmtime(o) for o in objs)
        if not os.path.exists(out) or os.path.getmtime(out) < newest:
            if os.path.exists(out):
                os.unlink(out)
            # feed through a response file: the list is long
            rsp = out + ".rsp"
            open(rsp, "w").write("\n".join(objs))
            r = subprocess.run(["ar", "rcs", out, "@" + rsp], stdout=subprocess.PIPE,
                               stderr=subprocess.STDOUT, text=True)
            if r.returncode != 0:
                raise BuildError("ar failed: " + r.stdout[-2000:])
    return out


INCLUDES = ["Source/API", "Source/Lib/Common/Codec", "Source/Lib/Common/C_DEFAULT",
            "Source/Lib/Common/ASM_SSE2", "Source/Lib/Common/ASM_SSSE3", "Source/Lib/Common/ASM_SSE4_1",
            "Source/Lib/Common/ASM_AVX2", "Source/Lib/Common/ASM_AVX512", "Source/Lib/Encoder/Codec",
            "Source/Lib/Encoder/Globals", "Source/Lib/Decoder/Codec", "Source/Lib/Encoder/C_DEFAULT",
            "Source/Lib/Encoder/ASM_SSE2", "Source/Lib/Encoder/ASM_SSSE3", "Source/Lib/Encoder/ASM_SSE4_1",
            "Source/Lib/Encoder/ASM_AVX2", "Source/Lib/Encoder/ASM_AVX512",
            "third_party/fastfeat", "third_party/cpuinfo/include", "."]


def harness(flavour, name, sources=None, link="so", libs=("enc",), extra_cflags="", extra_ldflags="",
            internal_includes=False, deps=()):
    key = (flavour, name, tuple(sources or ()), link, tuple(libs), extra_cflags, extra_ldflags)
    with _memo_lock:
        if key not in _harness_memo:
            _harness_memo[key] = _harness(flavour, name, sources, link, libs, extra_cflags, extra_ldflags,
                                          internal_includes, deps)
        return _harness_memo[key]


def _harness(flavour, name, sources=None, link="so", libs=("enc",), extra_cflags="", extra_ldflags="",
             internal_includes=False, deps=()):
    """Compile /verif/harness/<sources> for a flavour.
    link='so'  -> against the shared libraries (public API only)
    link='wb'  -> against the white-box archives (internal symbols reachable)
    link='none'-> no svt library at all
    Returns path of the executable."""
    cc, cflags, ldflags = flavour_flags(flavour)
    if link != "none":
        ensure(flavour)
    d = os.path.join(bdir(flavour), "h")
    os.makedirs(d, exist_ok=True)
    out = os.path.join(d, name)
    sources = sources or [name + ".c"]
    srcs = [s if os.path.isabs(s) else os.path.join(HARNESS_SRC, s) for s in sources]
    depfiles = list(srcs) + [os.path.join(HARNESS_SRC, f) for f in os.listdir(HARNESS_SRC) if f.endswith(".h")]
    depfiles += list(deps)
    depfiles.append(gen_cfgfields())
    api = os.path.join(REPO, "Source/API")
    depfiles += [os.path.join(api, f) for f in os.listdir(api)]
    archives = []
    if link == "wb":
        for w in libs:
            archives.append(whitebox_archive(flavour, w))
        depfiles += archives
        internal_includes = True
    if internal_includes:
        for inc in INCLUDES:
            p = os.path.join(REPO, inc)
            if os.path.isdir(p) and inc != ".":
                depfiles += [os.path.join(p, f) for f in os.listdir(p) if f.endswith(".h")]
    with _Lock(out + ".lock"):
        newest = max(os.path.getmtime(p) for p in depfiles if os.path.exists(p))
        stamp = out + ".flags"
        flagsig = "|".join([cc, cflags, ldflags, extra_cflags, extra_ldflags, link, ",".join(libs), ",".join(srcs)])
        if (os.path.exists(out) and os.path.getmtime(out) >= newest and os.path.exists(stamp)
                and open(stamp).read() == flagsig):
            return out
        cmd = [cc, "-std=gnu11", "-D_GNU_SOURCE", "-DSVT_AV1_VERIF=1"] + cflags.split()
        cmd += ["-Wall", "-Wno-unused-function", "-Wno-unused-variable"]
        cmd += extra_cflags.split()
        if internal_includes:
            cmd += ["-DARCH_X86_64=1", "-DEN_AVX512_SUPPORT=%d" % (1 if flavour == "avx512" else 0), "-DNDEBUG"]
            cmd += ["-I" + os.path.join(REPO, i) for i in INCLUDES]
            # EbVersion.h is generated into the build dir
            cmd += ["-I" + os.path.join(bdir(flavour), "Source/Lib/Common/Codec")]
        else:
            cmd += ["-I" + api]
        cmd += ["-I" + HARNESS_SRC, "-I" + gen_dir()]
        tmp_out = out + ".%d.tmp" % os.getpid()
        cmd += srcs + ["-o", tmp_out]
        if link == "so":
            L = libdir(flavour)
            cmd += ["-L" + L, "-Wl,-rpath," + L]
            for w in libs:
                cmd += ["-lSvtAv1Enc" if w == "enc" else "-lSvtAv1Dec"]
        elif link == "wb":
            cmd += ["-Wl,--start-group"] + archives + ["-Wl,--end-group"]
        cmd += ldflags.split() + extra_ldflags.split() + ["-lpthread", "-lm", "-ldl"]
        r = subprocess.run(cmd, stdout=subprocess.PIPE, stderr=subprocess.STDOUT, text=True)
        if r.returncode != 0:
            raise BuildError("harness %s/%s failed:\n%s\n%s" % (flavour, name, " ".join(cmd), r.stdout[-6000:]))
        os.replace(tmp_out, out)  # never rewrite an executable that another check may be running
        open(stamp, "w").write(flagsig)
    return out


def gen_dir():
    d = os.path.join(BUILD_ROOT, "gen")
    os.makedirs(d, exist_ok=True)
    return d


def gen_cfgfields():
    """(Re)generate the configuration field table from the tree's API header."""
    out = os.path.join(gen_dir(), "cfgfields.inc")
    tmp = out + ".%d.tmp" % os.getpid()
    r = subprocess.run([sys.executable, os.path.join(VERIF, "gen", "cfgfields.py"),
                        os.path.join(REPO, "Source/API/EbSvtAv1Enc.h"), tmp],
                       stdout=subprocess.PIPE, stderr=subprocess.STDOUT, text=True)
    if r.returncode != 0:
        raise BuildError("cfgfields generation failed: " + r.stdout)
    new = open(tmp).read()
    if not os.path.exists(out) or open(out).read() != new:
        os.replace(tmp, out)
    else:
        os.unlink(tmp)
    return out


def has_avx512():
    try:
        flags = open("/proc/cpuinfo").read()
    except OSError:
        return False
    return all(f in flags for f in ("avx512f", "avx512bw", "avx512dq", "avx512vl"))


if __name__ == "__main__":
    for fl in sys.argv[1:]:
        ensure(fl, quiet=False)
