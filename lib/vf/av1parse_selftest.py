"""Self-check of the independent AV1 syntax parser (av1parse) against real encoder output.

Default (quick) mode: encodes a handful of small streams with encdrv, decodes them with
both reference decoders and asserts
  - the parser records no errors in any packet,
  - (a) shown-frame counts (total and per packet) equal both decoders' counts,
  - (b) frame dimensions / bit depth equal the decoders',
  - (e) for multi-tile frames the coded tile sizes exactly tile the OBU.
Prints OK and exits 0 on success.  Must finish well inside 60 s.

--full: ~75 streams covering many encoder knobs, plus two stronger oracles:
  - per-frame comparison of parsed values with libaom's decoder controls (ctypes),
  - re-serialisation: every OBU_FRAME is split into OBU_FRAME_HEADER (using the parser's
    header_bits, plus trailing bits) + OBU_TILE_GROUP; both decoders must produce output
    identical to the original stream.  This verifies the header length bit-exactly.
"""
import concurrent.futures
import ctypes
import math
import hashlib
import json
import os
import shutil
import subprocess
import sys
import tempfile
import time

HERE = os.path.dirname(os.path.abspath(__file__))
sys.path.insert(0, os.path.dirname(HERE))
from vf import av1parse as ap  # noqa: E402

VERIF = os.path.dirname(os.path.dirname(HERE))
ENCDRV = os.path.join(VERIF, ".build", "plain", "h", "encdrv")
REFDEC = os.path.join(VERIF, ".build", "plain", "h", "refdec")

ENC_TIMEOUT = 90
QINDEX = [4 * i for i in range(62)] + [249, 255]


def _tools():
    enc, dec = ENCDRV, REFDEC
    if not (os.path.exists(enc) and os.path.exists(dec)):
        from vf import enc as vfenc     # builds them when missing
        enc, dec = vfenc.encdrv("plain"), vfenc.refdec()
    return enc, dec


def base_case(**kw):
    c = {"width": 128, "height": 96, "frames": 10, "content": "pan", "cfg.enc_mode": 8,
         "cfg.recon_enabled": 0, "cfg.logical_processors": 2, "cfg.qp": 30, "stream_header": 1}
    c.update(kw)
    return c


QUICK = [
    ("basic", base_case(frames=12)),
    ("tiles10", base_case(width=256, height=128, bitdepth=10, frames=8, **{"cfg.tile_columns": 1, "cfg.tile_rows": 1})),
    ("odd", base_case(width=66, height=66, frames=9, content="mix", **{"cfg.hierarchical_levels": 3, "cfg.qp": 50})),
    ("lowdelay", base_case(width=130, height=74, frames=10, content="zoom",
                           **{"cfg.pred_structure": 1, "cfg.hierarchical_levels": 2, "cfg.tile_columns": 1})),
    ("superres", base_case(width=192, height=128, frames=8, **{"cfg.superres_mode": 1, "cfg.superres_denom": 12,
                                                                "cfg.superres_kf_denom": 10, "cfg.tile_columns": 1})),
    ("grain", base_case(frames=10, content="noise", **{"cfg.film_grain_denoise_strength": 10, "cfg.tile_columns": 1})),
    ("screen", base_case(width=192, height=128, frames=8, content="screen",
                         **{"cfg.screen_content_mode": 1, "cfg.intrabc_mode": 1, "cfg.palette_level": 1,
                            "cfg.tile_rows": 1})),
    ("intra", base_case(frames=16, content="cuts", **{"cfg.intra_period_length": 3, "cfg.intra_refresh_type": 1,
                                                      "cfg.hierarchical_levels": 2})),
    ("overlay", base_case(width=160, height=96, frames=16, content="rects", **{"cfg.enable_overlays": 1,
                                                                               "cfg.tile_columns": 1})),
]


def full_cases():
    cases = list(QUICK)

    def add(name, **kw):
        cases.append((name, base_case(**kw)))

    contents = ["flat", "extreme", "gradient", "noise", "pan", "rects", "screen", "cuts", "mix", "zoom"]
    for hl in range(6):
        for tiles in (0, 1):
            add("hl%d_t%d" % (hl, tiles), frames=20, content=contents[(hl * 2 + tiles) % 10],
                width=128 + 64 * tiles, **{"cfg.hierarchical_levels": hl, "cfg.tile_columns": tiles,
                                           "cfg.qp": 20 + 7 * hl})
    for ip in (-1, 0, 3, 15):
        for rt in (1, 2):
            add("ip%d_rt%d" % (ip, rt), frames=24, content="cuts" if rt == 1 else "zoom", bitdepth=10 if ip == 3 else 8,
                **{"cfg.intra_period_length": ip, "cfg.intra_refresh_type": rt, "cfg.tile_columns": rt - 1,
                   "cfg.hierarchical_levels": 3})
    for (w, h) in ((64, 64), (66, 66), (130, 74), (352, 288), (256, 64), (64, 192), (320, 192)):
        add("sz%dx%d" % (w, h), width=w, height=h, frames=7, content="mix",
            **{"cfg.tile_columns": 1 if w >= 128 else 0, "cfg.tile_rows": 1 if h >= 128 else 0, "cfg.qp": 40})
    add("tiles2x2", width=352, height=288, frames=6, **{"cfg.tile_columns": 2, "cfg.tile_rows": 2})
    add("tiles_10b", width=320, height=256, frames=6, bitdepth=10, content="zoom",
        **{"cfg.tile_columns": 2, "cfg.tile_rows": 1})
    for mode, den, kf in ((1, 9, 16), (1, 16, 9), (1, 12, 10), (2, 8, 8)):
        for tiles in (0, 1):
            add("sr%d_%d_%d_t%d" % (mode, den, kf, tiles), width=256, height=128, frames=10, content="gradient",
                **{"cfg.superres_mode": mode, "cfg.superres_denom": den, "cfg.superres_kf_denom": kf,
                   "cfg.tile_columns": tiles})
    add("sr_10b", width=192, height=96, frames=8, bitdepth=10,
        **{"cfg.superres_mode": 1, "cfg.superres_denom": 13, "cfg.superres_kf_denom": 11, "cfg.tile_columns": 1})
    for fg in (1, 10, 50):
        for bd in (8, 10):
            add("fg%d_%d" % (fg, bd), frames=12, content="noise" if fg != 10 else "mix", bitdepth=bd,
                **{"cfg.film_grain_denoise_strength": fg, "cfg.tile_columns": 1 if bd == 8 else 0})
    add("fg_overlay", frames=18, content="noise", **{"cfg.film_grain_denoise_strength": 8, "cfg.enable_overlays": 1})
    add("overlay_hl4", frames=34, content="rects", **{"cfg.enable_overlays": 1, "cfg.hierarchical_levels": 4})
    add("overlay_t", frames=20, content="flat", width=192, **{"cfg.enable_overlays": 1, "cfg.tile_columns": 1})
    for ibc in (0, 1):
        for pal in (0, 1):
            add("sc_ibc%d_pal%d" % (ibc, pal), width=192, height=128, frames=8, content="screen", bitdepth=8 + 2 * (ibc ^ pal),
                **{"cfg.screen_content_mode": 1, "cfg.intrabc_mode": ibc, "cfg.palette_level": pal,
                   "cfg.tile_columns": pal})
    add("sc_auto", frames=8, content="screen", **{"cfg.screen_content_mode": 2})
    add("sc_intra", frames=6, content="screen", width=256, **{"cfg.screen_content_mode": 1, "cfg.intrabc_mode": 1,
                                                                "cfg.intra_period_length": 0, "cfg.tile_columns": 1})
    for rc in (1, 2):
        for tiles in (0, 1):
            add("rc%d_t%d" % (rc, tiles), frames=30, content="mix", width=192,
                **{"cfg.rate_control_mode": rc, "cfg.target_bit_rate": 200000, "cfg.tile_columns": tiles})
    for qp in (0, 1, 10, 63):
        add("qp%d" % qp, frames=8, content="gradient", **{"cfg.qp": qp, "cfg.tile_columns": qp & 1})
    add("cdef0", frames=8, **{"cfg.cdef_level": 0, "cfg.tile_columns": 1})
    add("lr0", frames=8, **{"cfg.enable_restoration_filtering": 0, "cfg.tile_columns": 1})
    add("lr1", frames=8, width=256, height=192, content="noise", **{"cfg.enable_restoration_filtering": 1,
                                                                     "cfg.tile_columns": 1})
    add("lr1_10", frames=8, width=192, height=192, content="mix", bitdepth=10,
        **{"cfg.enable_restoration_filtering": 1})
    add("dlf0", frames=8, **{"cfg.disable_dlf_flag": 1, "cfg.tile_columns": 1})
    add("alloff", frames=8, **{"cfg.disable_dlf_flag": 1, "cfg.cdef_level": 0, "cfg.enable_restoration_filtering": 0})
    for gm in (0, 1):
        for wm in (0, 1):
            add("gm%d_wm%d" % (gm, wm), frames=16, content="zoom", width=192, height=128,
                **{"cfg.enable_global_motion": gm, "cfg.enable_warped_motion": wm, "cfg.tile_columns": gm ^ wm})
    add("gm_m4", frames=6, content="zoom", width=128, height=128, **{"cfg.enc_mode": 4, "cfg.enable_global_motion": 1,
                                                                     "cfg.tile_columns": 1})
    add("m0", frames=3, width=64, height=64, content="mix", **{"cfg.enc_mode": 0})
    add("m2", frames=4, width=128, height=64, content="zoom", **{"cfg.enc_mode": 2, "cfg.tile_columns": 1})
    add("m4_10", frames=5, width=128, height=64, content="pan", bitdepth=10, **{"cfg.enc_mode": 4})
    add("m6", frames=12, content="rects", **{"cfg.enc_mode": 6, "cfg.tile_columns": 1})
    add("two", frames=2)
    add("one", frames=1)
    add("sb128", frames=8, width=256, height=256, **{"cfg.super_block_size": 128, "cfg.tile_columns": 1})
    add("lad", frames=30, content="mix", **{"cfg.look_ahead_distance": 16, "cfg.rate_control_mode": 1,
                                            "cfg.target_bit_rate": 100000})
    return cases


# ---------------------------------------------------------------- helpers
def write_ivf(path, w, h, packets):
    with open(path, "wb") as f:
        f.write(b"DKIF" + (0).to_bytes(2, "little") + (32).to_bytes(2, "little") + b"AV01" +
                int(w).to_bytes(2, "little") + int(h).to_bytes(2, "little") + (30).to_bytes(4, "little") +
                (1).to_bytes(4, "little") + len(packets).to_bytes(4, "little") + (0).to_bytes(4, "little"))
        for i, data in enumerate(packets):
            f.write(len(data).to_bytes(4, "little") + int(i).to_bytes(8, "little") + data)


def enc_leb128(v):
    out = bytearray()
    while True:
        b = v & 0x7F
        v >>= 7
        if v:
            out.append(b | 0x80)
        else:
            out.append(b)
            return bytes(out)


def obu_bytes(obu_type, payload, src=None):
    hdr = bytearray([(obu_type << 3) | 2 | (4 if src is not None and src.has_extension else 0)])
    if src is not None and src.has_extension:
        hdr.append((src.temporal_id << 5) | (src.spatial_id << 3))
    return bytes(hdr) + enc_leb128(len(payload)) + payload


def resplit_packet(data, pinfo, redundant=True):
    """Rewrite every OBU_FRAME as OBU_FRAME_HEADER (+ OBU_REDUNDANT_FRAME_HEADER copy) + OBU_TILE_GROUP using the
    parsed header_bits."""
    out = bytearray()
    nsplit = 0
    for o in pinfo.obus:
        raw = data[o.offset:o.offset + o.header_len + o.size]
        fh = o.parsed
        if o.type != 6 or not isinstance(fh, ap.FrameHeader) or fh.obu_type != 6:
            out += raw
            continue
        n = fh.header_bits
        nb = (n + 7) // 8
        hb = bytearray(o.payload[:nb])
        if n % 8 == 0:
            hb.append(0x80)
        else:
            keep = n % 8
            hb[-1] = (hb[-1] & (0xFF << (8 - keep)) & 0xFF) | (0x80 >> keep)
        out += obu_bytes(3, bytes(hb), o)
        if redundant and nsplit % 2 == 0:
            out += obu_bytes(7, bytes(hb), o)
        out += obu_bytes(4, o.payload[nb:], o)
        nsplit += 1
    return bytes(out), nsplit


def _hdr_bits(o, fh):
    nb = (fh.header_bits + 7) // 8
    return bin(int.from_bytes(b"\x01" + o.payload[:nb], "big"))[3:][:fh.header_bits]


def _bits_to_bytes(bits):
    bits += "0" * (-len(bits) % 8)
    return int(bits, 2).to_bytes(len(bits) // 8, "big") if bits else b""


def _rebuild(o, fh, bits):
    """OBU carrying frame header fh with its header bits replaced by the bit string `bits`."""
    if o.type == 6:
        return obu_bytes(6, _bits_to_bytes(bits) + o.payload[(fh.header_bits + 7) // 8:], o)
    return obu_bytes(o.type, _bits_to_bytes(bits + "1"), o)


def _first_header_obus(pinfo):
    return [(k, o) for k, o in enumerate(pinfo.obus)
            if o.type in (3, 6) and isinstance(o.parsed, ap.FrameHeader) and o.parsed.obu_index == k]


def rewrite_short_signaling(packets, st):
    """Re-code explicit ref_frame_idx[] as frame_refs_short_signaling=1 wherever set_frame_refs() derives the
    same list.  Decoders run their own set_frame_refs(), so identical output validates ours."""
    if st.sequence_header is None or st.sequence_header.frame_id_numbers_present_flag:
        return None, 0
    out, n = [], 0
    for data, pinfo in zip(packets, st.packets):
        firsts = dict(_first_header_obus(pinfo))
        buf = bytearray()
        for k, o in enumerate(pinfo.obus):
            fh = o.parsed if k in firsts else None
            if fh is None or not fh.short_signaling_equiv:
                buf += data[o.offset:o.offset + o.header_len + o.size]
                continue
            bits = _hdr_bits(o, fh)
            a = fh.bitpos["frame_refs_short_signaling"]
            b = fh.bitpos["ref_frame_idx_end"]
            assert bits[a] == "0" and b - a == 22
            bits = bits[:a] + "1" + format(fh.ref_frame_idx[0], "03b") + format(fh.ref_frame_idx[3], "03b") + bits[b:]
            buf += _rebuild(o, fh, bits)
            n += 1
        out.append(bytes(buf))
    return out, n


def rewrite_hidden_key(packets, st, slot=3):
    """Turn every shown KEY_FRAME into a hidden key frame (refresh of one slot) followed by a
    show_existing_frame header: exercises the frame loading + refresh-all path; output must not change."""
    sh = st.sequence_header
    if sh is None or sh.frame_id_numbers_present_flag or sh.still_picture or sh.decoder_model_info_present_flag:
        return None, 0
    out, n = [], 0
    for data, pinfo in zip(packets, st.packets):
        firsts = dict(_first_header_obus(pinfo))
        buf = bytearray()
        pending = None
        for k, o in enumerate(pinfo.obus):
            fh = o.parsed if k in firsts else None
            raw = data[o.offset:o.offset + o.header_len + o.size]
            if fh is not None and not fh.show_existing_frame and fh.frame_type == 0 and fh.show_frame:
                bits = _hdr_bits(o, fh)
                a = fh.bitpos["show_frame"]
                b = fh.bitpos["refresh_frame_flags"]
                assert bits[a] == "1"
                # show_frame=0, showable_frame=1, error_resilient_mode=0 ... refresh_frame_flags
                bits = bits[:a] + "0" + "1" + "0" + bits[a + 1:b] + format(1 << slot, "08b") + bits[b:]
                raw = _rebuild(o, fh, bits)
                pending = fh
                n += 1
            buf += raw
            if pending is not None and o.frame_end and o.frame_header is pending:
                buf += obu_bytes(3, _bits_to_bytes("1" + format(slot, "03b") + "1"), o)
                pending = None
        out.append(bytes(buf))
    return out, n


def run_refdec(dec, which, ivf, out="-"):
    r = subprocess.run([dec, which, ivf, out], capture_output=True, text=True, timeout=600)
    info = None
    for ln in r.stdout.splitlines():
        ln = ln.strip()
        if ln.startswith("{"):
            try:
                info = json.loads(ln)
            except ValueError:
                pass
    return info


def file_md5(path):
    h = hashlib.md5()
    with open(path, "rb") as f:
        for blk in iter(lambda: f.read(1 << 20), b""):
            h.update(blk)
    return h.hexdigest()


class AomCtl:
    """libaom decoder through ctypes (no headers: control ids probed for libaom.so.3 / 3.6.0)."""
    LAST_REF_UPDATES, FRAME_SIZE, DISPLAY_SIZE, BIT_DEPTH, TILE_COUNT = 256, 259, 260, 261, 264
    TILE_INFO, SCT_INFO, SHOW_EXISTING, SHOW_FRAME, BASE_Q_IDX, ORDER_HINT = 286, 287, 290, 292, 293, 294

    def __init__(self):
        L = ctypes.CDLL("libaom.so.3")
        L.aom_codec_av1_dx.restype = ctypes.c_void_p
        L.aom_codec_dec_init_ver.argtypes = [ctypes.c_void_p, ctypes.c_void_p, ctypes.c_void_p, ctypes.c_long, ctypes.c_int]
        L.aom_codec_decode.argtypes = [ctypes.c_void_p, ctypes.c_char_p, ctypes.c_size_t, ctypes.c_void_p]
        L.aom_codec_get_frame.argtypes = [ctypes.c_void_p, ctypes.c_void_p]
        L.aom_codec_get_frame.restype = ctypes.c_void_p
        L.aom_codec_control.restype = ctypes.c_int
        L.aom_codec_destroy.argtypes = [ctypes.c_void_p]
        self.L = L
        self.ctx = ctypes.create_string_buffer(512)
        cfg = (ctypes.c_uint * 4)(1, 0, 0, 1)
        if L.aom_codec_dec_init_ver(self.ctx, L.aom_codec_av1_dx(), cfg, 0, 22) != 0:
            raise RuntimeError("aom_codec_dec_init_ver failed")

    def decode(self, data, md5=None):
        rc = self.L.aom_codec_decode(self.ctx, data, len(data), None)
        it = ctypes.c_void_p(0)
        n = 0
        while True:
            ip = self.L.aom_codec_get_frame(self.ctx, ctypes.byref(it))
            if not ip:
                break
            n += 1
            if md5 is not None:
                img = _AomImg.from_address(ip)
                bps = 2 if img.fmt & 0x800 else 1
                md5.update(b"%d %d %d;" % (img.d_w, img.d_h, img.bit_depth))
                for pl in range(1 if img.monochrome else 3):
                    pw = img.d_w if pl == 0 else (img.d_w + img.xcs) >> img.xcs
                    ph = img.d_h if pl == 0 else (img.d_h + img.ycs) >> img.ycs
                    for y in range(ph):
                        md5.update(ctypes.string_at(img.planes[pl] + y * img.stride[pl], pw * bps))
        return rc, n

    def get(self, cid, n=1):
        buf = (ctypes.c_int * 160)()
        rc = self.L.aom_codec_control(ctypes.c_void_p(ctypes.addressof(self.ctx)), ctypes.c_int(cid),
                                      ctypes.c_void_p(ctypes.addressof(buf)))
        if rc != 0:
            return None
        return list(buf[:n])

    def close(self):
        self.L.aom_codec_destroy(self.ctx)


def aom_decode_all(packets):
    """-> (ok, per-packet output counts, md5 of all output frames) using libaom through ctypes."""
    d = AomCtl()
    h = hashlib.md5()
    pp = []
    try:
        for data in packets:
            rc, n = d.decode(data, h)
            if rc != 0:
                return False, pp, None
            pp.append(n)
    finally:
        d.close()
    return True, pp, h.hexdigest()


def aom_crosscheck(packets, st):
    """Feed libaom one frame at a time and compare its view of each frame header with ours."""
    fails = []
    d = AomCtl()
    nchk = 0
    try:
        for i, data in enumerate(packets):
            cur = b""
            for o in st.packets[i].obus:
                cur += data[o.offset:o.offset + o.header_len + o.size]
                if not o.frame_end:
                    continue
                fh = o.frame_header
                rc, _ = d.decode(cur)
                cur = b""
                tag = "pkt %d frame oh=%d" % (i, fh.order_hint)
                if rc != 0:
                    fails.append("%s: libaom decode rc=%d" % (tag, rc))
                    return fails, nchk
                nchk += 1
                exp = {
                    "refresh": (d.get(d.LAST_REF_UPDATES)[0], fh.refresh_frame_flags),
                    "show_existing": (d.get(d.SHOW_EXISTING)[0], fh.show_existing_frame),
                    "order_hint": (d.get(d.ORDER_HINT)[0], fh.order_hint),
                    # coded (downscaled) size; libaom does not refresh it for show_existing_frame
                    "frame_size": (d.get(d.FRAME_SIZE, 2), [None, None] if fh.show_existing_frame
                                   else [fh.frame_width, fh.frame_height]),
                    "render_size": (d.get(d.DISPLAY_SIZE, 2), [fh.render_width, fh.render_height]),
                    "bit_depth": (d.get(d.BIT_DEPTH)[0], fh.bit_depth),
                }
                if not fh.show_existing_frame:
                    ti = d.get(d.TILE_INFO, 130)
                    sbmi = 32 if st.sequence_header.use_128x128_superblock else 16
                    exp.update({
                        "show_frame": (d.get(d.SHOW_FRAME)[0], fh.show_frame),
                        "base_q_idx": (d.get(d.BASE_Q_IDX)[0], fh.base_q_idx),
                        "sct": (d.get(d.SCT_INFO, 3), [fh.allow_screen_content_tools, fh.allow_intrabc,
                                                       fh.force_integer_mv if not fh.FrameIsIntra else None]),
                        # libaom reports 1 << log2 for the counts; the width/height lists are exact (SB units)
                        "tile_cols_rows_log2": (ti[:2], [1 << fh.TileColsLog2, 1 << fh.TileRowsLog2]
                                                if fh.uniform_tile_spacing_flag else [fh.TileCols, fh.TileRows]),
                        "tile_widths_sb": (ti[2:3 + fh.TileCols],
                                           [(fh.MiColStarts[k + 1] - fh.MiColStarts[k] + sbmi - 1) // sbmi
                                            for k in range(fh.TileCols)] + [0]),
                        "tile_heights_sb": (ti[66:67 + fh.TileRows],
                                            [(fh.MiRowStarts[k + 1] - fh.MiRowStarts[k] + sbmi - 1) // sbmi
                                             for k in range(fh.TileRows)] + [0]),
                    })
                for k, (got, want) in exp.items():
                    if isinstance(want, list):
                        ok = all(w is None or w == g for g, w in zip(got, want)) and len(got) == len(want)
                    else:
                        ok = got == want
                    if not ok:
                        fails.append("%s: %s libaom=%s parser=%s" % (tag, k, got, want))
    finally:
        d.close()
    return fails, nchk


# ---------------------------------------------------------------- malformed input handling
def negative_tests(packets):
    """Corrupt a good stream in known ways; each corruption must be reported (and must never raise)."""
    fails = []
    good = ap.parse_stream(packets)
    if good.errors:
        return ["negative tests: base stream not clean"]

    def expect(tag, pk, needle, packet=0):
        try:
            st = ap.parse_stream(pk)
        except Exception as ex:     # noqa: BLE001
            fails.append("negative %s: parse_stream raised %r" % (tag, ex))
            return
        if not any(needle in e for e in st.packets[packet].errors):
            fails.append("negative %s: expected %r, got %s" % (tag, needle, st.packets[packet].errors[:3]))
        try:
            ap.parse_stream(pk, strict=True)
            fails.append("negative %s: strict mode did not raise" % tag)
        except ap.ParseError:
            pass

    def mod(i, fn):
        pk = [bytes(p) for p in packets]
        b = bytearray(pk[i])
        r = fn(b)
        pk[i] = bytes(b if r is None else r)
        return pk

    p0 = good.packets[0]
    seq = [o for o in p0.obus if o.type == 1][0]
    frm = [o for o in p0.obus if o.type == 6][0]
    expect("forbidden", mod(0, lambda b: b.__setitem__(0, b[0] | 0x80)), "obu_forbidden_bit set")
    expect("reserved1", mod(0, lambda b: b.__setitem__(0, b[0] | 0x01)), "obu_reserved_1bit set")
    expect("restype", mod(0, lambda b: b.__setitem__(seq.offset, (b[seq.offset] & 0x87) | (9 << 3))), "reserved obu type 9")
    expect("truncated", mod(0, lambda b: b[:-3]), "obu size exceeds packet")
    expect("no_td", mod(0, lambda b: b[2:]), "first OBU is not a temporal delimiter")
    expect("td_size", mod(0, lambda b: bytes([0x12, 0x01, 0x00]) + b[2:]), "temporal delimiter with nonzero size")
    expect("two_td", mod(0, lambda b: b[:2] + b), "more than one temporal delimiter")
    expect("leb_long", mod(0, lambda b: bytes([0x12]) + b"\x80" * 8 + b"\x00" + b[2:]), "leb128 longer than 8 bytes")
    expect("leb_big", mod(0, lambda b: bytes([0x12, 0x80, 0x80, 0x80, 0x80, 0x10]) + b[2:]), "leb128 value exceeds")
    expect("ext_reserved", mod(0, lambda b: bytes([0x16, 0x01, 0x00]) + b[2:]), "extension_header_reserved_3bits")
    last = seq.offset + seq.header_len + seq.size - 1

    def clear_trailing(b):
        b[last] &= (b[last] - 1) & 0xFF      # clear the lowest set bit = trailing_one_bit
    expect("seq_trailing", mod(0, clear_trailing), "trailing bits malformed in sequence header")
    expect("seq_short", mod(0, lambda b: b[:seq.offset + 1] + bytes([3]) + b[seq.offset + 2:seq.offset + 5]
                            + b[seq.offset + seq.header_len + seq.size:]), "OBU_SEQUENCE_HEADER")
    fh = frm.parsed
    if fh.header_bits % 8:
        pos = frm.offset + frm.header_len + fh.header_bits // 8
        expect("align", mod(0, lambda b: b.__setitem__(pos, b[pos] | 1)), "nonzero padding/alignment bits before tile data")
    se = [(p.index, o) for p in good.packets for o in p.obus if o.type == 3 and o.parsed.show_existing_frame]
    if se:
        i, o = se[0]
        pos = o.offset + o.header_len
        expect("fh_trailing", mod(i, lambda b: b.__setitem__(pos, b[pos] | 0x04)), "trailing bits malformed in frame header OBU", i)
        expect("fh_notrailing", mod(i, lambda b: b.__setitem__(pos, b[pos] & 0xF0)), "trailing bits malformed in frame header OBU", i)
    # tile group before any frame header
    expect("orphan_tg", [packets[0][:frm.offset] + obu_bytes(4, b"\x00" * 8)], "tile group OBU without an active frame header")
    # helpers
    try:
        assert ap.leb128(b"\xe5\x8e\x26", 0) == (624485, 3) and ap.leb128(b"\x00\x7f", 1) == (127, 1)
        for bad in (b"\x80", b"\x80" * 8 + b"\x01", b"\xff\xff\xff\xff\x7f"):
            try:
                ap.leb128(bad, 0)
                fails.append("negative leb128(%r) accepted" % bad)
            except ap.ParseError:
                pass
        r = ap.BitReader(bytes([0b10110100, 0xFF]))
        assert (r.f(1), r.su(3), r.ns(5), r.f(2)) == (1, 3, 1, 0) and r.uvlc() == 0
        r = ap.BitReader(bytes([0b00101000, 0x34, 0x12]))
        assert r.uvlc() == 4 and r.byte_alignment() and r.le(2) == 0x1234
        r = ap.BitReader(bytes([0b11110101]))
        assert (r.ns(5), r.su(3), r.ns(1)) == (4, -3, 0) and not r.byte_alignment()
    except AssertionError:
        fails.append("descriptor unit tests failed")
    # garbage never raises
    import random
    rnd = random.Random(7)
    for k in range(200):
        i = rnd.randrange(len(packets))
        b = bytearray(packets[i])
        for _ in range(rnd.randrange(1, 6)):
            b[rnd.randrange(len(b))] = rnd.randrange(256)
        try:
            ap.parse_stream(packets[:i] + [bytes(b)] + packets[i + 1:])
        except Exception as ex:     # noqa: BLE001
            fails.append("random corruption %d: parse_stream raised %r" % (k, ex))
            break
    return fails


# ---------------------------------------------------------------- one case
def run_case(name, case, workdir, full=False, packets=None):
    """-> dict(name, fails=[...], info={...}).  With packets given (a stream from another encoder) the
    encode step and the SVT-specific expectations are skipped."""
    enc, dec = _tools()
    prefix = os.path.join(workdir, name)
    if packets is not None:
        write_ivf(prefix + ".ivf", int(case["width"]), int(case["height"]), packets)
        return check_stream(name, prefix, case, packets, dec, full, {}, svt=False)
    case = dict(case)
    case["out"] = prefix
    with open(prefix + ".case", "w") as f:
        for k, v in case.items():
            f.write("%s=%s\n" % (k, v))
    fails = []
    info = {}
    env = dict(os.environ)
    env["SVT_LOG"] = "1"
    t0 = time.time()
    try:
        r = subprocess.run([enc, prefix + ".case"], capture_output=True, text=True, env=env, timeout=ENC_TIMEOUT)
    except subprocess.TimeoutExpired:
        return {"name": name, "fails": [], "skipped": "encoder did not finish in %d s" % ENC_TIMEOUT, "info": info}
    info["enc_s"] = round(time.time() - t0, 2)
    if r.returncode != 0 or not os.path.exists(prefix + ".ivf"):
        return {"name": name, "fails": ["encdrv failed rc=%s %s" % (r.returncode, r.stderr[-300:])], "info": info}
    packets = ap.read_ivf(prefix + ".ivf")
    if not packets:
        return {"name": name, "fails": ["no packets"], "info": info}
    return check_stream(name, prefix, case, packets, dec, full, info, svt=True)


def check_stream(name, prefix, case, packets, dec, full, info, svt=True):
    fails = []
    st = ap.parse_stream(packets)
    for pi, e in st.errors:
        fails.append("packet %d: %s" % (pi, e))
    for pi, w in st.warnings:
        fails.append("packet %d: warning: %s" % (pi, w))
    sh = st.sequence_header
    fhs = st.all_frame_headers
    info.update(packets=len(packets), frame_headers=len(fhs), shown=st.shown_frames,
                show_existing=sum(f.show_existing_frame for f in fhs),
                multi_tile=sum(1 for f in fhs if f.TileCols * f.TileRows > 1),
                fh_obus=sum(1 for f in fhs if f.obu_type == 3 and not f.show_existing_frame))
    if sh is None:
        fails.append("no sequence header")
        return {"name": name, "fails": fails, "info": info}
    # (a), (b) against both decoders
    refs = {}
    for which in ("aom", "dav1d"):
        out = (prefix + "." + which + ".yuv") if full else "-"
        inf = run_refdec(dec, which, prefix + ".ivf", out)
        refs[which] = inf
        if sh.mono_chrome or (inf and inf.get("error") == "image layout self-check failed"):
            # monochrome: decoders leave the chroma planes of film-grain output undefined
            # refdec harness only handles 4:2:0; fall back to libaom via ctypes below
            refs[which] = None
            info["refdec_unsupported"] = 1
            continue
        if not inf or inf.get("ok") != 1:
            fails.append("refdec %s failed: %s" % (which, inf))
            continue
        if inf["frames"] != st.shown_frames:
            fails.append("(a) shown frames %d != %s frames %d" % (st.shown_frames, which, inf["frames"]))
        pp = [p.shown_frames for p in st.packets]
        if inf.get("per_packet") != pp:
            fails.append("(a) per-packet shown %s != %s %s" % (pp, which, inf.get("per_packet")))
        shown = [f for f in fhs if f.is_shown]
        if shown:
            # decoders output the upscaled frame size; refdec reports the last/first frame's
            ws = {(f.upscaled_width, f.frame_height) for f in shown}
            if (inf["w"], inf["h"]) not in ws:
                fails.append("(b) dims %s not in parsed %s (%s)" % ((inf["w"], inf["h"]), sorted(ws), which))
        if inf["bd"] != sh.bit_depth:
            fails.append("(b) bit depth %d != %s %d" % (sh.bit_depth, which, inf["bd"]))
    ct_md5 = None
    if info.get("refdec_unsupported"):
        ok, pp, ct_md5 = aom_decode_all(packets)
        if not ok:
            fails.append("libaom (ctypes) failed to decode the stream")
        elif pp != [p.shown_frames for p in st.packets]:
            fails.append("(a) per-packet shown %s != libaom(ctypes) %s" % ([p.shown_frames for p in st.packets], pp))
    want_w, want_h = int(case["width"]), int(case["height"])
    for f in fhs:
        if svt and (f.upscaled_width, f.frame_height) != (want_w, want_h):
            fails.append("(b) frame oh=%d size %dx%d != configured %dx%d"
                         % (f.order_hint, f.upscaled_width, f.frame_height, want_w, want_h))
            break
    if svt and sh.bit_depth != int(case.get("bitdepth", 8)):
        fails.append("(b) bit depth %d != configured" % sh.bit_depth)
    # (e) tile sizes
    for f in fhs:
        if f.show_existing_frame:
            continue
        nt = f.TileCols * f.TileRows
        got = sum(len(tg["tile_sizes"]) for tg in f.tile_groups)
        if got != nt or not all(tg["ok"] for tg in f.tile_groups):
            fails.append("(e) frame oh=%d: %d tile sizes for %d tiles" % (f.order_hint, got, nt))
        for tg in f.tile_groups:
            if nt > 1 and f.obu_type == 6 and tg["header_bytes"] != 1 and not tg["tile_start_and_end_present_flag"]:
                fails.append("(e) unexpected tile group header length")
    # (f) film grain
    fg = int(case.get("cfg.film_grain_denoise_strength", 0))
    if not svt:
        pass
    elif fg > 0:
        # SVT sets film_grain_params_present |= apply_grain of analysed pictures, so a weak strength may give none
        info["apply_grain"] = sum(1 for f in fhs if f.is_shown and f.apply_grain)
        info["fg_present"] = sh.film_grain_params_present
        if fg >= 8 and not sh.film_grain_params_present:
            fails.append("(f) film_grain_params_present=0 with denoise strength %d" % fg)
        if sh.film_grain_params_present and not any(f.apply_grain for f in fhs if f.is_shown):
            fails.append("(f) no shown frame has apply_grain")
    elif sh.film_grain_params_present or any(f.apply_grain for f in fhs):
        fails.append("(f) film grain signalled without film_grain_denoise_strength")
    # stream header file == in-stream sequence header OBU ?
    if os.path.exists(prefix + ".hdr"):
        hdr = open(prefix + ".hdr", "rb").read()
        first = st.packets[0].obus
        seq_obus = [o for o in first if o.type == 1]
        if seq_obus:
            o = seq_obus[0]
            info["hdr_equal"] = hdr == packets[0][o.offset:o.offset + o.header_len + o.size]
    # (c) informational
    if svt and int(case.get("cfg.rate_control_mode", 0)) == 0:
        q = [f.base_q_idx for f in fhs if not f.show_existing_frame]
        info["q"] = (min(q), max(q), QINDEX[int(case["cfg.qp"])])
        # SVT's qp scaling only lowers qindex (a lot for intra-only / flat structures); exact values are
        # compared with libaom's AOMD_GET_BASE_Q_IDX in --full mode
        if max(q) > QINDEX[int(case["cfg.qp"])] + 8:
            fails.append("(c) base_q_idx range %d..%d implausible for qindex(qp)=%d"
                         % (min(q), max(q), QINDEX[int(case["cfg.qp"])]))
    if full and svt:
        # (d) packets flagged SHOW_EXT
        try:
            pk = [json.loads(x) for x in open(prefix + ".pkts") if x.strip()]
            for j, p in enumerate(st.packets):
                has = any(f.show_existing_frame for f in p.frame_headers)
                flag = bool(pk[j]["flags"] & 2)
                if has != flag:
                    fails.append("(d) packet %d: show_existing %s but flags=0x%x" % (j, has, pk[j]["flags"]))
        except (OSError, ValueError, IndexError, KeyError) as ex:
            fails.append("(d) pkts file: %s" % ex)
    def decode_compare(tag, newp):
        write_ivf(prefix + ".split.ivf", want_w, want_h, newp)
        if ct_md5 is not None:
            ok, pp, md5b = aom_decode_all(newp)
            if not ok or md5b != ct_md5:
                fails.append("%s: libaom(ctypes) output differs from the original (ok=%s)" % (tag, ok))
        for which in ("aom", "dav1d"):
            if not refs.get(which) or refs[which].get("ok") != 1:
                continue
            out2 = prefix + "." + which + ".split.yuv"
            inf2 = run_refdec(dec, which, prefix + ".split.ivf", out2)
            if not inf2 or inf2.get("ok") != 1:
                fails.append("%s stream rejected by %s: %s" % (tag, which, inf2))
                continue
            if inf2["frames"] != refs[which]["frames"]:
                fails.append("%s: %s frames %d != %d" % (tag, which, inf2["frames"], refs[which]["frames"]))
            elif file_md5(out2) != file_md5(prefix + "." + which + ".yuv"):
                fails.append("%s: %s output differs from the original" % (tag, which))

    if full:
        f2, nchk = aom_crosscheck(packets, st)
        fails += f2
        info["aom_checked"] = nchk
        # re-serialisation
        newp = []
        nsplit = 0
        for j, data in enumerate(packets):
            d2, n = resplit_packet(data, st.packets[j])
            newp.append(d2)
            nsplit += n
        info["resplit"] = nsplit
        st2 = ap.parse_stream(newp)
        if st2.errors or st2.warnings:
            fails.append("resplit stream: parser reports %s" % (st2.errors + st2.warnings)[:3])
        a, b = st.all_frame_headers, st2.all_frame_headers
        if len(a) != len(b) or any(x.header_bits != y.header_bits or x.base_q_idx != y.base_q_idx for x, y in zip(a, b)):
            fails.append("resplit stream: frame headers differ")
        decode_compare("resplit", newp)
        for tag, fn in (("shortsig", rewrite_short_signaling), ("hiddenkey", rewrite_hidden_key)):
            newp, cnt = fn(packets, st)
            info[tag] = cnt
            if not cnt:
                continue
            st3 = ap.parse_stream(newp)
            if st3.errors or st3.warnings:
                fails.append("%s stream: parser reports %s" % (tag, (st3.errors + st3.warnings)[:3]))
            if [p.shown_frames for p in st3.packets] != [p.shown_frames for p in st.packets]:
                fails.append("%s stream: shown-frame counts changed" % tag)
            if tag == "shortsig":
                x = [f.ref_frame_idx for f in st.all_frame_headers]
                y = [f.ref_frame_idx for f in st3.all_frame_headers]
                if x != y or sum(f.frame_refs_short_signaling for f in st3.all_frame_headers) < cnt:
                    fails.append("shortsig stream: ref_frame_idx differ after re-parsing")
            decode_compare(tag, newp)
        for ext in (".aom.yuv", ".dav1d.yuv", ".aom.split.yuv", ".dav1d.split.yuv"):
            try:
                os.unlink(prefix + ext)
            except OSError:
                pass
    res = {"name": name, "fails": fails, "info": info}
    if name == "basic" and svt:
        res["packets"] = packets
    return res


# ---------------------------------------------------------------- second stream source: libaom's encoder
# libaom.so.3 also exports the AV1 encoder.  It is driven through ctypes (no headers: struct offsets and the
# encoder ABI number were probed) to obtain streams using syntax SVT-AV1 never emits: error resilient mode,
# S-frames, frame ids, frame size override / frame_size_with_refs, superres, non-uniform tiles, 128x128
# superblocks, segmentation, delta q / delta lf, quant matrices, lossless, monochrome, 4:4:4, still pictures,
# reduced_still_picture_header, OBU_FRAME_HEADER + several OBU_TILE_GROUPs, film grain tables ...
# aom_codec_enc_cfg_t as unsigned[]: indices of the members used
CFG = {"g_threads": 1, "g_profile": 2, "g_w": 3, "g_h": 4, "g_limit": 5, "g_forced_max_frame_width": 6,
       "g_forced_max_frame_height": 7, "g_bit_depth": 8,
       "g_input_bit_depth": 9, "g_error_resilient": 12, "g_lag_in_frames": 14, "rc_resize_mode": 16,
       "rc_resize_denominator": 17, "rc_resize_kf_denominator": 18, "rc_superres_mode": 19,
       "rc_superres_denominator": 20, "rc_superres_kf_denominator": 21, "rc_end_usage": 24,
       "rc_target_bitrate": 34, "rc_min_quantizer": 35, "rc_max_quantizer": 36, "fwd_kf_enabled": 45,
       "kf_mode": 46, "kf_min_dist": 47, "kf_max_dist": 48, "sframe_dist": 49, "sframe_mode": 50,
       "large_scale_tile": 51, "monochrome": 52, "full_still_picture_hdr": 53, "tile_width_count": 55,
       "tile_height_count": 56, "tile_widths": 57, "tile_heights": 121}


class _AomImg(ctypes.Structure):
    _fields_ = [(n, ctypes.c_int) for n in ("fmt", "cp", "tc", "mc", "monochrome", "csp", "range")] + \
               [(n, ctypes.c_uint) for n in ("w", "h", "bit_depth", "d_w", "d_h", "r_w", "r_h", "xcs", "ycs")] + \
               [("planes", ctypes.c_void_p * 3), ("stride", ctypes.c_int * 3), ("sz", ctypes.c_size_t)]


def aom_encode(w=128, h=96, frames=10, bd=8, fmt444=False, cfg=None, opts=None, usage=0, seed=1, force_kf=(),
               content="pan", frame_flags=None):
    """Encode a synthetic clip with libaom -> list of temporal units."""
    L = ctypes.CDLL("libaom.so.3")
    L.aom_codec_av1_cx.restype = ctypes.c_void_p
    L.aom_codec_enc_config_default.argtypes = [ctypes.c_void_p, ctypes.c_void_p, ctypes.c_uint]
    L.aom_codec_enc_init_ver.argtypes = [ctypes.c_void_p, ctypes.c_void_p, ctypes.c_void_p, ctypes.c_long, ctypes.c_int]
    L.aom_codec_encode.argtypes = [ctypes.c_void_p, ctypes.c_void_p, ctypes.c_int64, ctypes.c_ulong, ctypes.c_long]
    L.aom_codec_get_cx_data.argtypes = [ctypes.c_void_p, ctypes.c_void_p]
    L.aom_codec_get_cx_data.restype = ctypes.c_void_p
    L.aom_codec_set_option.argtypes = [ctypes.c_void_p, ctypes.c_char_p, ctypes.c_char_p]
    L.aom_codec_error_detail.argtypes = [ctypes.c_void_p]
    L.aom_codec_error_detail.restype = ctypes.c_char_p
    L.aom_img_alloc.argtypes = [ctypes.c_void_p, ctypes.c_int, ctypes.c_uint, ctypes.c_uint, ctypes.c_uint]
    L.aom_img_alloc.restype = ctypes.c_void_p
    L.aom_img_free.argtypes = [ctypes.c_void_p]
    L.aom_codec_destroy.argtypes = [ctypes.c_void_p]
    c = (ctypes.c_uint * 512)()
    if L.aom_codec_enc_config_default(L.aom_codec_av1_cx(), c, usage) != 0:
        raise RuntimeError("aom_codec_enc_config_default failed")
    c[CFG["g_w"]], c[CFG["g_h"]], c[CFG["g_bit_depth"]], c[CFG["g_input_bit_depth"]] = w, h, bd, bd
    c[CFG["rc_end_usage"]] = 3      # AOM_Q
    c[CFG["g_threads"]] = 2
    if fmt444:
        c[CFG["g_profile"]] = 1
    for k, v in (cfg or {}).items():
        if isinstance(v, (list, tuple)):
            for i, x in enumerate(v):
                c[CFG[k] + i] = x
        else:
            c[CFG[k]] = v
    ctx = ctypes.create_string_buffer(512)
    flags = 0x40000 if bd > 8 else 0        # AOM_CODEC_USE_HIGHBITDEPTH
    rc = 3
    for ver in (25,) + tuple(range(0, 64)):
        rc = L.aom_codec_enc_init_ver(ctx, L.aom_codec_av1_cx(), c, flags, ver)
        if rc != 3:                         # AOM_CODEC_ABI_MISMATCH
            break
    if rc != 0:
        raise RuntimeError("aom_codec_enc_init_ver rc=%d: %s" % (rc, L.aom_codec_error_detail(ctx)))
    o = {"cpu-used": 9 if usage == 1 else 6, "cq-level": 30}
    o.update(opts or {})
    for k, v in o.items():
        if L.aom_codec_set_option(ctx, k.encode(), str(v).encode()) != 0:
            msg = L.aom_codec_error_detail(ctx)
            L.aom_codec_destroy(ctx)
            raise RuntimeError("libaom option %s=%s rejected: %s" % (k, v, msg))
    ip = L.aom_img_alloc(None, (0x106 if fmt444 else 0x102) | (0x800 if bd > 8 else 0), w, h, 32)
    img = _AomImg.from_address(ip)
    out = []

    def drain():
        it = ctypes.c_void_p(0)
        while True:
            p = L.aom_codec_get_cx_data(ctx, ctypes.byref(it))
            if not p:
                break
            if ctypes.c_int.from_address(p).value == 0:     # AOM_CODEC_CX_FRAME_PKT
                out.append(ctypes.string_at(ctypes.c_void_p.from_address(p + 8).value,
                                            ctypes.c_size_t.from_address(p + 16).value))
    import random
    rnd = random.Random(seed)
    noise = [bytes(rnd.randrange(256) for _ in range(2 * w + 4 * frames + 8)) for _ in range(h + frames + 8)]
    try:
        for n in range(frames):
            for pl in range(3):
                pw = w if (pl == 0 or fmt444) else (w + 1) // 2
                ph = h if (pl == 0 or fmt444) else (h + 1) // 2
                sx = w // pw
                for y in range(ph):
                    if content == "zoom":
                        z = 1.0 + 0.012 * n
                        ca, sa = math.cos(0.01 * n) / z, math.sin(0.01 * n) / z
                        yy = y * sx - h / 2
                        row = bytes(int(128 + 50 * math.sin((ca * (x * sx - w / 2) - sa * yy) * 0.21 + pl)
                                        + 50 * math.sin((sa * (x * sx - w / 2) + ca * yy) * 0.17)
                                        + (noise[y][x] >> 5)) & 255 for x in range(pw))
                    elif content == "screen":
                        yy = (y * sx + 3 * (n // 2)) % h
                        row = bytes((40 + 60 * pl + 150 * (((x * sx) // 3 + (yy // 5) * 7) % 11 in (1, 2, 5))
                                     if (yy // 16 + (x * sx) // 64) % 3 else 200 - 40 * pl) & 255 for x in range(pw))
                    else:
                        src = noise[y + n]
                        row = bytes(((src[x + 2 * n] >> 2) + ((x * 3 + y * 2 + n * 5 + 40 * pl) & 127)) & 255
                                    for x in range(pw))
                    if bd > 8:
                        row = b"".join((v << (bd - 8)).to_bytes(2, "little") for v in row)
                    ctypes.memmove(img.planes[pl] + y * img.stride[pl], row, len(row))
            fl = (1 if n in force_kf else 0) | (frame_flags or {}).get(n, 0)
            if L.aom_codec_encode(ctx, ip, n, 1, fl) != 0:
                raise RuntimeError("aom_codec_encode failed: %s" % L.aom_codec_error_detail(ctx))
            drain()
        while True:
            before = len(out)
            if L.aom_codec_encode(ctx, None, frames, 1, 0) != 0:
                break
            drain()
            if len(out) == before:
                break
    finally:
        L.aom_img_free(ip)
        L.aom_codec_destroy(ctx)
    return out


def aom_cases():
    C = []

    def add(name, **kw):
        C.append((name, kw))

    add("a_default")
    add("a_rt", usage=1, cfg={"g_lag_in_frames": 0}, frames=12)
    add("a_allintra", usage=2, cfg={"g_lag_in_frames": 0}, frames=4)
    add("a_tiles", w=256, h=192, opts={"tile-columns": 2, "tile-rows": 1})
    add("a_tilegroups", w=256, h=192, opts={"tile-columns": 2, "tile-rows": 1, "num-tile-groups": 3})
    add("a_mtu", w=256, h=192, opts={"tile-columns": 2, "tile-rows": 2, "mtu-size": 600})
    add("a_nonuniform", w=384, h=256, cfg={"tile_width_count": 3, "tile_widths": [1, 3, 2], "tile_height_count": 2,
                                           "tile_heights": [3, 1]}, frames=6)
    add("a_sb128", w=384, h=256, opts={"sb-size": 128, "tile-columns": 1, "tile-rows": 1}, frames=6)
    add("a_sb128_nonuni", w=512, h=256, opts={"sb-size": 128},
        cfg={"tile_width_count": 2, "tile_widths": [1, 3], "tile_height_count": 1, "tile_heights": [1]}, frames=5)
    add("a_sb128_lr", w=256, h=256, opts={"sb-size": 128, "enable-restoration": 1}, usage=0, frames=6)
    add("a_errres", cfg={"g_error_resilient": 1}, frames=12)
    add("a_errres_tiles", w=256, h=128, cfg={"g_error_resilient": 1}, opts={"tile-columns": 1}, frames=12)
    add("a_sframe", cfg={"sframe_dist": 4, "sframe_mode": 1, "g_error_resilient": 1}, frames=16)
    add("a_sframe2", cfg={"sframe_dist": 3, "sframe_mode": 2, "g_lag_in_frames": 0}, usage=1, frames=14)
    add("a_superres_fixed", w=256, h=128, cfg={"rc_superres_mode": 1, "rc_superres_denominator": 12,
                                               "rc_superres_kf_denominator": 10}, opts={"tile-columns": 1})
    add("a_superres_rand", w=256, h=128, cfg={"rc_superres_mode": 2}, frames=14, opts={"tile-columns": 1})
    add("a_superres_rand1", w=200, h=120, cfg={"rc_superres_mode": 2}, frames=14)
    add("a_resize_fixed", w=256, h=128, cfg={"rc_resize_mode": 1, "rc_resize_denominator": 12,
                                             "rc_resize_kf_denominator": 10}, opts={"tile-columns": 1})
    add("a_resize_rand", w=256, h=160, cfg={"rc_resize_mode": 2}, frames=14)
    add("a_resize_super", w=256, h=160, cfg={"rc_resize_mode": 2, "rc_superres_mode": 2}, frames=14, opts={"tile-columns": 1})
    add("a_forced_max", w=128, h=96, cfg={"g_forced_max_frame_width": 300, "g_forced_max_frame_height": 200})
    add("a_aq1", opts={"aq-mode": 1, "tile-columns": 1}, w=192, h=128)
    add("a_aq2", opts={"aq-mode": 2}, w=192, h=128)
    add("a_aq3", opts={"aq-mode": 3, "tile-columns": 1}, w=192, h=128)
    add("a_deltaq", opts={"deltaq-mode": 1, "tile-columns": 1}, w=192, h=128)
    add("a_deltaq2", opts={"deltaq-mode": 2, "delta-lf-mode": 1}, w=192, h=128)
    add("a_deltalf", opts={"deltaq-mode": 1, "delta-lf-mode": 1, "tile-columns": 1}, w=192, h=128)
    add("a_qm", opts={"enable-qm": 1, "qm-min": 2, "qm-max": 12, "tile-columns": 1}, w=192, h=128)
    add("a_chroma_dq", opts={"enable-chroma-deltaq": 1, "enable-qm": 1})
    add("a_lossless", opts={"lossless": 1, "tile-columns": 1}, w=192, h=64, frames=5)
    add("a_lossless_rt", opts={"lossless": 1}, usage=1, cfg={"g_lag_in_frames": 0}, frames=5)
    add("a_mono", cfg={"monochrome": 1}, opts={"tile-columns": 1}, w=192, h=96)
    add("a_mono_fg", cfg={"monochrome": 1}, opts={"film-grain-test": 3})
    add("a_444", fmt444=True, opts={"tile-columns": 1}, w=192, h=96, frames=6)
    add("a_444_10", fmt444=True, bd=10, frames=5, opts={"enable-restoration": 1})
    add("a_10bit", bd=10, opts={"tile-columns": 1}, w=192, h=96, frames=8)
    add("a_12bit", bd=12, cfg={"g_profile": 2}, frames=5)
    add("a_still", frames=1, cfg={"g_limit": 1, "g_lag_in_frames": 0})
    add("a_still_full", frames=1, cfg={"g_limit": 1, "g_lag_in_frames": 0, "full_still_picture_hdr": 1})
    add("a_still_tiles", frames=1, w=256, h=128, cfg={"g_limit": 1, "g_lag_in_frames": 0}, opts={"tile-columns": 1})
    add("a_still_fg", frames=1, cfg={"g_limit": 1, "g_lag_in_frames": 0}, opts={"film-grain-test": 4}, usage=2)
    add("a_still_444_ibc", frames=1, fmt444=True, content="screen", cfg={"g_limit": 1, "g_lag_in_frames": 0}, usage=2,
        opts={"tune-content": "screen", "enable-intrabc": 1, "cpu-used": 3})
    for t in (1, 2, 5, 8, 11, 14, 16):
        add("a_fgtest%d" % t, opts={"film-grain-test": t, "tile-columns": t & 1}, frames=12, bd=10 if t in (2, 8, 16) else 8)
    add("a_denoise", opts={"denoise-noise-level": 25, "tile-columns": 1}, frames=10)
    add("a_screen", opts={"tune-content": "screen", "tile-columns": 1}, w=192, h=128, frames=8)
    add("a_screen_ibc", opts={"tune-content": "screen", "enable-intrabc": 1, "enable-palette": 1}, usage=2,
        cfg={"g_lag_in_frames": 0}, frames=4)
    add("a_noorder", opts={"enable-order-hint": 0, "tile-columns": 1}, frames=10)
    add("a_noorder_err", opts={"enable-order-hint": 0}, cfg={"g_error_resilient": 1}, frames=10)
    add("a_norefmvs", opts={"enable-ref-frame-mvs": 0, "enable-cdef": 0, "enable-restoration": 0})
    add("a_lr", opts={"enable-restoration": 1, "tile-columns": 1}, w=320, h=256, frames=6)
    add("a_lr_small", opts={"enable-restoration": 1}, w=72, h=66, frames=6)
    add("a_gm", opts={"enable-global-motion": 1, "enable-warped-motion": 1, "tile-columns": 1, "cpu-used": 3},
        w=192, h=128, frames=8)
    add("a_reduced_tx", opts={"reduced-tx-type-set": 1, "tile-columns": 1})
    add("a_redref", opts={"reduced-reference-set": 1, "tile-columns": 1}, frames=14)
    add("a_maxref3", opts={"max-reference-frames": 3}, frames=14)
    add("a_cdfmode0", opts={"cdf-update-mode": 0, "tile-columns": 1})
    add("a_cdfmode2", opts={"cdf-update-mode": 2})
    add("a_frame_parallel", opts={"frame-parallel": 1, "tile-columns": 1})
    add("a_fwdkf", cfg={"fwd_kf_enabled": 1, "kf_max_dist": 8, "kf_min_dist": 8}, frames=22, opts={"tile-columns": 1})
    add("a_kf", cfg={"kf_max_dist": 5, "kf_min_dist": 5}, frames=16)
    add("a_forcekf", frames=12, force_kf=(5, 6), opts={"tile-columns": 1})
    add("a_lag0", cfg={"g_lag_in_frames": 0}, frames=12)
    add("a_pyr1", opts={"gf-max-pyr-height": 1, "tile-columns": 1}, frames=18)
    add("a_pyr5", opts={"gf-max-pyr-height": 5, "min-gf-interval": 16, "max-gf-interval": 16}, frames=36, w=64, h=64)
    add("a_overlay0", opts={"enable-overlay": 0, "tile-columns": 1}, frames=20)
    add("a_timing", opts={"timing-info": "constant"}, frames=6)
    add("a_color", opts={"color-primaries": "bt709", "transfer-characteristics": "srgb", "matrix-coefficients": "bt709",
                         "chroma-sample-position": "colocated"}, frames=4)
    add("a_srgb444", fmt444=True, opts={"color-primaries": "bt709", "transfer-characteristics": "srgb",
                                        "matrix-coefficients": "identity"}, frames=4)
    add("a_vbr", cfg={"rc_end_usage": 0, "rc_target_bitrate": 150}, frames=20, opts={"tile-columns": 1})
    add("a_cbr_rt", cfg={"rc_end_usage": 1, "rc_target_bitrate": 100, "g_lag_in_frames": 0}, usage=1, frames=20)
    add("a_rt_resize_dyn", cfg={"rc_end_usage": 1, "rc_target_bitrate": 30, "g_lag_in_frames": 0, "rc_resize_mode": 3},
        usage=1, frames=40, w=320, h=240)
    add("a_odd", w=66, h=50, frames=8)
    add("a_tiny", w=16, h=16, frames=5)
    add("a_wide", w=640, h=64, frames=4, opts={"tile-columns": 3})
    add("a_timing_model", opts={"timing-info": "model"}, frames=8)
    add("a_zoom_gm", content="zoom", w=192, h=128, frames=8, opts={"cpu-used": 2, "enable-global-motion": 1})
    add("a_zoom_gm_t", content="zoom", w=256, h=128, frames=8, opts={"cpu-used": 1, "tile-columns": 1})
    add("a_zoom_errres", content="zoom", w=192, h=128, frames=8, opts={"cpu-used": 2}, cfg={"g_error_resilient": 1})
    add("a_lr_slow", content="zoom", w=192, h=128, frames=5, opts={"cpu-used": 1, "enable-restoration": 1})
    add("a_lr_slow_t", w=256, h=192, frames=4, bd=10, opts={"cpu-used": 2, "enable-restoration": 1, "tile-columns": 1})
    add("a_lr_sb128", w=256, h=256, frames=3, opts={"cpu-used": 2, "enable-restoration": 1, "sb-size": 128})
    add("a_lr_444", w=192, h=128, frames=3, fmt444=True, opts={"cpu-used": 2, "enable-restoration": 1})
    add("a_screen_real", content="screen", w=256, h=128, frames=6, opts={"tune-content": "screen", "cpu-used": 3,
                                                                       "tile-columns": 1})
    add("a_screen_intra", content="screen", w=256, h=128, frames=3, usage=2, cfg={"g_lag_in_frames": 0},
        opts={"tune-content": "screen", "enable-intrabc": 1, "cpu-used": 3})
    add("a_sflags", frames=12, cfg={"g_lag_in_frames": 0}, usage=1,
        frame_flags={3: 1 << 29, 5: 1 << 28, 6: 1 << 30, 8: (1 << 29) | (1 << 26), 9: 1 << 27})
    add("a_sflags_resize", frames=12, w=192, h=128, cfg={"g_lag_in_frames": 0, "rc_resize_mode": 2}, usage=1,
        frame_flags={3: 1 << 29, 7: 1 << 29, 8: 1 << 28}, opts={"tile-columns": 1})
    add("a_noref", frames=12, cfg={"g_lag_in_frames": 0}, usage=1,
        frame_flags={4: 0x7F << 16, 7: (1 << 16) | (1 << 23), 9: (3 << 24)})
    add("a_aq1_long", opts={"aq-mode": 1, "cpu-used": 4}, w=192, h=128, frames=24, content="zoom")
    return C


def run_aom_case(name, kw, workdir):
    # libaom has assert()s that abort the process on some option mixes: encode in a child process
    kw = dict(kw)
    ivf = os.path.join(workdir, name + ".enc.ivf")
    try:
        r = subprocess.run([sys.executable, os.path.abspath(__file__), "--aomenc-encode", name, ivf],
                           capture_output=True, text=True, timeout=300)
    except subprocess.TimeoutExpired:
        return {"name": name, "fails": [], "skipped": "libaom encode timed out", "info": {}}
    if r.returncode != 0 or not os.path.exists(ivf):
        return {"name": name, "fails": [], "skipped": "libaom encode failed: " + (r.stderr.strip().splitlines() or ["rc=%d" % r.returncode])[-1][:200], "info": {}}
    packets = ap.read_ivf(ivf)
    os.unlink(ivf)
    case = {"width": kw.get("w", 128), "height": kw.get("h", 96)}
    return run_case(name, case, workdir, full=True, packets=packets)


def feature_census(st, C):
    s = st.sequence_header
    for k in ("use_128x128_superblock", "enable_superres", "frame_id_numbers_present_flag", "reduced_still_picture_header",
              "still_picture", "timing_info_present_flag", "decoder_model_info_present_flag", "mono_chrome",
              "separate_uv_delta_q", "film_grain_params_present", "color_description_present_flag"):
        if getattr(s, k):
            C["seq." + k] += 1
    if not s.enable_order_hint:
        C["seq.enable_order_hint=0"] += 1
    if s.seq_profile:
        C["seq.seq_profile=%d" % s.seq_profile] += 1
    if s.bit_depth != 8:
        C["seq.bit_depth=%d" % s.bit_depth] += 1
    if s.seq_force_screen_content_tools != 2:
        C["seq.seq_force_screen_content_tools=%d" % s.seq_force_screen_content_tools] += 1
    for p in st.packets:
        for o in p.obus:
            C["obu." + o.type_name] += 1
            if o.has_extension:
                C["obu.extension"] += 1
    for h in st.all_frame_headers:
        if h.show_existing_frame:
            C["show_existing type=%d" % h.display_frame_type] += 1
            continue
        C["frame_type=%s" % h.frame_type_name] += 1
        C["frame obu_type=%d" % h.obu_type] += 1
        if len(h.tile_groups) > 1:
            C["tile_groups>1"] += 1
        if any(tg["tile_start_and_end_present_flag"] for tg in h.tile_groups):
            C["tile_start_and_end_present_flag"] += 1
        if h.redundant_copies:
            C["redundant frame header copies"] += 1
        if not h.uniform_tile_spacing_flag:
            C["uniform_tile_spacing_flag=0"] += 1
        if h.ref_order_hint is not None:
            C["ref_order_hint[] present"] += 1
        if h.primary_ref_frame != 7:
            C["primary_ref_frame!=NONE"] += 1
        if h.segmentation_enabled and not h.update_data:
            C["segmentation update_data=0"] += 1
        if h.frame_type == 1 and h.error_resilient_mode:
            C["inter error_resilient_mode"] += 1
        if h.frame_size_override_flag and not h.found_ref and h.frame_type in (1, 3):
            C["frame_size_with_refs found_ref=0"] += 1
        for k in ("frame_size_override_flag", "found_ref", "frame_refs_short_signaling", "use_superres", "allow_intrabc",
                  "allow_screen_content_tools", "force_integer_mv_coded", "segmentation_enabled", "temporal_update",
                  "delta_q_present", "delta_lf_present", "delta_lf_multi", "using_qmatrix", "UsesLr", "lr_uv_shift",
                  "reference_select", "skip_mode_present", "allow_warped_motion", "reduced_tx_set", "disable_cdf_update",
                  "disable_frame_end_update_cdf", "apply_grain", "loop_filter_delta_enabled", "loop_filter_delta_update",
                  "use_ref_frame_mvs", "CodedLossless", "render_and_frame_size_different", "diff_uv_delta", "tx_mode_select",
                  "chroma_scaling_from_luma", "num_cb_points", "overlap_flag", "clip_to_restricted_range",
                  "buffer_removal_time_present_flag"):
            if getattr(h, k):
                C[k] += 1
        if h.apply_grain and not h.update_grain:
            C["film grain update_grain=0"] += 1
        if not h.is_filter_switchable and not h.FrameIsIntra:
            C["is_filter_switchable=0"] += 1
        if h.DeltaQYDc or h.DeltaQUDc or h.DeltaQUAc:
            C["nonzero DeltaQ"] += 1
        for t in h.gm_type[1:]:
            if t:
                C["gm_type=%d" % t] += 1
        for t in h.lr_type:
            if t:
                C["lr_type=%d" % t] += 1
        if h.cdef_bits:
            C["cdef_bits=%d" % h.cdef_bits] += 1
        if h.lr_unit_shift:
            C["lr_unit_shift=%d" % h.lr_unit_shift] += 1


def main_aom(argv):
    """--aomenc: validate the parser on libaom-encoded streams (needs libaom.so.3)."""
    import collections
    only = [a for a in argv if not a.startswith("-")]
    cases = [c for c in aom_cases() if not only or c[0] in only]
    work = tempfile.mkdtemp(prefix="av1parse_aomenc_")
    t0 = time.time()
    bad, skipped = 0, []
    census = collections.Counter()
    try:
        with concurrent.futures.ThreadPoolExecutor(max_workers=8) as ex:
            futs = {ex.submit(run_aom_case, n, kw, work): n for n, kw in cases}
            for fu in concurrent.futures.as_completed(futs):
                try:
                    res = fu.result()
                except Exception as e:      # noqa: BLE001
                    res = {"name": futs[fu], "fails": ["exception: %r" % e], "info": {}}
                if res.get("skipped"):
                    skipped.append(res["name"])
                    print("SKIP %s: %s" % (res["name"], res["skipped"]))
                    continue
                ivf = os.path.join(work, res["name"] + ".ivf")
                if os.path.exists(ivf):
                    try:
                        feature_census(ap.parse_stream(ap.read_ivf(ivf)), census)
                    except Exception:       # noqa: BLE001
                        pass
                if res["fails"]:
                    bad += 1
                    print("FAIL %s %s" % (res["name"], res["info"]))
                    for m in res["fails"][:12]:
                        print("     " + m)
                else:
                    print("ok   %s %s" % (res["name"], res["info"]))
    finally:
        if "--keep" in argv:
            print("kept " + work)
        else:
            shutil.rmtree(work, ignore_errors=True)
    print("syntax exercised: " + ", ".join("%s:%d" % kv for kv in sorted(census.items())))
    if bad:
        print("av1parse aomenc check: %d of %d cases FAILED (%.1fs)" % (bad, len(cases), time.time() - t0))
        return 1
    print("OK (%d libaom streams, %d skipped, %.1fs)" % (len(cases) - len(skipped), len(skipped), time.time() - t0))
    return 0


def main(argv):
    if "--aomenc-encode" in argv:
        name, out = argv[argv.index("--aomenc-encode") + 1:][:2]
        kw = dict(aom_cases())[name]
        write_ivf(out, kw.get("w", 128), kw.get("h", 96), aom_encode(**kw))
        return 0
    if "--aomenc" in argv:
        return main_aom(argv)
    full = "--full" in argv
    verbose = "-v" in argv or full
    keep = "--keep" in argv
    only = [a for a in argv if not a.startswith("-")]
    cases = full_cases() if full else QUICK
    if only:
        cases = [c for c in cases if c[0] in only]
    work = tempfile.mkdtemp(prefix="av1parse_selftest_")
    t0 = time.time()
    bad = 0
    skipped = []
    try:
        with concurrent.futures.ThreadPoolExecutor(max_workers=8) as ex:
            futs = {ex.submit(run_case, n, c, work, full): n for n, c in cases}
            for fu in concurrent.futures.as_completed(futs):
                try:
                    res = fu.result()
                except Exception as e:      # noqa: BLE001
                    res = {"name": futs[fu], "fails": ["exception: %r" % e], "info": {}}
                if res.get("packets"):
                    nf = negative_tests(res["packets"])
                    res["fails"] = res["fails"] + nf
                    res["info"]["negative_tests"] = "failed" if nf else "passed"
                if res.get("skipped"):
                    skipped.append(res["name"])
                    print("SKIP %s: %s" % (res["name"], res["skipped"]))
                elif res["fails"]:
                    bad += 1
                    print("FAIL %s %s" % (res["name"], res["info"]))
                    for m in res["fails"][:12]:
                        print("     " + m)
                elif verbose:
                    print("ok   %s %s" % (res["name"], res["info"]))
    finally:
        if keep:
            print("kept " + work)
        else:
            shutil.rmtree(work, ignore_errors=True)
    if bad:
        print("av1parse selftest: %d of %d cases FAILED (%.1fs)" % (bad, len(cases), time.time() - t0))
        return 1
    if len(skipped) * 4 > len(cases):
        print("av1parse selftest: too many encoder timeouts: %s" % skipped)
        return 1
    print("OK (%d streams%s, %.1fs)" % (len(cases) - len(skipped),
                                        (", %d skipped: %s" % (len(skipped), ",".join(skipped))) if skipped else "",
                                        time.time() - t0))
    return 0


if __name__ == "__main__":
    sys.exit(main(sys.argv[1:]))
