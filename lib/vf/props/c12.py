"""C12 - parameter validation accepts exactly the documented parameter domain."""
import os
import subprocess

from .. import build, core

LEVEL = "exploration"
OK, BAD = 0x00000000, 0x80001005
H = "Source/API/EbSvtAv1Enc.h"
G = "Docs/svt-av1_encoder_user_guide.md"

# field -> (documented valid set as (lo, hi) inclusive, extra valid values, C type (bits, signed), citation)
# Only fields whose range the API header and the user guide state without contradicting each other.
R = {
    "enc_mode": ((0, 8), [], (8, True), G + " EncoderMode [0 - 8]; " + H + " MAX_ENC_PRESET 8"),
    "hierarchical_levels": ((0, 5), [], (32, False), G + " HierarchicalLevels [0 - 5]"),
    "intra_refresh_type": ((1, 2), [], (32, False), H + " 1 = CRA, 2 = IDR; " + G + " [1 - 2]"),
    "encoder_bit_depth": ((8, 8), [10], (32, False), H + " 8 = 8 bit, 10 = 10 bit; " + G + " [8 , 10]"),
    "qp": ((0, 63), [], (32, False), G + " QP [0 - 63]"),
    "rate_control_mode": ((0, 2), [], (32, False), H + " 0 CQP, 1 VBR, 2 CVBR; " + G + " [0 - 2]"),
    "max_qp_allowed": ((0, 63), [], (32, False), G + " MaxQpAllowed [0 - 63]"),
    "tile_rows": ((0, 6), [], (32, True), G + " TileRow [0-6]"),
    "look_ahead_distance": ((0, 120), [], (32, False), G + " LookAheadDistance [0 - 120]"),
    "disable_dlf_flag": ((0, 1), [], (8, False), G + " LoopFilterDisable [0-1]"),
    "enable_tpl_la": ((0, 1), [], (8, False), G + " EnableTPLModel [0-1]"),
    "cdef_level": ((-1, 5), [], (32, True), G + " CDEFLevel [0-5], -1 DEFAULT"),
    "enable_restoration_filtering": ((-1, 1), [], (32, True), G + " RestorationFilter [0-1], -1 DEFAULT"),
    "sg_filter_mode": ((-1, 4), [], (32, True), G + " SelfGuidedFilterMode [0-4], -1"),
    "wn_filter_mode": ((-1, 3), [], (32, True), G + " WienerFilterMode [0-3], -1"),
    "enable_mfmv": ((-1, 1), [], (32, True), G + " Mfmv [0-1], -1"),
    "enable_redundant_blk": ((-1, 1), [], (32, True), G + " RedundantBlock [0-1], -1"),
    "spatial_sse_full_loop_level": ((-1, 1), [], (32, True), G + " SpatialSSEfl [0-1], -1"),
    "over_bndry_blk": ((-1, 1), [], (32, True), G + " OverBoundryBlock [0-1], -1"),
    "new_nearest_comb_inject": ((-1, 1), [], (32, True), G + " NewNearestCombInjection [0-1], -1"),
    "nsq_table": ((-1, 1), [], (32, True), G + " NsqTable [0-1], -1"),
    "frame_end_cdf_update": ((-1, 1), [], (32, True), G + " FrameEndCdfUpdate [0-1], -1"),
    "set_chroma_mode": ((-1, 3), [], (32, True), H + " levels 0..3, -1 AUTO; " + G + " ChromaMode [0-3]"),
    "disable_cfl_flag": ((-1, 1), [], (32, True), G + " DisableCfl [0-1], -1"),
    "enable_warped_motion": ((-1, 1), [], (32, True), G + " LocalWarpedMotion [0-1], -1"),
    "enable_global_motion": ((0, 1), [], (8, False), G + " GlobalMotion [0-1]"),
    "pic_based_rate_est": ((-1, 1), [], (32, True), G + " PicBasedRateEst [0-1], -1"),
    "intra_angle_delta": ((-1, 1), [], (32, True), G + " IntraAngleDelta [0-1], -1"),
    "inter_intra_compound": ((-1, 1), [], (32, True), G + " InterIntraCompound [0-1], -1"),
    "enable_paeth": ((-1, 1), [], (32, True), G + " Paeth [0-1], -1"),
    "enable_smooth": ((-1, 1), [], (32, True), G + " Smooth [0-1], -1"),
    "mrp_level": ((-1, 9), [], (32, True), G + " MultiReferencePictures [0-9], -1"),
    "obmc_level": ((-1, 3), [], (8, True), H + " obmc_level table -1..3; " + G + " [0-3]"),
    "rdoq_level": ((-1, 1), [], (32, True), H + " -1 Default, 0, 1; " + G + " [0-1]"),
    "filter_intra_level": ((-1, 1), [], (8, True), H + " -1, 0, 1; " + G + " [0-1]"),
    "enable_intra_edge_filter": ((-1, 1), [], (32, True), G + " IntraEdgeFilter [0-1], -1"),
    "pred_me": ((-1, 5), [], (32, True), G + " PredMe [0-5], -1"),
    "bipred_3x3_inject": ((-1, 2), [], (32, True), G + " Bipred3x3 [0-2], -1"),
    "compound_level": ((-1, 2), [], (32, True), G + " CompoundLevel [0-2], -1"),
    "use_default_me_hme": ((0, 1), [], (8, False), G + " UseDefaultMeHme [0-1]"),
    "enable_hme_flag": ((0, 1), [], (8, False), G + " HME [0-1]"),
    "enable_hme_level0_flag": ((0, 1), [], (8, False), G + " HMELevel0 [0-1]"),
    "enable_hme_level1_flag": ((0, 1), [], (8, False), G + " HMELevel1 [0-1]"),
    "enable_hme_level2_flag": ((0, 1), [], (8, False), G + " HMELevel2 [0-1]"),
    "ext_block_flag": ((0, 1), [], (8, False), G + " ExtBlockFlag [0-1]"),
    "search_area_width": ((1, 480), [], (32, False), G + " SearchAreaWidth [1 - 480]"),
    "search_area_height": ((1, 480), [], (32, False), G + " SearchAreaHeight [1 - 480]"),
    "screen_content_mode": ((0, 2), [], (32, False), G + " ScreenContentMode [0 - 2]"),
    "enable_hbd_mode_decision": ((0, 2), [], (8, True), H + " 0,1,2; " + G + " [0-2]"),
    "palette_level": ((-1, 6), [], (32, True), H + " -1..6; " + G + " [-1 - 6]"),
    "unrestricted_motion_vector": ((0, 1), [], (8, False), G + " UnrestrictedMotionVector [0-1]"),
    "speed_control_flag": ((0, 1), [], (32, False), G + " SpeedControlFlag [0-1]"),
    "film_grain_denoise_strength": ((0, 50), [], (32, False), G + " FilmGrain [0-50]"),
    "tf_level": ((-1, 3), [], (8, True), H + " -1 Default; 0 OFF; 1 ON; 2 and 3; " + G + " [0-3]"),
    "altref_strength": ((0, 6), [], (8, False), G + " AltRefStrength [0-6]"),
    "altref_nframes": ((0, 10), [], (8, False), G + " AltRefNframes [0-10]"),
    "enable_overlays": ((0, 1), [], (8, False), G + " EnableOverlays [0-1]"),
    "stat_report": ((0, 1), [], (32, False), G + " StatReport [0-1]"),
    "high_dynamic_range_input": ((0, 1), [], (32, False), G + " HighDynamicRangeInput [0-1]"),
    "enable_adaptive_quantization": ((0, 2), [], (8, False), G + " AdaptiveQuantization [0 - 2]"),
    "target_socket": ((-1, 1), [], (32, True), H + " -1, 0, 1; " + G + " [-1,1]"),
    "unpin": ((0, 1), [], (32, False), H + " 1 unpinned 0 pinned; " + G + " [0, 1]"),
    "recode_loop": ((0, 3), [], (32, False), H + " 0..3; " + G + " [0 - 3]"),
    "vbr_bias_pct": ((0, 100), [], (32, False), H + " scale of 0 to 100; " + G + " [0 - 100]"),
    "under_shoot_pct": ((0, 100), [], (32, False), H + " 0-100; " + G + " [0 - 100]"),
    "is_16bit_pipeline": ((0, 1), [], (8, False), H + " 0: 8 bit pipeline 1: 16 bit pipeline; " + G + " [0 , 1]"),
    "source_width": ((64, 4096), [], (32, False), G + " SourceWidth [64 - 4096] (even values)"),
    "use_fixed_qindex_offsets": ((0, 1), [], (8, False), G + " UseFixedQIndexOffsets [0 - 1]"),
    "key_frame_qindex_offset": ((-256, 255), [], (32, True), G + " KeyFrameQIndexOffset [-256, 255]"),
    "key_frame_chroma_qindex_offset": ((-256, 255), [], (32, True), G + " KeyFrameChromaQIndexOffset [-256, 255]"),
}
# fields for which the two documents contradict each other or give no usable range: no verdict
AMBIGUOUS = {
    "source_height": "guide says [0 - 2304], code comment/behaviour says 64..2160, header gives no range",
    "tile_columns": "guide says [0-6]; AV1 limits (and the code) cap columns at 4 for the allowed widths; header gives no range",
    "pred_structure": "guide lists [0-2] but states only random access is supported elsewhere; header describes all three",
    "encoder_color_format": "guide lists [0-3]; header says Default 1 and the library supports 4:2:0 only",
    "profile": "header (1 = Main, 2 = Main 10) and guide ([0-2], 0 main) number the profiles differently",
    "intrabc_mode": "header lists 0..3 with -1 default; the guide's range has a typo ([-1 - 3]]) and repeats value 1",
    "over_shoot_pct": "header says 0-1000, guide says [0 - 100]",
    "min_qp_allowed": "guide [0 - 63]; the code rejects 63 (>= MAX_QP_VALUE) which may be intended since min <= max",
    "superres_mode": "header enum lists 5 modes, the code says only 0..2 are implemented",
    "scene_change_detection": "header says default 1, the library's default is 0 and 1 is rejected as not supported",
    "compressed_ten_bit_format": "guide [0-1], the library reports the feature as unsupported",
    "intra_period_length": "coupled with rate_control_mode (checked as a cross constraint)",
    "frame_rate": "two encodings (integer < 1000, else Q16) with different limits",
}


def probes(lo, hi, extra, bits, signed, rng):
    tmin = -(1 << (bits - 1)) if signed else 0
    tmax = (1 << (bits - 1)) - 1 if signed else (1 << bits) - 1
    vals = {lo, hi, lo - 1, hi + 1, 0, -1, 1, tmin, tmax, (lo + hi) // 2, hi + 2, lo - 2, hi + 10, tmax - 1}
    for e in extra:
        vals.update({e, e - 1, e + 1})
    for _ in range(6):
        vals.add(rng.randint(tmin, tmax))
        vals.add(rng.randint(lo - 8, hi + 8))
    out = []
    for v in sorted(vals):
        if v < tmin or v > tmax:
            continue
        out.append(v)
    return out


def run(chk, tier, replay=None):
    rng = chk.rng
    exe = build.harness("plain", "setparam")
    lines = ["source_width=640"]  # baseline: the defaults must be accepted
    meta = [("baseline", None, None, True, "library defaults with 640x480")]
    for f, ((lo, hi), extra, (bits, signed), cite) in sorted(R.items()):
        for v in probes(lo, hi, extra, bits, signed, rng):
            valid = (lo <= v <= hi) or v in extra
            pre = ""
            if f == "source_width" and v % 2:
                continue  # odd widths: 4:2:0 needs even sizes (guide), no verdict on odd values in range
            if f == "max_qp_allowed":
                pre = "rate_control_mode=1;min_qp_allowed=0;"
            if f in ("key_frame_qindex_offset", "key_frame_chroma_qindex_offset"):
                pre = "use_fixed_qindex_offsets=1;"
            if f == "look_ahead_distance":
                pre = "rate_control_mode=0;"
            if f == "hierarchical_levels":
                pre = "logical_processors=4;"
            lines.append("%s%s=%d" % (pre, f, v))
            meta.append((f, v, cite, valid, "single field"))
    # documented cross constraints
    cross = [
        ("rate_control_mode=1;min_qp_allowed=30;max_qp_allowed=20", False, "min_qp<=max_qp", H + " max_qp_allowed: 'has to be greater or equal to minQpAllowed'"),
        ("rate_control_mode=1;min_qp_allowed=20;max_qp_allowed=20", True, "min_qp<=max_qp", H),
        ("rate_control_mode=1;min_qp_allowed=20;max_qp_allowed=30", True, "min_qp<=max_qp", H),
        ("rate_control_mode=1;intra_period_length=119", True, "rc>=1: intra period [-2,255]", G + " IntraPeriod: 'if RateControlMode >= 1 intra-period limited to [-2, 255]'"),
        ("rate_control_mode=1;intra_period_length=256", False, "rc>=1: intra period [-2,255]", G),
        ("rate_control_mode=1;intra_period_length=-2", True, "rc>=1: intra period [-2,255]", G),
        ("rate_control_mode=0;intra_period_length=256", True, "rc=0: intra period [-2,2^31-2]", G + " IntraPeriod [-2 - 2^31-2]"),
        ("rate_control_mode=0;intra_period_length=-3", False, "intra period >= -2", G),
        ("rate_control_mode=0;intra_period_length=2147483646", True, "rc=0: intra period [-2,2^31-2]", G),
        ("screen_content_mode=1;intrabc_mode=1", True, "intrabc needs screen content", "Docs/Appendix-Intra-Block-Copy.md: 'enabled only when screen content is'"),
        ("screen_content_mode=0;intrabc_mode=1", False, "intrabc needs screen content", "Docs/Appendix-Intra-Block-Copy.md"),
    ]
    # pairs of individually documented tile values whose product stays within AV1's 128-tile limit
    for r_ in range(0, 7):
        for c_ in range(0, 5):
            if r_ + c_ <= 7 and (r_, c_) != (0, 0):
                cross.append(("source_width=1280;source_height=720;tile_rows=%d;tile_columns=%d" % (r_, c_), True,
                              "tile_rows x tile_columns", G + " TileRow [0-6], TileCol [0-6]; 2^(rows+cols) <= 128 tiles"))
    for ln, valid, name, cite in cross:
        lines.append(ln)
        meta.append(("cross:" + name, ln, cite, valid, "cross"))
    # metamorphic: a field the documents call unrelated never flips acceptance (channel_id, recon_enabled, stat_report)
    for ln in ["recon_enabled=1", "channel_id=3", "logical_processors=3", "stat_report=1;recon_enabled=1"]:
        lines.append(ln)
        meta.append(("unrelated", ln, "fields without a validity range", True, "unrelated"))
    r = core.run([exe], timeout=600, stdin=("\n".join(lines) + "\n").encode())
    got = [int(x, 16) for x in r.out.split()]
    if len(got) != len(lines):
        raise core.HarnessError("setparam answered %d of %d lines (rc=%s) %s" % (len(got), len(lines), r.rc, r.err[-300:]))
    accept = {}
    for (f, v, cite, valid, kind), rc, ln in zip(meta, got, lines):
        chk.count()
        if rc not in (OK, BAD):
            chk.violation("C12|unexpected-return|%s" % f, "set_parameter(%s) returned 0x%x" % (ln, rc), {"line": ln})
            continue
        acc = rc == OK
        if kind == "single field":
            accept.setdefault(f, {})[v] = acc
        if acc == valid:
            chk.nontrivial_case("%s=%s" % (f, v))
            continue
        if f == "baseline":
            chk.violation("C12|defaults-rejected", "library defaults are rejected", {"line": ln})
        elif kind == "cross":
            chk.violation("C12|cross|%s|%s" % (f[6:], "accepts-invalid" if acc else "rejects-valid"),
                          "%s: set_parameter %s it; documented: %s" % (ln, "accepts" if acc else "rejects", cite), {"line": ln})
        elif kind == "unrelated":
            chk.violation("C12|unrelated-field-flips-acceptance|%s" % ln, "%s rejected" % ln, {"line": ln})
        else:
            (lo, hi) = R[f][0]
            side = ("below" if v < lo else "above") if acc else "inside"
            chk.violation("C12|%s|%s|%s" % ("accepts-out-of-range" if acc else "rejects-documented-value", f, side),
                          "%s=%d is %s; documented range [%d,%d]%s (%s)" % (f, v, "accepted" if acc else "rejected", lo, hi,
                                                                         (" + %s" % R[f][1]) if R[f][1] else "", cite), {"line": ln})
    # metamorphic: the accepted set of a range parameter is an interval (no documentation needed)
    for f, m in accept.items():
        if R[f][1]:
            continue
        vs = sorted(m)
        accs = [v for v in vs if m[v]]
        if accs:
            inside = [v for v in vs if accs[0] <= v <= accs[-1]]
            holes = [v for v in inside if not m[v]]
            if holes:
                chk.violation("C12|accepted-set-not-an-interval|%s" % f, "%s: accepted %s but rejected %s in between" % (f, accs[:6], holes[:6]))
    chk.extra["fields_with_rules"] = len(R)
    chk.extra["doc_ambiguous_fields_no_verdict"] = AMBIGUOUS
    chk.sample({"line": lines[5], "returned": "0x%08x" % got[5], "documented_valid": meta[5][3], "citation": meta[5][2]})
    chk.sample({"line": lines[-8], "returned": "0x%08x" % got[-8], "documented_valid": meta[-8][3]})
    return chk.finish(
        rule="one fresh handle per configuration; single-field perturbations of the library defaults over boundaries, one past, "
             "0, -1, type min/max and random values for every field whose range the API header and the user guide state "
             "consistently (rule table with citations), documented cross constraints, unrelated-field and interval metamorphic "
             "checks. non-trivial = probe whose acceptance matched the documented predicate; distinct = (field, value)")
