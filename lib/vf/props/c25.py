"""C25 - the entropy coder round-trips every symbol sequence.

White-box harness /verif/harness/ecrt.c: the real writer (EbBitstreamUnit.c/.h, update_cdf) against the real
reader of the decoder (EbDecBitReader.h / EbDecBitstreamUnit.h, dec_update_cdf).  Oracle per sequence:
decoded == written; reader CDFs == writer CDFs after every symbol; svt_od_ec_enc_tell never decreases;
bytes emitted by done <= ceil(tell / 8) (from the code: tell = cnt + 10 + 8*offs and done emits
offs + ceil((cnt + 10) / 8) bytes, cnt in [-9,-1], so the unchanged tree shows equality; the assertion is the
one-sided "never under-reports")."""
import os
import shlex

from .. import build, core, sanlog

LEVEL = "exploration"

SUM_KEYS = ("sequences", "ops_sym", "ops_cdf", "ops_bool", "ops_boolq15", "ops_lit", "lit_bits", "bytes", "len0", "len1",
            "carry_events", "carry_seqs", "grow_precarry", "grow_buf", "grow_api", "tell_eq", "tell_slack", "cdf_updates",
            "cdf_compares", "var0", "var1", "var2", "var3", "profile0", "profile1", "profile2", "profile3", "fails")
MAX_KEYS = ("max_len", "max_bytes", "max_carry_chain", "ctx_used")


def _harness(flavour):
    # the reader is header-inline, the writer lives in Common: the encoder archive is all that is needed
    return build.harness(flavour, "ecrt", sources=["ecrt.c"], link="wb", libs=("enc",))


def plan(chk, tier):
    """-> list of (flavour, argv list, label)"""
    rng = chk.rng
    quick = tier == "quick"
    scale = max(0.05, float(getattr(chk, "scale", 1)))
    jobs = []

    def exh(fl, alpha, maxlen, parts):
        for adapt in (0, 1):
            for p in range(parts):
                jobs.append((fl, ["exh", alpha, str(maxlen), str(adapt), "-1", str(p), str(parts)],
                             "exh-%s%d-a%d" % (alpha, maxlen, adapt)))

    def rand(fl, nseq, minlen, maxlen, var=-1, profile=-1, adapts=(0, 1), label="rand"):
        for adapt in adapts:
            seed = rng.getrandbits(31)
            jobs.append((fl, ["rand", str(seed), str(max(1, int(nseq))), str(minlen), str(maxlen), str(adapt), str(var),
                              str(profile)], "%s-a%d" % (label, adapt)))

    if quick:
        exh("plain", "W", 4, 3)  # 67^4 = 20 M sequences per adaptation setting
        exh("plain", "N", 5, 1)  # 22^5 = 5 M
        rand("plain", 400, 0, 1, label="rand-len01")
        for _ in range(2):
            rand("plain", 3000 * scale, 0, 2000, label="rand-short")
        rand("plain", 40 * scale, 2000, 200000, label="rand-long")
        for prof in range(4):
            rand("plain", 1, 200000, 200000, var=3 if prof & 1 else rng.randrange(3), profile=prof,
                 label="rand-max-p%d" % prof)
        # reduced, under ASan + UBSan
        exh("asan", "N", 4, 1)
        exh("asan", "W", 2, 1)
        rand("asan", 100, 0, 1, label="rand-len01")
        rand("asan", 600 * scale, 0, 2000, label="rand-short")
        for var in range(4):
            rand("asan", 1, 60000, 60000, var=var, profile=var, adapts=(var & 1,), label="rand-max-v%d" % var)
    else:
        exh("plain", "N", 6, 6)  # 22^6 = 113 M per adaptation setting
        exh("plain", "W", 5, 12)  # 67^5 = 1.35 G per adaptation setting
        rand("plain", 2000, 0, 1, label="rand-len01")
        for _ in range(8):
            rand("plain", 25000 * scale, 0, 5000, label="rand-short")
        for _ in range(4):
            rand("plain", 100 * scale, 2000, 2000000, label="rand-long")
        for prof in range(4):
            for var in range(4):
                rand("plain", 1, 2000000, 2000000, var=var, profile=prof, adapts=((prof + var) & 1,),
                     label="rand-max-p%dv%d" % (prof, var))
        exh("asan", "N", 5, 2)
        exh("asan", "W", 3, 1)
        rand("asan", 400, 0, 1, label="rand-len01")
        for _ in range(2):
            rand("asan", 5000 * scale, 0, 5000, label="rand-short")
        for var in range(4):
            rand("asan", 1, 2000000, 2000000, var=var, profile=var, adapts=(var & 1,), label="rand-max-v%d" % var)
    return jobs


def parse(out):
    stats, fails = {}, []
    for ln in out.splitlines():
        if ln.startswith("STAT "):
            k, _, v = ln[5:].partition("=")
            try:
                stats[k] = int(v)
            except ValueError:
                pass
        elif ln.startswith("FAIL "):
            d = {}
            try:
                for tok in shlex.split(ln[5:]):
                    k, _, v = tok.partition("=")
                    d[k] = v
            except ValueError:
                d = {"kind": "unparsed", "detail": ln}
            fails.append(d)
    return stats, fails


def run(chk, tier, replay=None):
    if replay:
        c = replay["case"]["case"]
        jobs = [(c["flavour"], shlex.split(c["argv"]), "replay")]
    else:
        jobs = plan(chk, tier)
    exes = {fl: _harness(fl) for fl in sorted(set(j[0] for j in jobs))}

    def one(ij):
        i, (fl, argv, label) = ij
        prefix = os.path.join(chk.dir, "j%03d" % i)
        env = sanlog.env_for(fl, prefix) if fl != "plain" else None
        res = core.run([exes[fl]] + argv, timeout=7200, env=env)
        reports = sanlog.collect(prefix) if fl != "plain" else []
        if fl != "plain" and not reports:
            reports = sanlog.parse_stderr(fl, res.err)
        return fl, argv, label, res, reports

    results = core.pmap(one, list(enumerate(jobs)), workers=max(2, min(6, core.default_workers())))

    tot = {}
    seen_keys = set()
    for fl, argv, label, res, reports in results:
        case = {"flavour": fl, "argv": " ".join(argv)}
        stats, fails = parse(res.out)
        if res.timed_out:
            chk.inconclusive_case("watchdog: ecrt %s (%s)" % (" ".join(argv), fl), case)
            continue
        for key, excerpt in reports:
            chk.violation("C25|%s" % key, "sanitizer report in the entropy coder round trip (%s, ecrt %s): %s"
                          % (fl, " ".join(argv), excerpt[:400]), case)
        if res.rc < 0 or res.rc > 2:
            chk.violation("C25|crash|%s" % argv[0], "ecrt %s (%s) died with status %d: %s"
                          % (" ".join(argv), fl, res.rc, res.err[-300:]), case)
            continue
        if res.rc == 2 or "sequences" not in stats:
            raise core.HarnessError("ecrt %s (%s) failed: rc=%d %s" % (" ".join(argv), fl, res.rc, res.err[-400:]))
        if (res.rc == 1) != bool(fails):
            raise core.HarnessError("ecrt %s: exit status %d inconsistent with %d FAIL lines" % (argv, res.rc, len(fails)))
        for f in fails:
            key = "C25|%s|%s|adapt%s" % (f.get("kind", "?"), f.get("optype", "?"), f.get("adapt", "?"))
            what = ("%s at operation %s (%s) of the sequence 'ecrt %s' [%s build, writer variant %s, adaptation %s]: %s"
                    % (f.get("kind"), f.get("op"), f.get("optype"), f.get("replay"), fl, f.get("var"), f.get("adapt"),
                       f.get("detail")))
            if key in seen_keys:  # one replay file per key: the first failing sequence
                chk.bump("further_failing_sequences_same_key")
                continue
            seen_keys.add(key)
            chk.violation(key, what, {"flavour": fl, "argv": f.get("replay", " ".join(argv))})
        # ---- evidence: what the monitors observed
        for k in SUM_KEYS:
            if k in stats:
                tot[k] = tot.get(k, 0) + stats[k]
                chk.bump(("asan_" if fl != "plain" else "") + k, stats[k])
        for k in MAX_KEYS:
            if k in stats:
                kk = ("asan_" if fl != "plain" else "") + k
                chk.extra[kk] = max(chk.extra.get(kk, 0), stats[k])
        nops = sum(stats.get(k, 0) for k in ("ops_sym", "ops_cdf", "ops_bool", "ops_boolq15", "ops_lit"))
        chk.count(stats.get("sequences", 0))
        chk.bump("operations_round_tripped", nops)
        if argv[0] == "exh":
            chk.note_set("exhaustive_parts", "%s build: alphabet %s (%d operations over %d CDF tables), all sequences of "
                         "length <= %s, adaptation %s" % (fl, argv[1], stats.get("alphabet_ops", 0),
                                                          stats.get("cdf_tables", 0), argv[2], argv[3]))
        if argv[0] in ("rand", "rand1"):
            chk.note_set("cdf_bank_seeds", argv[1])
            chk.bump("distinct_cdf_tables_random", stats.get("cdf_tables", 0) if argv[0] == "rand" else 0)
        if stats.get("sequences", 0) and (stats.get("carry_events", 0) or stats.get("cdf_updates", 0) or nops > 1000):
            chk.nontrivial_case("%s/%s/%s" % (fl, label, " ".join(argv[1:4])))
        if len(chk.samples) < 6 and stats.get("sequences", 0):
            chk.sample({"build": fl, "ecrt": " ".join(argv), "sequences": stats.get("sequences"), "operations": nops,
                        "bytes": stats.get("bytes"), "carry_events": stats.get("carry_events"),
                        "max_carry_chain": stats.get("max_carry_chain"), "max_len": stats.get("max_len")})

    chk.extra["tell_bound"] = ("nbytes <= ceil(tell/8) checked on every sequence; equality observed on %d, slack on %d"
                               % (tot.get("tell_eq", 0), tot.get("tell_slack", 0)))
    return chk.finish(
        rule="evaluations = sequences written by the real writer and read back by the real reader with every oracle "
             "checked (values, per-symbol CDF equality, tell monotone, bytes <= ceil(tell/8)). Exhaustive part: every "
             "sequence of length 0..L over the listed operation alphabets (symbols of 11 valid CDF tables with 2,3,4,5,8,"
             "13,16 symbols incl. 1/32768 probabilities, bools with 8-bit and Q15 probabilities incl. the extremes, "
             "literals), with and without adaptation, writer variants (initial buffer 0/2/1024 bytes, "
             "aom_start/stop_encode) rotated. Random part: banks of 96 valid random CDF tables (every size 2..16, "
             "uniform / near-certain first / last / single symbol / adjacent values / 64-boundaries, counters 0..32), "
             "profiles uniform, drawn-from-CDF, most-probable-runs-then-improbable, and target code words "
             "b 00^k 01 that force carry chains of k bytes; lengths log-uniform from 0 to the tier maximum. "
             "carry_events / max_carry_chain are counted in the writer's pre-carry buffer; grow_* count buffer "
             "reallocations. A job is non-trivial when it saw carries, CDF updates or > 1000 operations.",
        min_evaluations=1000 if not replay else 1)
