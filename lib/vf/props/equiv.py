"""Metamorphic equality engine shared by C04 C05 C06 C13 C21 C27: run one (config, input) under variants that the
property says must not matter, and require byte-identical packets (+ metadata) and recon pictures."""
import hashlib
import json
import os

from .. import cfggen, core, enc
from . import common


def output_sig(res, prefix, with_recon=True, meta_fields=("size", "pts", "dts", "flags", "pic_type", "qp")):
    """-> dict of hashes describing everything the encoder delivered."""
    h = hashlib.sha256()
    try:
        pk = enc.read_ivf(prefix + ".ivf")
    except (OSError, ValueError):
        pk = []
    for pts, data in pk:
        h.update(pts.to_bytes(8, "little", signed=True))
        h.update(len(data).to_bytes(4, "little"))
        h.update(data)
    hm = hashlib.sha256()
    for p in res.pkts:
        hm.update(json.dumps([p.get(f) for f in meta_fields]).encode())
    sig = {"packets": h.hexdigest()[:24], "meta": hm.hexdigest()[:24], "npackets": len(pk)}
    if with_recon:
        hr = hashlib.sha256()
        fr = sorted(core.read_frames(prefix + ".recon"), key=lambda x: x[0]) if os.path.exists(prefix + ".recon") else []
        for key, w, hh, bd, data in fr:
            hr.update(("%d %d %d %d" % (key, w, hh, bd)).encode())
            hr.update(data)
        sig["recon"] = hr.hexdigest()[:24]
        sig["nrecon"] = len(fr)
    return sig


def first_packet_diff(prefix_a, prefix_b):
    try:
        a = enc.read_ivf(prefix_a + ".ivf")
        b = enc.read_ivf(prefix_b + ".ivf")
    except (OSError, ValueError):
        return "ivf unreadable"
    if len(a) != len(b):
        return "%d vs %d packets" % (len(a), len(b))
    for i, (x, y) in enumerate(zip(a, b)):
        if x != y:
            return "first differing packet %d (sizes %d vs %d)" % (i, len(x[1]), len(y[1]))
    return "packets equal"


class Variant:
    def __init__(self, label, over=None, sched=None, env=None, flavour="plain", drop=()):
        self.label, self.over, self.sched, self.env, self.flavour, self.drop = label, over or {}, sched, env, flavour, drop


def run_groups(chk, pid, groups, key_of, hang_in_scope=True, completion_required=None, with_recon=True,
               collect_san=False, trace=False, per_result=None, confirm_baseline=True, differs_key=None):
    """groups: list of (base_case, [Variant...]); the first variant is the reference.
    key_of(base_case, variant, kind) -> violation key.
    differs_key(base_case, variant, n_differing, n_compared) -> key for an output difference (optional; lets a check
    name how many of the group's variants differed, e.g. to keep a rare and a systematic difference apart).
    completion_required(variant) -> bool: whether a non-terminating run of this variant is a violation."""
    jobs = []
    for gi, (base, variants) in enumerate(groups):
        for vi, v in enumerate(variants):
            jobs.append((gi, vi, base, v))

    def one(job):
        gi, vi, base, v = job
        case = dict(base)
        case.update(v.over)
        for d in v.drop:
            case.pop(d, None)
        prefix = os.path.join(chk.dir, "g%03d_v%02d" % (gi, vi))
        short = common.known_hang_region(case)
        res = enc.run_case(v.flavour, case, prefix, sched=v.sched, env=v.env, trace=trace,
                           timeout=30 if short else None)
        if res.timed_out and not short:
            enc.cleanup(prefix)
            res2 = enc.run_case(v.flavour, case, prefix, sched=v.sched, env=v.env, trace=trace)
            res2.first_timed_out = True
            res = res2
        sig = None
        if not res.timed_out and res.res is not None and not res.res.get("api_error") and not enc.crashed(res):
            sig = output_sig(res, prefix, with_recon=with_recon)
        extra = per_result(case, v, res, prefix) if per_result else None
        keep = res.timed_out or sig is None
        return gi, vi, case, v, res, sig, prefix, extra

    results = core.pmap(one, jobs)
    bygroup = {}
    for r in results:
        bygroup.setdefault(r[0], []).append(r)
    # A difference is attributed to a variant only if the reference reproduces itself in three more runs under perturbed
    # schedules and the variant never reproduces the reference in three more runs (schedule-dependent output is C04's
    # subject, not this property's).
    unstable = set()
    if confirm_baseline:
        todo = []
        for gi in sorted(bygroup):
            rs = sorted(bygroup[gi], key=lambda r: r[1])
            if rs[0][5] is not None and any(r[5] is not None and r[5] != rs[0][5] for r in rs[1:]):
                todo.append(gi)

        def again(gi):
            """re-run the reference and every differing variant 3 more times under perturbed schedules"""
            rs = sorted(bygroup[gi], key=lambda r: r[1])
            base, variants = groups[gi]
            stable = True
            idxs = [0] + [r[1] for r in rs[1:] if r[5] is not None and r[5] != rs[0][5]][:3]
            for vi in idxs:
                v = variants[vi]
                first = rs[vi][5] if vi < len(rs) else None
                for rep in range(3):
                    case = dict(base)
                    case.update(v.over)
                    prefix = os.path.join(chk.dir, "g%03d_v%02d_again%d" % (gi, vi, rep))
                    res = enc.run_case(v.flavour, case, prefix, sched=v.sched or "%d:100:300" % (gi * 7 + rep + 1), env=v.env)
                    sig = output_sig(res, prefix, with_recon=with_recon) if (res.res and not res.res.get("api_error")
                                                                              and not res.timed_out) else None
                    enc.cleanup(prefix)
                    # the reference must reproduce itself; a variant must never reproduce the reference (if it
                    # sometimes does, the difference cannot be attributed to the variant)
                    if sig is not None:
                        if vi == 0 and sig != first:
                            stable = False
                        if vi != 0 and sig == rs[0][5]:
                            stable = False
            return gi, stable
        for gi, stable in core.pmap(again, todo):
            if not stable:
                unstable.add(gi)
    for gi in sorted(bygroup):
        rs = sorted(bygroup[gi], key=lambda r: r[1])
        base = groups[gi][0]
        ref = rs[0]
        ref_sig = ref[5]
        if gi in unstable:
            chk.count(len(rs))
            chk.inconclusive_case("reference run of this configuration is not reproducible (schedule-dependent output, "
                                  "C04's subject): differences cannot be attributed to the variants", base)
            continue
        rres = ref[4]
        if (ref_sig is None and not rres.timed_out and not (rres.res and rres.res.get("api_error") == 2)
                and (enc.crashed(rres) or rres.res is None)):
            # the configuration crashes the encoder without any variant applied: nothing can be compared, and the crash
            # itself is C11's subject
            chk.count(len(rs))
            chk.bump("groups_whose_reference_crashed")
            chk.inconclusive_case("the reference run of this configuration crashed (rc=%s): no output to compare the variants "
                                  "with; crashes of the unmodified configuration are C11's subject [%s]"
                                  % (rres.rc, common.feature_sig(base)), base)
            continue
        group_ok = True
        nvar = 0
        diffs = []
        for (g, vi, case, v, res, sig, prefix, extra) in rs:
            chk.count()
            if collect_san:
                for k, ex in res.san:
                    chk.violation("%s|%s" % (pid, k), ex, case)
                    chk.bump("sanitizer_reports")
            if res.res and res.res.get("api_error") == 2:
                chk.bump("rejected_config_draws")
                group_ok = False
                continue
            if res.timed_out:
                need = completion_required(v) if completion_required else hang_in_scope
                if need:
                    chk.violation(key_of(base, v, "hang"), "variant '%s' did not terminate within the watchdog twice; "
                                  "boundary log tail: %s" % (v.label, common.log_tail(prefix)), case)
                else:
                    chk.bump("variants_not_completed")
                group_ok = False
                continue
            if sig is None:
                chk.violation(key_of(base, v, "crash"), "variant '%s': encoder failed rc=%s %s %s"
                              % (v.label, res.rc, (res.res or {}).get("errmsg"), res.stderr[-300:]), case)
                group_ok = False
                continue
            chk.bump("sched_points_executed", int((res.res or {}).get("sched_points", 0)))
            if vi == 0:
                continue
            if ref_sig is None:
                continue
            nvar += 1
            if sig != ref_sig:
                what = []
                for f in ("packets", "meta", "recon", "npackets", "nrecon"):
                    if sig.get(f) != ref_sig.get(f):
                        what.append(f)
                diffs.append((v, "variant '%s' output differs from reference '%s' in %s; %s"
                              % (v.label, rs[0][3].label, what, first_packet_diff(rs[0][6], prefix)),
                              {"base": base, "reference": rs[0][3].label, "variant": v.label, "over": v.over,
                               "sched": v.sched}))
                group_ok = False
        if diffs:
            # how many runs of the group (reference included) deviate from the most frequent output: a reference that
            # happened to be the odd one out makes every variant "differ" although the outputs agree with each other
            import collections
            allsigs = [json.dumps(r[5], sort_keys=True) for r in rs if r[5] is not None]
            mode_n = collections.Counter(allsigs).most_common(1)[0][1]
            n_out, n_all = len(allsigs) - mode_n, len(allsigs)
        for v, what, info in diffs:
            key = differs_key(base, v, n_out, n_all) if differs_key else key_of(base, v, "differs")
            chk.violation(key, what + " [%d of %d variants differ from the reference; %d of %d runs deviate from the most "
                          "frequent output]" % (len(diffs), nvar, n_out, n_all), info)
        if group_ok and ref_sig is not None and nvar:
            if ref_sig.get("npackets", 0) >= 2:
                chk.nontrivial_case(core.sha(cfggen.case_ident(base)))
            chk.bump("variant_outputs_equal", nvar)
            chk.sample({"base": {k: base[k] for k in sorted(base) if k != "out"},
                        "variants": [r[3].label for r in rs], "output_hash": ref_sig}, limit=3)
            for r in rs:
                enc.cleanup(r[6])
    return results
