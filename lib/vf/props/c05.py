"""C05 - output does not depend on the number of threads or core pinning."""
from .. import cfggen
from . import common, equiv

LEVEL = "exploration"


def configs(rng, tier):
    t = cfggen.tiny_case
    out = [
        t(rng, frames=12, width=192, height=128, content="mix"),
        t(rng, frames=9, width=352, height=288, content="pan", **{"cfg.tile_columns": 1, "cfg.tile_rows": 1}),
        t(rng, frames=17, width=130, height=74, content="rects", bitdepth=10),
        t(rng, frames=10, width=320, height=180, content="zoom", **{"cfg.enc_mode": 5}),
        t(rng, frames=20, width=128, height=96, content="cuts", **{"cfg.look_ahead_distance": 17, "cfg.enable_tpl_la": 1}),
        t(rng, frames=8, width=640, height=360, content="pan", **{"cfg.enc_mode": 8}),
    ]
    if tier != "quick":
        for _ in range(54):
            c = cfggen.gen_case(rng, quick=True, allow_slow=rng.random() < 0.2)
            c.pop("cfg.logical_processors", None)
            if int(c.get("cfg.pic_based_rate_est", -1)) == 1:
                c["cfg.pic_based_rate_est"] = -1  # documented as "only active with lp 1"
            out.append(c)
        out.append(t(rng, frames=3, width=1920, height=1080, content="pan"))
    for c in out:
        c.pop("cfg.logical_processors", None)
    return out


def run(chk, tier, replay=None):
    rng = chk.rng
    quick = tier == "quick"
    lps = [1, 2, 3, 4, 6, 8, 12, 16]
    groups = []
    for base in configs(rng, tier):
        vs = [equiv.Variant("lp=1", {"cfg.logical_processors": 1})]
        for lp in lps[1:]:
            vs.append(equiv.Variant("lp=%d" % lp, {"cfg.logical_processors": lp}))
        vs.append(equiv.Variant("lp=4 pinned", {"cfg.logical_processors": 4, "cfg.unpin": 0}))
        vs.append(equiv.Variant("lp=4 socket0", {"cfg.logical_processors": 4, "cfg.target_socket": 0}))
        vs.append(equiv.Variant("lp=0 (all) pinned socket0", {"cfg.logical_processors": 0, "cfg.unpin": 0, "cfg.target_socket": 0}))
        if not quick:
            vs.append(equiv.Variant("lp=8 pinned socket0", {"cfg.logical_processors": 8, "cfg.unpin": 0, "cfg.target_socket": 0}))
        groups.append((base, vs))
    key_of = lambda base, v, kind: "C05|%s|%s" % (
        {"differs": "output-depends-on-threads", "hang": "encode-hang", "crash": "encoder-crash"}[kind],
        (common.hang_sig(dict(base, **v.over)) if kind == "hang" else common.feature_sig(base)))
    equiv.run_groups(chk, "C05", groups, key_of, hang_in_scope=True)
    chk.extra["logical_processor_values"] = lps + [0]
    return chk.finish(
        rule="each configuration encoded with logical_processors in {1,2,3,4,6,8,12,16,0} and pinning/socket variants; "
             "hashes of packets+metadata+recon must equal the lp=1 run. non-trivial = configuration with >= 2 packets "
             "for which every variant completed and matched")
