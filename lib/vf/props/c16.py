"""C16 - allocation and OS-resource failures are reported and unwound cleanly.

Oracle (harness/faultinj.c, white-box link of the `asan` flavour with --wrap of malloc/calloc/realloc/posix_memalign/
pthread_create/sem_init/pthread_mutex_init): run 0 numbers every allocation / OS-object creation the API-calling thread
performs inside init_handle, set_parameter, init (decoder: + the first svt_av1_dec_frame) and records the call stack of
each; the numbering is verified to be deterministic by running run 0 twice (multi-threaded decode: only up to the last
thread creation, after which the API thread shares work with the workers).  Run k fails exactly the k-th one in a forked
child (harness/faultinj.c forks it off an unfaulted "trunk" session right before event k while the process is still
single-threaded, otherwise replays the session from the start).  Reports, leaks and live counters the UNFAULTED session
already shows (other properties' findings) are subtracted.  Then
  * the API call in which the failure was injected returns != EB_ErrorNone,
  * teardown as the sample application does it (handle exists -> deinit + deinit_handle) returns,
  * no AddressSanitizer report, no signal, no dead-lock,
  * H8 live-resource counters are back to zero, thread census back to the initial value, LeakSanitizer clean.

What "a mutex / semaphore creation fails" means here: svt_create_mutex()/svt_create_semaphore() fail exactly when
their malloc fails (that is enumerated like any other allocation, call site = the constructor that asked for the
object). pthread_mutex_init / sem_init themselves cannot fail on glibc for the arguments the library uses, and the
library ignores their return value; they are numbered (evidence) and a handful per API is failed as well - the
resulting `returns-success` outcome is keyed on the generic wrapper (`svt_create_mutex:pthread_mutex_init`).

Keys: C16|<api>|<failing call-site function>|<crash function | KIND:function | returns-success | leak | hang>
"""
import collections
import json
import os
import re
import subprocess
import sys

from .. import build, core, sanlog

LEVEL = "fault_enumeration"

WRAP = ("-Wl,--wrap=malloc,--wrap=calloc,--wrap=realloc,--wrap=posix_memalign,--wrap=pthread_create,"
        "--wrap=sem_init,--wrap=pthread_mutex_init -no-pie -rdynamic")
KINDS = ["malloc", "calloc", "realloc", "posix_memalign", "pthread_create", "sem_init", "pthread_mutex_init"]
OSINIT = (5, 6)
API = {"enc": ["init_handle", "set_parameter", "init"],
       "dec": ["dec_init_handle", "dec_set_parameter", "dec_init", "dec_frame"]}
API_FN = {"enc": ("svt_av1_enc_init_handle", "svt_av1_enc_set_parameter", "svt_av1_enc_init"),
          "dec": ("svt_av1_dec_init_handle", "svt_av1_dec_set_parameter", "svt_av1_dec_init", "svt_av1_dec_frame")}
# generic creation wrappers: the call site that matters is their caller
GENERIC = {"svt_create_mutex", "svt_create_semaphore", "svt_create_thread", "svt_aom_memalign", "svt_aom_malloc",
           "svt_aom_calloc", "svt_aom_memset16", "fi_event"}
CORPUS_KEYS = os.path.join(build.VERIF, "corpus", "c16_campaign_keys.json")


def exe(which):
    return build.harness("asan", "faultinj_" + which, sources=["faultinj.c"], link="wb", libs=(which,),
                         extra_cflags="-DFI_DEC" if which == "dec" else "", extra_ldflags=WRAP)


def fi_env():
    return {
        "ASAN_OPTIONS": "halt_on_error=0:detect_leaks=1:allocator_may_return_null=1:handle_abort=1:print_summary=1:"
                        "symbolize=0:detect_stack_use_after_return=0:malloc_context_size=12",
        # (ASan and UBSan share one runtime: symbolize=0 applies to both; reports are symbolized offline, in one
        # addr2line call per batch, instead of one llvm-symbolizer process per crashing child)
        "UBSAN_OPTIONS": "print_stacktrace=0:halt_on_error=0:symbolize=0",
        "LSAN_OPTIONS": "print_suppressions=0",
        "ASAN_SYMBOLIZER_PATH": "/usr/bin/llvm-symbolizer-14",
    }


# ------------------------------------------------------------------ run 0
class Event:
    __slots__ = ("k", "phase", "kind", "chain", "site", "site_fn", "chain_fns")


def symbolize(path, addrs):
    """addr (hex str, a return address) -> list of function names, innermost inlined first"""
    addrs = sorted(addrs)
    if not addrs:
        return {}
    inp = "\n".join(hex(int(a, 16) - 1) for a in addrs) + "\n"
    r = subprocess.run(["addr2line", "-f", "-i", "-a", "-e", path], input=inp, stdout=subprocess.PIPE,
                       stderr=subprocess.DEVNULL, text=True)
    out = {}
    cur = None
    lines = r.stdout.split("\n")
    i = 0
    order = []
    while i < len(lines):
        ln = lines[i]
        if ln.startswith("0x"):
            cur = []
            order.append(cur)
            i += 1
            continue
        if cur is not None and ln and i + 1 < len(lines):
            cur.append(ln.strip())
            i += 2
            continue
        i += 1
    for a, fns in zip(addrs, order):
        out[a] = fns or ["??"]
    return out


_raw_frame = re.compile(r"^(\s*#(\d+) 0x([0-9a-f]+))\s+\((\S+?)\+0x[0-9a-f]+\).*$", re.M)


def symbolize_reports(path, texts):
    """Rewrite the unsymbolized sanitizer stack frames of the executable `path` in every text as
    `#N 0xADDR in FUNCTION FILE:LINE` (the form lib/vf/sanlog.py parses)."""
    want = set()
    for t in texts:
        for m in _raw_frame.finditer(t):
            if m.group(4) == path:
                a = int(m.group(3), 16)
                want.add("%x" % (a + 1 if m.group(2) == "0" else a))  # symbolize() looks up addr-1
    if not want:
        return texts
    inp = "\n".join(hex(int(a, 16) - 1) for a in sorted(want)) + "\n"
    r = subprocess.run(["addr2line", "-f", "-i", "-a", "-e", path], input=inp, stdout=subprocess.PIPE,
                       stderr=subprocess.DEVNULL, text=True)
    table = {}
    cur = None
    lines = r.stdout.split("\n")
    i = 0
    order = []
    while i < len(lines):
        ln = lines[i]
        if ln.startswith("0x"):
            cur = []
            order.append(cur)
            i += 1
        elif cur is not None and ln and i + 1 < len(lines):
            cur.append((ln.strip(), lines[i + 1].strip()))
            i += 2
        else:
            i += 1
    for a, fr in zip(sorted(want), order):
        table[a] = fr

    def rep(m):
        if m.group(4) != path:
            return m.group(0)
        a = int(m.group(3), 16)
        fr = table.get("%x" % (a + 1 if m.group(2) == "0" else a))
        if not fr:
            return m.group(0)
        # innermost inlined function first: one line per inlined frame, as llvm-symbolizer prints them
        return "\n".join("%s in %s %s" % (m.group(1), fn, loc) for fn, loc in fr)

    return [_raw_frame.sub(rep, t) for t in texts]


def run_sites(which, prefix, opts):
    """-> (events, info dict).  Raises HarnessError when run 0 itself misbehaves."""
    x = exe(which)
    r = core.run([x, prefix, "sites"] + opts, timeout=900, env=fi_env())
    info = {}
    try:
        info = json.load(open(prefix + ".sites.res"))
    except (OSError, ValueError):
        pass
    if r.timed_out or r.rc != 0 or "done;" not in info.get("progress", ""):
        raise core.HarnessError("faultinj %s run 0 failed: rc=%s timeout=%s progress=%r stderr=%s"
                                % (which, r.rc, r.timed_out, info.get("progress"), r.err[-600:]))
    rows = []
    for ln in open(prefix + ".sites"):
        f = ln.split()
        if len(f) < 4:
            continue
        rows.append((int(f[0]), int(f[1]), int(f[2]), f[3:]))
    # keep only addresses of the executable (-no-pie: below 0x10000000); shared-library frames vary with ASLR
    addrs = set()
    for _, _, _, fr in rows:
        for a in fr:
            if len(a) <= 8:
                addrs.add(a)
    sym = symbolize(x, addrs)
    apis = set(API_FN[which])
    events = []
    for k, ph, kind, fr in rows:
        e = Event()
        e.k, e.phase, e.kind = k, ph, kind
        chain = []
        fns = []
        for a in fr:
            if len(a) > 8:
                break
            names = [n for n in sym.get(a, ["??"]) if not n.startswith("__wrap_") and n != "fi_event"]
            if not names:
                continue
            chain.append(a)
            fns.extend(names)
            if names[-1] in apis:
                break
        e.chain = tuple(chain)
        e.chain_fns = tuple(fns)
        site = None
        for fn in fns:
            if fn not in GENERIC:
                site = fn
                break
        if kind in OSINIT:
            # the library's reaction to an OS init failure is decided inside the generic wrapper
            site = "%s:%s" % (fns[0] if fns else "?", KINDS[kind])
        e.site_fn = site or "?"
        # call site = address of the first non-generic frame (+ kind: one line can hold several primitives)
        sa = None
        for a in chain:
            names = [n for n in sym.get(a, ["??"]) if not n.startswith("__wrap_")]
            if not all(n in GENERIC for n in names):
                sa = a
                break
        e.site = (ph, kind, sa or (chain[0] if chain else "?"))
        events.append(e)
    pf = parse_progress(info.get("progress", ""))
    info["progress_fields"] = pf
    # what the UNFAULTED session already does wrong belongs to other properties (C15/C09): run k is judged against it
    btxt = symbolize_reports(x, [r.err])[0]
    bs = sanlog.parse_asan(btxt)
    info["baseline"] = {"asan": sorted({k for k, _ in bs if k.startswith("asan|")}),
                        "lsan": sorted({k for k, _ in bs if k.startswith("lsan|")}),
                        "live": [int(v) for v in pf.get("live", "0,0,0,0").split(",")],
                        "heap_growth": max(0, int(pf.get("heap", "0/0").split("/")[1]) - int(pf.get("heap", "0/0").split("/")[0]))}
    return events, info


def parse_progress(p):
    d = {"stages": []}
    for tok in p.split(";"):
        tok = tok.strip()
        if not tok:
            continue
        for part in tok.split(" "):
            if "=" in part:
                k, v = part.split("=", 1)
                d[k] = v
            else:
                d["stages"].append(part)
    return d


# ------------------------------------------------------------------ plan
def occurrences(events, keyfn):
    g = collections.OrderedDict()
    for e in events:
        g.setdefault(keyfn(e), []).append(e.k)
    return g


def pick3(ks):
    return sorted({ks[0], ks[len(ks) // 2], ks[-1]})


def plan(events, tier, rng, scale=1.0, which="enc"):
    """-> (sorted list of k, description dict)"""
    by_site = occurrences([e for e in events if e.kind not in OSINIT], lambda e: e.site)
    by_chain = occurrences([e for e in events if e.kind not in OSINIT], lambda e: (e.phase, e.kind, e.chain))
    osinit = occurrences([e for e in events if e.kind in OSINIT], lambda e: (e.phase, e.kind))
    ks = set()
    d = {"distinct_call_sites": len(by_site), "distinct_call_chains": len(by_chain), "events": len(events)}
    for key, lst in osinit.items():
        ks.update(pick3(lst))
    if tier == "quick":
        budget = int((280 if which == "enc" else 150) * scale)
        by_fn = occurrences([e for e in events if e.kind not in OSINIT], lambda e: (e.phase, e.site_fn))
        # every (API, call-site function) at its first, middle and last occurrence ...
        for key, lst in by_fn.items():
            ks.update(pick3(lst))
        # ... then one seeded occurrence (first|middle|last) of further distinct call-site addresses up to the budget
        sites = list(by_site.items())
        rng.shuffle(sites)
        for key, lst in sites:
            if len(ks) >= budget:
                break
            ks.add(rng.choice(pick3(lst)))
        covered = sum(1 for key, lst in by_site.items() if ks.intersection(lst))
        d["call_sites_covered"] = covered
        d["site_functions"] = len(by_fn)
        d["rule"] = ("every (API, call-site function) x {first, middle, last occurrence}; then one seeded occurrence of "
                     "further distinct call-site addresses up to %d runs (%d of %d call-site addresses covered)"
                     % (budget, covered, len(by_site)))
    elif tier == "thorough":
        for key, lst in by_chain.items():
            ks.update(pick3(lst))
        if which == "enc":
            ks.update(e.k for e in events if e.phase == 1)  # every k of set_parameter
            rest = [e.k for e in events if e.k not in ks]
            rng.shuffle(rest)
            ks.update(rest[:int(800 * scale)])
        else:
            ks.update(e.k for e in events)  # the decoder's count is small: all k
        d["rule"] = ("every distinct call chain x {first, middle, last}; encoder: + every k of set_parameter + 800 "
                     "seeded random k; decoder: every k")
    else:  # campaign: caller decides
        for key, lst in by_chain.items():
            ks.update(pick3(lst))
    return sorted(ks), d


# ------------------------------------------------------------------ run k
def run_ks(which, prefix, ks, opts, workers):
    """-> {k: result dict (+ 'err' text, 'gdb' text)}"""
    x = exe(which)
    workers = max(1, min(workers, len(ks)))
    parts = [ks[i::workers] for i in range(workers)]

    def one(ip):
        i, part = ip
        p = "%s.w%d" % (prefix, i)
        open(p + ".list", "w").write("\n".join(str(k) for k in part) + "\n")
        r = core.run([x, p, "run", p + ".list"] + opts, timeout=600 + 330 * len(part), env=fi_env())
        out = {}
        if os.path.exists(p + ".results"):
            for ln in open(p + ".results"):
                try:
                    d = json.loads(ln)
                except ValueError:
                    continue
                k = d["k"]
                d["err"] = ""
                ep = "%s.k%d.err" % (p, k)
                if os.path.exists(ep):
                    d["err"] = open(ep, errors="replace").read()
                    os.unlink(ep)
                gp = "%s.k%d.gdb" % (p, k)
                d["gdb"] = ""
                if os.path.exists(gp):
                    d["gdb"] = open(gp, errors="replace").read()
                    os.unlink(gp)
                out[k] = d
        for ext in (".list", ".results"):
            try:
                os.unlink(p + ext)
            except OSError:
                pass
        ks_ = [k for k in out if out[k]["err"]]
        for k, t in zip(ks_, symbolize_reports(x, [out[k]["err"] for k in ks_])):
            out[k]["err"] = t
        return out

    res = {}
    for o in core.pmap(one, list(enumerate(parts)), workers=workers):
        res.update(o)
    return res


_gdb_fn = re.compile(r"^#\d+\s+(?:0x[0-9a-f]+ in )?([A-Za-z_][A-Za-z0-9_]*) \(")


def parked_functions(gdb_text):
    """per thread: innermost library function in the backtrace"""
    out = []
    cur = []
    for ln in gdb_text.split("\n") + ["Thread"]:
        if ln.startswith("Thread "):
            if cur:
                fn = next((f for f in cur if f.startswith(("svt_", "eb_")) or f.endswith("_kernel")), cur[-1] if cur else "?")
                chain = [f for f in cur if not f.startswith("__") and f not in ("start_thread", "clone3", "do_futex_wait")]
                out.append(">".join(chain[:4]))
            cur = []
            continue
        m = _gdb_fn.match(ln)
        if m:
            cur.append(m.group(1))
    return out


def classify(which, e, r, baseline=None):
    """-> (list of (token, what), verdict) verdict in {'held','violated','inconclusive','nothit'}"""
    baseline = baseline or {"asan": [], "lsan": [], "live": [0, 0, 0, 0]}
    pf = parse_progress(r.get("progress", ""))
    api = API[which][e.phase]
    out = []
    errtxt = r.get("err", "")
    san = [s for s in sanlog.parse_asan(errtxt)]
    asan = [s for s in san if s[0].startswith("asan|") and s[0] not in baseline["asan"]]
    lsan = [s for s in san if s[0].startswith("lsan|") and s[0] not in baseline["lsan"]]
    if r.get("hard_timeout"):
        if r.get("rerun_also_timed_out") and (r.get("hard_timeout") == 2 or r.get("cpu_ms", 0) > 0.5 * r.get("ms", 1)
                                             or r.get("gdb")):
            pk = parked_functions(r.get("gdb", ""))
            return [("hang", "the session did not finish in two independent runs (stopped after %d ms wall, %d ms "
                             "CPU: %s); progress '%s' shows the call that never returned; threads in: %s"
                     % (r.get("ms", 0), r.get("cpu_ms", 0),
                        "busy-waiting" if r.get("cpu_ms", 0) > 0.5 * r.get("ms", 1) else "blocked",
                        r.get("progress", "")[-100:], " | ".join(pk) or "(no gdb output)"))], "violated"
        return [("timeout", "hard watchdog without a quiescent dead-lock; progress=%s" % r.get("progress"))], "inconclusive"
    if r.get("hang"):
        pk = parked_functions(r.get("gdb", ""))
        out.append(("hang", "child dead-locked (all threads asleep, no context switch for the quiescence window) after "
                            "'%s'; threads parked in: %s" % (r.get("progress", "")[-120:], " | ".join(pk) or "(no gdb output)")))
        return out, "violated"
    if "hit" in pf and int(pf["hit"]) < 0 and "done" in pf["stages"]:
        return [("nothit", "event %d was never reached (count=%s): run 0 and run k disagree" % (e.k, pf.get("count")))], "nothit"
    rck = "rc%d" % e.phase
    finished = "done" in pf["stages"]
    if rck in pf and int(pf[rck]) == 0:
        out.append(("returns-success", "%s returned EB_ErrorNone although its %s (event %d, in %s) failed"
                    % (API_FN[which][e.phase], KINDS[e.kind], e.k, e.site_fn)))
    if asan:
        for key, ex in asan[:2]:
            parts = key.split("|")
            kind, fn = parts[1], parts[2]
            kind = re.sub(r"\s+on$", "", kind).replace("attempting ", "").replace(" ", "-")
            tok = fn if kind == "SEGV" else "%s:%s" % (kind, fn)
            out.append((tok, "AddressSanitizer %s in %s (%s) after failing %s #%d in %s; stage: %s\n%s"
                        % (kind, fn, parts[3] if len(parts) > 3 else "", KINDS[e.kind], e.k, e.site_fn,
                           stage_of(pf), ex[:700])))
    elif not finished:
        sig = r.get("signal", 0)
        tok = "signal%d" % sig if sig else "exit%d" % r.get("status", -1)
        out.append((tok, "child died (%s) without a sanitizer report at stage %s; stderr tail: %s"
                    % (tok, stage_of(pf), errtxt[-300:])))
    if finished:
        th = pf.get("threads", "0/0").split("/")
        live = pf.get("live", "0,0,0,0")
        leaks = []
        if th[0] != th[1]:
            leaks.append("threads %s -> %s" % (th[0], th[1]))
        lv = [int(v) for v in live.split(",")]
        if any(a > b for a, b in zip(lv, baseline["live"])) and lv[0] >= 0:
            leaks.append("H8 live entries (memory,mutex,semaphore,thread) = %s (unfaulted session: %s)"
                         % (live, ",".join(str(v) for v in baseline["live"])))
        if lsan or (pf.get("lsan", "0") != "0" and not baseline["lsan"]):
            leaks.append("LeakSanitizer: %s" % ", ".join(sorted({k.split("|", 2)[2] for k, _ in lsan})[:4]))
        hp = pf.get("heap", "0/0").split("/")
        grew = int(hp[1]) - int(hp[0])
        if not leaks and grew > baseline.get("heap_growth", 0):
            leaks.append("%d more malloc'ed bytes live after teardown than before the session (still reachable: neither "
                         "H8-tracked nor reported by LeakSanitizer); unfaulted session: %d" % (grew, baseline.get("heap_growth", 0)))
        if leaks:
            out.append(("leak", "after teardown: %s (failed %s #%d in %s)" % ("; ".join(leaks), KINDS[e.kind], e.k, e.site_fn)))
    return out, ("violated" if out else "held")


def stage_of(pf):
    st = pf["stages"]
    if "Cdeinit_handle" in st and not any(k.startswith("Rdeinit_handle") for k in pf):
        return "inside deinit_handle"
    if "Cdeinit" in st and "Rdeinit" not in pf:
        return "inside deinit"
    if "hit" not in pf:
        return "inside the failing API call"
    return "after teardown"


def key_of(which, e, tok):
    return "C16|%s|%s|%s" % (API[which][e.phase], e.site_fn, tok)


# ------------------------------------------------------------------ tiny decoder input
def tiny_ivf(chk_dir):
    """committed 6-picture 64x64 stream (independent of the state of the encoder under test)"""
    p = os.path.join(build.VERIF, "corpus", "tiny64x64_6f.ivf")
    if not os.path.exists(p):
        raise core.HarnessError("missing decoder input " + p)
    return p


# ------------------------------------------------------------------ driver
def explore(chk, which, tier, opts, workers, ks_override=None, scale=1.0, label=None, mt_prefix=False):
    """mt_prefix: the API-calling thread shares work with library threads once they exist (multi-threaded decode), so
    its numbering is a function of the schedule from there on: only the prefix up to and including the last thread
    creation is enumerated (and must be identical in both runs of run 0)."""
    label = label or which
    prefix = os.path.join(chk.dir, "fi_" + label)
    ev1, info1 = run_sites(which, prefix + "_a", opts)
    ev2, info2 = run_sites(which, prefix + "_b", opts)
    tail = 0
    if mt_prefix:
        cut = max([e.k for e in ev1 if e.kind == 4] or [len(ev1)])
        tail = len(ev1) - cut
        ev1, ev2 = ev1[:cut], ev2[:cut]
    sig1 = [(e.k, e.phase, e.kind, e.chain) for e in ev1]
    sig2 = [(e.k, e.phase, e.kind, e.chain) for e in ev2]
    if sig1 != sig2:
        n = next((i for i, (a, b) in enumerate(zip(sig1, sig2)) if a != b), min(len(sig1), len(sig2)))
        raise core.HarnessError("run 0 is not deterministic for %s: %d vs %d events, first difference at event %d"
                                % (label, len(sig1), len(sig2), n + 1))
    events = ev1
    baseline = info1["baseline"]
    byk = {e.k: e for e in events}
    if callable(ks_override):
        ks, d = sorted(ks_override(events)), {"rule": "campaign"}
    elif ks_override is not None:
        ks, d = sorted(k for k in ks_override if k in byk), {"rule": "explicit list"}
    else:
        ks, d = plan(events, tier, chk.rng, scale, which)
    per_phase = collections.Counter(e.phase for e in events)
    per_kind = collections.Counter(KINDS[e.kind] for e in events)
    chk.extra.setdefault("run0", {})[label] = {
        "schedule_dependent_tail_not_enumerated": tail, "unfaulted_session_baseline": baseline,
        "events": len(events), "per_api": {API[which][p]: n for p, n in sorted(per_phase.items())},
        "per_kind": dict(per_kind), "distinct_call_sites": d.get("distinct_call_sites"),
        "distinct_call_chains": d.get("distinct_call_chains"), "deterministic_over_2_runs": True,
        "call_sites_covered": d.get("call_sites_covered"), "site_functions": d.get("site_functions"),
        "selection_rule": d.get("rule")}
    res = run_ks(which, prefix, ks, opts, workers)
    # inconclusive (hard timeout / lost) cases are re-run once
    again = [k for k in ks if k not in res or res[k].get("hard_timeout")]
    if again:
        first = {k: res.get(k) for k in again}
        res.update(run_ks(which, prefix + "_re", again, opts, workers))
        for k in again:
            if first[k] and first[k].get("hard_timeout") and res.get(k, {}).get("hard_timeout"):
                res[k]["rerun_also_timed_out"] = True
    outcomes = collections.Counter()
    found = {}
    ran_phase = collections.Counter()
    for k in ks:
        e = byk[k]
        r = res.get(k)
        if r is None:
            chk.inconclusive_case("faultinj %s produced no result for k=%d" % (label, k), {"which": which, "k": k})
            continue
        toks, verdict = classify(which, e, r, baseline)
        chk.count()
        ran_phase[e.phase] += 1
        if verdict == "nothit":
            raise core.HarnessError(toks[0][1])
        if verdict == "inconclusive":
            chk.inconclusive_case("%s k=%d: %s" % (which, k, toks[0][1]), {"which": which, "k": k})
            continue
        chk.nontrivial_case("%s:%s:%s" % (label, e.site, k))
        if verdict == "held":
            outcomes["clean (error returned, teardown clean)"] += 1
            chk.sample({"which": label, "k": k, "api": API[which][e.phase], "failed": KINDS[e.kind], "site": e.site_fn,
                        "outcome": "error returned, deinit+deinit_handle returned, H8/LSan/threads clean",
                        "progress": r.get("progress", "")[:160]}, limit=4)
            continue
        for tok, what in toks:
            key = key_of(which, e, tok)
            outcomes[tok if tok in ("returns-success", "leak", "hang") else "crash"] += 1
            ent = found.setdefault(key, {"count": 0, "example_k": k, "what": what, "chain": list(e.chain_fns[:6])})
            ent["count"] += 1
            chk.violation(key, what, {"which": which, "k": k, "opts": opts, "site": e.site_fn, "mt_prefix": mt_prefix,
                                      "chain": list(e.chain_fns[:8]), "progress": r.get("progress", "")},
                          name="%s-%s" % (which, core.sha(key)))
    if chk.tier == "campaign":
        raw = os.path.join(core.OUT, "c16_campaign_raw_%s_%d.json" % (label, os.getpid()))
        json.dump({"results": {str(k): res[k] for k in res},
                   "baseline": baseline,
                   "events": {str(k): [byk[k].phase, byk[k].kind, byk[k].site_fn, list(byk[k].chain_fns[:8])] for k in ks}},
                  open(raw, "w"))
        print("raw campaign results: " + raw)
    chk.extra.setdefault("outcomes", {})[label] = dict(outcomes)
    chk.extra.setdefault("enumerated", {})[label] = {
        "k_run": len(ks), "k_total": len(events), "fraction": round(len(ks) / max(1, len(events)), 4),
        "per_api": {API[which][p]: "%d/%d" % (ran_phase[p], per_phase[p]) for p in sorted(per_phase)}}
    return events, found, len(ks) == len(events) and tail == 0


def enc_opts():
    return ["w=64", "h=64", "lp=1", "preset=8", "hl=3"]


def run(chk, tier, replay=None):
    workers = max(2, min(6, core.default_workers()))
    if replay:
        c = replay["case"]["case"]
        which = c["which"]
        opts = c["opts"]
        events, found, _ = explore(chk, which, tier, opts, 1, ks_override=[int(c["k"])], mt_prefix=bool(c.get("mt_prefix")))
        return chk.finish(rule="replay of one k")
    scale = getattr(chk, "scale", 1.0)
    ex_all = True
    part = os.environ.get("VERIF_C16_PART", "")  # development aid: "enc" or "dec" runs one half only (never exhaustive)
    if part != "dec":
        _, _, ex = explore(chk, "enc", tier, enc_opts(), workers, scale=scale)
        ex_all &= ex
    if part == "enc":
        return chk.finish(rule="encoder half only (VERIF_C16_PART=enc)")
    if part:
        ex_all = False
    ivf = tiny_ivf(chk.dir)
    _, _, ex = explore(chk, "dec", tier, ["ivf=" + ivf, "threads=1", "frames=2", "hard_s=240", "cpu_s=30"], workers, scale=scale, label="dec-threads1")
    ex_all &= ex
    _, _, ex = explore(chk, "dec", tier, ["ivf=" + ivf, "threads=2", "frames=2", "hard_s=240", "cpu_s=30"], workers, scale=scale, label="dec-threads2",
                       mt_prefix=True)
    ex_all &= ex
    if ex_all:
        chk.extra["exhaustive"] = True
    return chk.finish(
        rule="one evaluation = one forked session in which exactly one allocation/creation of the API-calling thread "
             "fails; k chosen by the selection rule in run0.*.selection_rule from the deterministic numbering of run 0 "
             "(verified by running run 0 twice); distinct = (component, call-site address, k); smallest configuration "
             "(encoder 64x64 lp 1 preset 8 hl 3 intra -1; decoder on a 3-frame 64x64 stream: threads=1 every event of "
             "init_handle/set_parameter/init/first frame, threads=2 the deterministic prefix up to the last thread creation "
             "inside the first svt_av1_dec_frame); reports/leaks the UNFAULTED session already shows are not attributed to "
             "the injected fault",
        explanation="`enumerated` gives, per API, how many of the k were run; coverage.exhaustive is set only when every k "
                    "of both components ran")


# ------------------------------------------------------------------ campaign (run once, by hand)
def root_cause_of(key):
    for rx, text in root_causes():
        if re.search(rx, key):
            return text
    return "untriaged"


def root_causes():
    """(regex over the key, one-line root cause); first match wins.  Written after triaging the campaign."""
    E1 = ("ENC-1 svt_enc_handle_dctor -> svt_enc_handle_stop_threads dereferences scs_instance_array[0] unconditionally: any "
          "failure inside svt_enc_handle_ctor (EB_NEW runs the dctor on the partially built handle) crashes "
          "[EbEncHandle.c:743]; covers ~all 58469 k of init_handle")
    return [
        (r"^C16\|init_handle\|[^|]+\|svt_enc_handle_stop_threads$", E1),
        (r"^C16\|init_handle\|init_svt_av1_encoder_handle\|svt_av1_enc_deinit$",
         "ENC-2 svt_av1_enc_init_handle mallocs the component, and when EB_NEW's calloc of the handle fails calls "
         "svt_av1_enc_deinit() on it while p_component_private is still uninitialised [EbEncHandle.c:1944 -> 1885]"),
        (r"^C16\|init_handle\|svt_av1_enc_init_handle\|leak$",
         "ENC-3 the process-global lp_group (EB_MALLOC in svt_av1_enc_init_handle) stays allocated when init_handle fails "
         "(no handle exists through which it could be freed); bounded: one block"),
        (r"^C16\|init_handle\|create_stats_buffer\|returns-success$",
         "ENC-4 encode_context_ctor ignores create_stats_buffer()'s result [EbEncodeContext.c:188]"),
        (r"^C16\|set_parameter\|prediction_structure_ctor\|prediction_structure_dctor$",
         "ENC-5 prediction_structure_dctor walks pred_struct_entry_ptr_array[i] although EB_CALLOC_2D's second "
         "allocation (p2d[0]) failed -> pe[i] NULL/garbage [EbPredictionStructure.c:651]"),
        (r"^C16\|init\|(svt_av1_enc_init|create_pa_ref_buf_descs|svt_system_resource_ctor|svt_muxing_queue_ctor|"
         r"svt_circular_buffer_ctor|svt_reference_object_creator|svt_reference_object_ctor|svt_pa_reference_object_creator|"
         r"svt_pa_reference_object_ctor|svt_picture_buffer_desc_ctor)\|returns-success$",
         "ENC-6 svt_av1_enc_init ignores the return values of create_ref_buf_descs / create_down_scaled_buf_descs / "
         "create_pa_ref_buf_descs [EbEncHandle.c:1304-1309]: every failure while the reference / PA-reference pools are "
         "built is swallowed and init reports success"),
        (r"^C16\|init\|svt_av1_alloc_restoration_struct\|returns-success$",
         "ENC-7 svt_av1_alloc_restoration_buffers overwrites return_error in its per-plane loop: a failure for plane 0/1 is "
         "lost [EbRestoration.c:1873]"),
        (r"^C16\|init\|svt_av1_hash_table_create\|returns-success$",
         "ENC-8 picture_control_set_ctor ignores svt_av1_hash_table_create()'s result [EbPictureControlSet.c:1055]"),
        (r"^C16\|init\|(picture_parent_control_set_ctor|svt_av1_alloc_restoration_buffers)\|picture_parent_control_set_dctor$",
         "ENC-9 picture_parent_control_set_ctor gets av1_cm with EB_MALLOC_ARRAY (uninitialised); a later failure makes "
         "the dctor free the garbage rst_info[].unit_info / stripe_boundary_* / frame_to_show pointers "
         "[EbPictureControlSet.c:1133-1139]"),
        (r"^C16\|init\|enc_dec_segments_ctor\|enc_dec_segments_dctor$",
         "ENC-10 enc_dec_segments_dctor indexes row_array[] although its allocation (or an earlier one) failed "
         "[EbEncDecSegments.c:20]"),
        (r"^C16\|init\|mode_decision_configuration_context_ctor\|mode_decision_configuration_context_dctor$",
         "ENC-11 mode_decision_configuration_context_dctor dereferences mdc_blk_ptr->av1xd with mdc_blk_ptr NULL "
         "[EbModeDecisionConfigurationProcess.c:401]"),
        (r"^C16\|init\|[^|]+\|mode_decision_context_dctor$",
         "ENC-12 mode_decision_context_dctor: md_blk_arr_nsq / md_local_blk_unit come from EB_MALLOC_ARRAY "
         "(uninitialised) and candidate_buffer_tx_depth_1/2 are dereferenced unguarded: any failure after them makes the "
         "dctor free garbage palette_info.color_idx_map pointers or dereference NULL [EbModeDecisionProcess.c:29-45]"),
        (r"\|svt_create_(mutex|semaphore):(pthread_mutex_init|sem_init)\|returns-success$",
         "OS-1 svt_create_mutex / svt_create_semaphore discard the result of pthread_mutex_init / sem_init "
         "[EbThreads.c:211,304] (cannot fail on glibc for these arguments; POSIX allows ENOMEM/EAGAIN)"),
        (r"^C16\|dec_init_handle\|svt_av1_dec_init_handle\|returns-success$",
         "DEC-1 svt_dec_handle_ctor does not check malloc of the memory-map head (dec_handle_ptr->memory_map) "
         "[EbDecHandle.c:109]"),
        (r"^C16\|dec_frame\|[^|]+\|(svt_block_on_mutex|svt_post_semaphore)$",
         "DEC-2 after a failed first svt_av1_dec_frame with threads>1, svt_av1_dec_deinit calls dec_sync_all_threads "
         "although the thread contexts / semaphores / mutexes were never (completely) created [EbDecHandle.c:647 -> "
         "EbDecProcess.c:1378-1411] (same defect as C15 'teardown before the first frame with threads>1')"),
        (r"^C16\|dec_frame\|(realloc_parse_memory|reallocate_parse_context_memory|dec_system_resource_init|init_dec_mod_ctxt)"
         r"\|", "DEC-3 read_uncompressed_header ignores the results of realloc_parse_memory() and dec_system_resource_init() "
                "(which itself ignores init_dec_mod_ctxt()) [EbDecParseObu.c:2088]: decoding continues on freed (EB_MALLOC_DEC "
                "frees the block when the map node cannot be allocated) or NULL buffers"),
        (r"^C16\|dec_frame\|dec_mem_init\|.*init_main_frame_ctxt$",
         "DEC-4 EB_MALLOC_DEC frees the block but leaves the dangling pointer when its map node cannot be allocated; "
         "dec_mem_init/init_main_frame_ctxt then use it [EbDecMemInit.c:300]"),
        (r"^C16\|dec_frame\|svt_cdef_frame\|", "DEC-5 svt_cdef_frame does not check svt_aom_malloc results for its line/col "
                                                 "buffers [EbDecCdef.c:616-651]"),
        (r"^C16\|dec_frame\|(check_add_tplmv_buf|intra_frame_mode_info)\|returns-success$",
         "DEC-6 allocation failure inside a void/ignored helper (check_add_tplmv_buf, intra_frame_mode_info's palette "
         "colour map) is not propagated: svt_av1_dec_frame reports success"),
        (r"\|returns-success$", "an allocation/creation result is not checked or not propagated"),
    ]


def campaign(argv):
    """python3 -m vf.props.c16 campaign enc|dec [all|chains] [workers]  -> updates corpus/c16_campaign_keys.json"""
    which = argv[0] if argv else "enc"
    mode = argv[1] if len(argv) > 1 else "chains"
    workers = int(argv[2]) if len(argv) > 2 else 6
    chk = core.Check("C16", "campaign", LEVEL)
    chk.known = []  # list everything
    if which == "enc":
        opts = enc_opts()
    else:
        opts = ["ivf=" + tiny_ivf(chk.dir), "threads=2", "frames=2", "hard_s=240", "cpu_s=30"]

    def choose(events):
        if mode == "all":
            return [e.k for e in events]
        if mode.startswith("phase"):
            return [e.k for e in events if e.phase == int(mode[5:])]
        if mode.startswith("list:"):
            return [int(x) for x in mode[5:].split(",")]
        return plan(events, "campaign", chk.rng, 1.0, which)[0]

    if which == "dec":
        events, found, _ = explore(chk, which, "campaign", opts[:1] + ["threads=1", "frames=2", "hard_s=240", "cpu_s=30"], workers,
                                   ks_override=lambda ev: [e.k for e in ev], label="dec-threads1")
        ev2, found2, _ = explore(chk, which, "campaign", opts, workers, ks_override=lambda ev: [e.k for e in ev],
                                 label="dec-threads2", mt_prefix=True)
        for k, v in found2.items():
            if k in found:
                found[k]["count"] += v["count"]
            else:
                found[k] = v
        ks = list(events) + list(ev2)
    else:
        events, found, _ = explore(chk, which, "campaign", opts, workers, ks_override=choose)
        ks = choose(events)
    old = merge_corpus(found, which)
    print("campaign %s/%s: %d k run, %d distinct keys (file now has %d)" % (which, mode, len(ks), len(found), len(old)))
    print(json.dumps(chk.extra, indent=1, default=str)[:3000])


def merge_corpus(found, which):
    old = {}
    if os.path.exists(CORPUS_KEYS):
        old = json.load(open(CORPUS_KEYS))
    for key, ent in found.items():
        old[key] = {"count": ent["count"], "root_cause": root_cause_of(key), "example_k": ent["example_k"],
                    "component": which, "call_chain": ent["chain"], "what": ent["what"][:500]}
    os.makedirs(os.path.dirname(CORPUS_KEYS), exist_ok=True)
    json.dump(old, open(CORPUS_KEYS, "w"), indent=1, sort_keys=True)
    return old


def write_root_cause_groups():
    """corpus/c16_root_causes.json: the campaign keys grouped by root cause, with a key_regex per group that can be
    pasted into known_findings.json (a regex, because the crash function of a memory-corrupting root cause depends on
    which k was failed)."""
    keys = json.load(open(CORPUS_KEYS))
    groups = {}
    for key, ent in sorted(keys.items()):
        rc = ent["root_cause"]
        gid = rc.split(" ", 1)[0]
        g = groups.setdefault(gid, {"root_cause": rc, "keys": [], "total_count": 0})
        g["keys"].append(key)
        g["total_count"] += ent["count"]
    for gid, g in groups.items():
        apis = sorted({k.split("|")[1] for k in g["keys"]})
        sites = sorted({re.escape(k.split("|")[2]) for k in g["keys"]})
        outs = sorted({k.split("|")[3] for k in g["keys"]})
        corrupting = any(":" in o for o in outs)  # use-after-free etc.: where it surfaces depends on the k that failed
        if not corrupting and (all(o in ("returns-success", "leak", "hang") for o in outs) or len(outs) <= 3):
            tail = "(%s)" % "|".join(re.escape(o) for o in outs)
        else:
            tail = ".*"
        g["key_regex"] = "C16\\|(%s)\\|(%s)\\|%s" % ("|".join(apis), "|".join(sites), tail)
    out = os.path.join(os.path.dirname(CORPUS_KEYS), "c16_root_causes.json")
    json.dump(groups, open(out, "w"), indent=1, sort_keys=True)
    return out


def reclassify(argv):
    """python3 -m vf.props.c16 reclass <raw.json> enc|dec [opts...]: classify saved raw campaign results again with the
    current code (run 0 is repeated to rebuild the event table; the numbering is deterministic)."""
    raw = json.load(open(argv[0]))
    which = argv[1]
    opts = argv[2:] or enc_opts()
    chk = core.Check("C16", "campaign", LEVEL)
    events, info = run_sites(which, os.path.join(chk.dir, "re"), opts)
    byk = {e.k: e for e in events}
    x = exe(which)
    ks = sorted(int(k) for k in raw["results"])
    texts = symbolize_reports(x, [raw["results"][str(k)].get("err", "") for k in ks])
    found = {}
    held = collections.Counter()
    for k, t in zip(ks, texts):
        r = raw["results"][str(k)]
        r["err"] = t
        e = byk[k]
        toks, verdict = classify(which, e, r, raw.get("baseline") or info["baseline"])
        if verdict == "held":
            held[API[which][e.phase]] += 1
        if verdict != "violated":
            continue
        for tok, what in toks:
            key = key_of(which, e, tok)
            ent = found.setdefault(key, {"count": 0, "example_k": k, "what": what, "chain": list(e.chain_fns[:6])})
            ent["count"] += 1
    merge_corpus(found, which)
    print("reclassified %d results: %d keys; held per api: %s" % (len(ks), len(found), dict(held)))
    for key in sorted(found):
        print("%4d %s k=%d" % (found[key]["count"], key, found[key]["example_k"]))


if __name__ == "__main__":
    if len(sys.argv) > 1 and sys.argv[1] == "campaign":
        campaign(sys.argv[2:])
    elif len(sys.argv) > 1 and sys.argv[1] == "reclass":
        reclassify(sys.argv[2:])
    elif len(sys.argv) > 1 and sys.argv[1] == "groups":
        print(write_root_cause_groups())
