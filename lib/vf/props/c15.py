"""C15 - teardown at any point releases every resource.

One evaluation = one session (encoder: harness/encdrv.c, decoder: harness/teardowndec.c, `asan` flavour) torn down at a
chosen point of the API protocol.  Oracle per session:
  * deinit + deinit_handle RETURN.  A non-return is established by observing the dead-lock itself, not by a clock: every
    thread of the process asleep with not a single context switch during a 5 s window, no child process, the boundary
    log ending in `C deinit`/`C deinit_handle`; gdb then names what every thread is parked in (a kernel parked in
    svt_get_empty_object is reported as blocked-producer:<kernel>:<fifo it waits on>).  The wall-clock watchdog only
    ever yields "inconclusive".
  * thread census (/proc/self/task) back to the pre-session value,
  * H8: zero live library resources of every type (memory blocks, mutexes, semaphores, threads) after deinit_handle,
  * LeakSanitizer clean at exit, no AddressSanitizer report during the session,
  * repeated sessions in one process: bytes in use (__sanitizer_get_current_allocated_bytes: exact, live malloc'ed
    bytes) after session i >= 3 do not exceed the value after session 2 by more than HEAP_SLACK.
A session whose *send_picture* blocks because the application is not fetching output (back-pressure: the teardown point
cannot be reached) is recorded, not judged.

Keys: C15|teardown-hang|<point>|blocked-producer:<kernel>:<fifo>   C15|leak|<point>|<allocation site or H8 types>
      C15|thread-leak|<point>   C15|teardown-crash|<point>|<asan kind>:<function>   C15|heap-growth|<scenario>
"""
import json
import os
import re
import signal
import subprocess
import time

from .. import build, core, enc, sanlog

LEVEL = "exploration"

# libc keeps a few lazily created objects alive after their first use (stdio buffers of the log files the harness
# reopens per session, the dynamic loader's TLS/dtv bookkeeping for threads, gconv caches).  They are bounded and
# independent of the number of sessions; measured on this tree: 0 bytes of growth after session 2 on every scenario that
# does not leak. 16 KiB is far below one leaked picture buffer (64x64 4:2:0 = 6 KiB x pools of 10+) or SRM (> 100 KiB).
HEAP_SLACK = 16 * 1024
QUIESCE_S = 5.0

POINTS = {0: "after-drain", 1: "after-init_handle", 2: "after-rejected-set_parameter", 3: "after-set_parameter",
          4: "after-init", 5: "mid-stream"}
DPOINTS = {0: "dec:after-all-frames", 1: "dec:after-init_handle", 2: "dec:after-set_parameter", 3: "dec:after-init",
           4: "dec:mid-stream"}


# ------------------------------------------------------------------ process watcher
class Watch:
    pass


def _snapshot(pid, depth=0):
    """(all threads sleeping?, number of threads, total context switches) of the process AND its descendants (the
    sanitizer runtime keeps an idle llvm-symbolizer child alive after its first report; LeakSanitizer forks a tracer)"""
    tdir = "/proc/%d/task" % pid
    try:
        tids = os.listdir(tdir)
    except OSError:
        return None
    sw = 0
    n = len(tids)
    sleeping = True
    for t in tids:
        try:
            st = open("%s/%s/status" % (tdir, t)).read()
        except OSError:
            return None
        m = re.search(r"^State:\s+(\S)", st, re.M)
        if not m or m.group(1) != "S":
            sleeping = False
        for mm in re.finditer(r"ctxt_switches:\s+(\d+)", st):
            sw += int(mm.group(1))
        if depth < 3:
            try:
                kids = open("%s/%s/children" % (tdir, t)).read().split()
            except OSError:
                kids = []
            for k in kids:
                ks = _snapshot(int(k), depth + 1)
                if ks is None:
                    sleeping = False
                    continue
                sleeping = sleeping and ks[0]
                n += ks[1]
                sw += ks[2]
    return sleeping, n, sw


def run_watch(cmd, env, hard_timeout, gdb_out=None):
    """Run cmd; stop early when the process is positively dead-locked (see module doc)."""
    e = dict(os.environ)
    e.update(env or {})
    t0 = time.time()
    errf = open(gdb_out + ".stderr", "wb") if gdb_out else subprocess.DEVNULL
    p = subprocess.Popen(cmd, stdout=subprocess.DEVNULL, stderr=errf, stdin=subprocess.DEVNULL, env=e,
                         start_new_session=True)
    w = Watch()
    w.hang = False
    w.timed_out = False
    w.gdb = ""
    prev = None
    same = 0.0
    step = 0.25
    while True:
        try:
            p.wait(timeout=step)
            break
        except subprocess.TimeoutExpired:
            pass
        s = _snapshot(p.pid)
        if s and s[0] and prev is not None and s[1:3] == prev[1:3]:
            same += step
        else:
            same = 0.0
        prev = s
        if same >= QUIESCE_S:
            w.hang = True
            break
        if time.time() - t0 > hard_timeout:
            w.timed_out = True
            break
    if w.hang or w.timed_out:
        if w.hang:
            try:
                g = subprocess.run(["gdb", "-p", str(p.pid), "-batch", "-ex", "thread apply all bt 16"],
                                   stdout=subprocess.PIPE, stderr=subprocess.DEVNULL, stdin=subprocess.DEVNULL,
                                   timeout=180, text=True)
                w.gdb = g.stdout
            except (subprocess.TimeoutExpired, OSError):
                w.gdb = ""
        for sig in (signal.SIGTERM, signal.SIGKILL):
            try:
                os.killpg(p.pid, sig)
            except OSError:
                pass
            try:
                p.wait(timeout=5)
                break
            except subprocess.TimeoutExpired:
                continue
    w.rc = p.returncode
    w.wall = time.time() - t0
    if gdb_out:
        errf.close()
        try:
            w.stderr = open(gdb_out + ".stderr", errors="replace").read()
            os.unlink(gdb_out + ".stderr")
        except OSError:
            w.stderr = ""
    else:
        w.stderr = ""
    return w


_fr = re.compile(r"^#(\d+)\s+(?:0x[0-9a-f]+ in )?([A-Za-z_][A-Za-z0-9_]*) \(.*?\)(?: at (\S+):(\d+))?")


def parse_gdb(text):
    """-> list of threads, each a list of (function, file, line) innermost first"""
    threads = []
    cur = None
    for ln in text.split("\n"):
        if ln.startswith("Thread "):
            cur = []
            threads.append(cur)
            continue
        m = _fr.match(ln)
        if m and cur is not None:
            cur.append((m.group(2), m.group(3) or "", int(m.group(4) or 0)))
    return threads


def fifo_at(path, line):
    """name of the fifo passed to svt_get_empty_object at/near path:line (read from the tree under test)"""
    if "/Source/" in path:
        path = os.path.join(build.REPO, path[path.index("Source/"):])
    try:
        src = open(path, errors="replace").read().split("\n")
    except OSError:
        return "?"
    for start in range(line - 1, max(-1, line - 5), -1):
        if 0 <= start < len(src) and "svt_get_empty_object(" in src[start]:
            txt = " ".join(src[start:start + 3])
            m = re.search(r"svt_get_empty_object\(\s*([^,]+),", txt)
            if m:
                return re.split(r"->|\.", m.group(1).strip())[-1].strip("() ")
    return "?"


def parked(text):
    """-> (main thread description, [blocked-producer:<kernel>:<fifo>, ...], [other parked descriptions])"""
    producers, others, main = [], [], "?"
    for th in parse_gdb(text):
        fns = [f for f, _, _ in th]
        is_main = "main" in fns
        desc = None
        if "svt_get_empty_object" in fns:
            i = fns.index("svt_get_empty_object")
            if i + 1 < len(th):
                caller, f, l = th[i + 1]
                desc = "blocked-producer:%s:%s" % (caller, fifo_at(f, l))
        if is_main:
            lib = [f for f in fns if f.startswith(("svt_", "dec_")) or f.endswith("_kernel")]
            main = ">".join(reversed(lib[:4])) if lib else (fns[0] if fns else "?")
            if desc:
                main = desc
            continue
        if desc:
            producers.append(desc)
        else:
            lib = [f for f in fns if f.startswith(("svt_", "dec_")) or f.endswith("_kernel")]
            others.append(">".join(reversed(lib[:3])) if lib else (fns[0] if fns else "?"))
    return main, sorted(set(producers)), sorted(set(others))


# ------------------------------------------------------------------ sessions
def read_sessions(prefix):
    out = []
    try:
        for ln in open(prefix + ".sessions"):
            ln = ln.strip()
            if ln:
                out.append(json.loads(ln))
    except (OSError, ValueError):
        pass
    return out


def log_tail(prefix, n=3):
    try:
        lines = open(prefix + ".log").read().strip().split("\n")
    except OSError:
        return []
    return lines[-n:]


def leak_sites(san):
    """LeakSanitizer keys of library allocations (the harness's own intentional leaks are not the library's)."""
    out = []
    for k, ex in san:
        if k.startswith("lsan|leak|") and ("/Source/" in ex or "/repo" in ex or "Lib/" in ex):
            out.append(k.split("|", 2)[2])
    return sorted(set(out))


_TEARDOWN_FRAME = re.compile(r"deinit|_dctor|destroy|stop_threads|svt_shutdown_process")


def asan_reports(prefix, stderr_text):
    """-> (reports whose stacks involve teardown code, keys of the others).  A report that involves no teardown frame
    (neither in the faulting stack nor in the freed-by / allocated-by stacks) is an encode/decode-time defect: C11/C09's
    subject, recorded here but not judged."""
    import glob
    texts = [stderr_text or ""]
    for path in sorted(glob.glob(prefix + ".asan.*") + glob.glob(prefix + ".ubsan.*")):
        try:
            texts.append(open(path, errors="replace").read())
        except OSError:
            pass
    inside, outside = [], []
    for t in texts:
        parts = re.split(r"(?m)^(?==+\d+=+ERROR: AddressSanitizer)", t)
        for blk in parts[1:]:
            end = blk.find("\nSUMMARY:")
            body = blk if end < 0 else blk[:end]
            ks = [x for x in sanlog.parse_asan(blk) if x[0].startswith("asan|")]
            if not ks:
                continue
            if _TEARDOWN_FRAME.search(body):
                inside.append(ks[0])
            else:
                outside.append(ks[0][0])
    return inside, outside


def judge(chk, comp, point, case, prefix, w, flavour):
    """-> verdict 'held' | 'violated' | 'inconclusive' | 'stalled' ; reports violations"""
    tail = log_tail(prefix)
    last = tail[-1] if tail else ""
    info = {"case": case, "log_tail": tail}
    if w.timed_out:
        return "inconclusive", "watchdog (%.0fs) without an observed dead-lock; log tail: %s" % (w.wall, " / ".join(tail))
    if w.hang:
        main, prods, others = parked(w.gdb)
        if " C send_picture" in last or "send_picture" in main and "deinit" not in last:
            return "stalled", "send_picture blocked (back-pressure, the application is not fetching): main=%s" % main
        if " C deinit" in last or " C dec_deinit" in last:
            what = ("%s never returned (dead-lock observed: all threads asleep, no context switch for %.0fs). Boundary log "
                    "tail: %s. Main thread: %s. Parked: %s%s"
                    % (last.split(" C ")[-1], QUIESCE_S, " / ".join(tail), main, ", ".join(prods) or "-",
                       ("; other threads: " + ", ".join(others)) if others else ""))
            if not prods:
                prods = ["parked:" + (others[0] if others else "unknown")]
            for pr in prods:
                chk.violation("C15|teardown-hang|%s|%s" % (point, pr), what, info, name="hang-" + core.sha(point, pr))
            return "violated", what
        return "inconclusive", "process dead-locked outside teardown: %s (main=%s)" % (last, main)
    san = sanlog.collect(prefix)
    if not san and w.stderr and ("Sanitizer" in w.stderr):
        san = sanlog.parse_stderr(flavour, w.stderr)
    bad = False
    asan, outside = asan_reports(prefix, w.stderr)
    for k in outside:
        chk.note_set("asan_reports_outside_teardown(not judged here)", k)
    died = w.rc not in (0, 3)
    for k, ex in asan[:2]:
        p = k.split("|")
        kind = re.sub(r"\s+on$", "", p[1]).replace("attempting ", "").replace(" ", "-")
        bad = True
        chk.violation("C15|teardown-crash|%s|%s:%s" % (point, kind, p[2]),
                      "AddressSanitizer report during a session torn down %s (rc=%s); log tail: %s\n%s"
                      % (point, w.rc, " / ".join(tail), ex[:600]), info, name="crash-" + core.sha(point, k))
    if died and not asan and not outside:
        chk.violation("C15|teardown-crash|%s|rc=%s" % (point, w.rc),
                      "process died rc=%s; log tail: %s; stderr: %s" % (w.rc, " / ".join(tail), w.stderr[-300:]), info)
    if died:
        return ("violated", "crash") if (asan or not outside) else ("inconclusive", "died outside teardown: %s" % outside[:1])
    sess = read_sessions(prefix)
    if not sess:
        return ("violated", "asan") if bad else ("inconclusive", "no session report (rc=%s)" % w.rc)
    for s in sess:
        if s["threads_after"] != s["threads_before"]:
            bad = True
            chk.violation("C15|thread-leak|%s" % point, "%d threads before the session, %d after deinit_handle"
                          % (s["threads_before"], s["threads_after"]), info)
        live = [(n, s.get("live_" + n, 0)) for n in ("mem", "mutex", "sem", "thread")]
        nz = [(n, v) for n, v in live if v not in (0, -1)]
        if nz and not leak_sites(san):
            bad = True
            chk.violation("C15|leak|%s|H8:%s" % (point, "+".join(n for n, _ in nz)),
                          "live library resources after deinit_handle: %s" % ", ".join("%s=%d" % x for x in nz), info)
        if nz:
            break
    ls = leak_sites(san)
    for site in ls:
        bad = True
        ex = next(ex for k, ex in san if k.endswith(site))
        chk.violation("C15|leak|%s|%s" % (point, site), "LeakSanitizer: memory allocated in %s is still allocated after "
                      "deinit_handle (session torn down %s)\n%s" % (site, point, ex[:500]), info,
                      name="leak-" + core.sha(point, site))
    return ("violated" if bad else "held"), ""


def heap_growth(chk, scenario, sess, info):
    """in-use heap after session i >= 3 must not exceed the value after session 2 (+ slack)"""
    if len(sess) < 5:
        return None
    base = sess[2]["heap_inuse"]
    worst = max(s["heap_inuse"] for s in sess[3:])
    grow = worst - base
    per = (sess[-1]["heap_inuse"] - base) / float(len(sess) - 3)
    vals = [s["heap_inuse"] for s in sess[2:]]
    monotone = len(vals) >= 10 and all(b > a for a, b in zip(vals, vals[1:]))
    if grow > HEAP_SLACK or monotone:
        chk.violation("C15|heap-growth|%s" % scenario,
                      "in-use heap grows over repeated sessions: %d bytes after session 2, %d after session %d "
                      "(%.0f bytes/session; slack %d)" % (base, sess[-1]["heap_inuse"], len(sess) - 1, per, HEAP_SLACK), info)
        return False
    return True


# ------------------------------------------------------------------ case generation
def enc_case(td, k=0, fetch=1, lp=1, recon=0, preset=8, frames=None, sessions=1, hl=3):
    c = {"width": 64, "height": 64, "cfg.enc_mode": preset, "cfg.logical_processors": lp, "cfg.intra_period_length": -1,
         "cfg.hierarchical_levels": hl, "cfg.recon_enabled": recon, "teardown": td, "content": "pan", "write_outputs": 0,
         "resource_report": 1, "sessions": sessions}
    if td == 5:
        c["teardown_sends"] = k
        c["teardown_fetch"] = fetch
        c["frames"] = k + 8
    else:
        c["frames"] = frames if frames is not None else 6
    return c


def gen_cases(rng, tier, scale):
    quick = tier == "quick"
    cases = []
    # protocol prefixes
    for td in (1, 2, 3):
        cases.append(("enc", POINTS[td], enc_case(td)))
    for lp in (1, 4):
        for preset in ((8,) if quick else (8, 4)):
            cases.append(("enc", POINTS[4], enc_case(4, lp=lp, preset=preset, recon=rng.randint(0, 1))))
    # after full drain
    for (fr, lp, rec, preset) in ([(1, 1, 0, 8), (9, 4, 1, 8), (17, 1, 1, 4)] if quick else
                                  [(1, 1, 0, 8), (9, 4, 1, 8), (17, 1, 1, 4), (2, 4, 0, 4), (33, 4, 1, 8), (40, 1, 0, 8)]):
        cases.append(("enc", POINTS[0], enc_case(0, lp=lp, recon=rec, preset=preset, frames=fr)))
    # configuration diversity: what init allocates (and so what teardown must release) depends on superblock size,
    # bit depth, pipeline width, tiles, overlays, film grain, rate control, look-ahead ... (one after-init teardown each;
    # a few also after a short drained encode)
    # 128x128 superblocks need preset <= 4 and either >= 165120 luma samples or TPL off (set_param_based_on_input)
    div = [dict(width=480, height=360, preset=4), dict(width=256, height=256, preset=4, extra={"cfg.enable_tpl_la": 0}),
           dict(width=256, height=256, preset=3), dict(width=176, height=144, preset=0),
           dict(extra={"bitdepth": 10}), dict(extra={"bitdepth": 10, "cfg.is_16bit_pipeline": 1}),
           dict(extra={"cfg.is_16bit_pipeline": 1}), dict(width=256, height=128, extra={"cfg.tile_columns": 1, "cfg.tile_rows": 1}),
           dict(extra={"cfg.enable_overlays": 1}), dict(extra={"cfg.film_grain_denoise_strength": 10}),
           dict(extra={"cfg.rate_control_mode": 1, "cfg.target_bit_rate": 300000}),
           dict(extra={"cfg.rate_control_mode": 2, "cfg.target_bit_rate": 300000, "cfg.look_ahead_distance": 33}),
           dict(width=192, height=128, extra={"cfg.superres_mode": 1, "cfg.superres_denom": 12, "cfg.superres_kf_denom": 12}),
           dict(width=128, height=128, extra={"cfg.screen_content_mode": 1, "cfg.palette_level": 1, "cfg.intrabc_mode": 1}),
           dict(extra={"cfg.hierarchical_levels": 5}), dict(extra={"cfg.hierarchical_levels": 0, "cfg.look_ahead_distance": 0})]
    for i, dv in enumerate(div if not quick else div[:2] + rng.sample(div[2:], 6)):
        c = enc_case(4, lp=rng.choice([1, 4]), preset=dv.get("preset", rng.choice([8, 6])))
        c.update(width=dv.get("width", 64), height=dv.get("height", 64))
        c.update(dv.get("extra", {}))
        cases.append(("enc", POINTS[4], c))
    for dv in (div[1:2] if quick else div[:2] + div[4:10]):
        c = enc_case(0, lp=4, recon=1, preset=dv.get("preset", 8), frames=2)
        c.update(width=dv.get("width", 64), height=dv.get("height", 64))
        c.update(dv.get("extra", {}))
        cases.append(("enc", POINTS[0], c))
    # mid-stream: k sends, j in {0, all available}
    n_mid = int((36 if quick else 1300) * scale)
    combos = [(k, j, lp, rec, pr) for k in range(0, 41) for j in (0, 1) for lp in (1, 4) for rec in (0, 1) for pr in (8, 4)]
    rng.shuffle(combos)
    if quick:
        # stratify k so that every region of the pipeline fill level is visited
        combos.sort(key=lambda c: c[0] // 6)
        step = max(1, len(combos) // n_mid)
        pick = combos[rng.randrange(step)::step][:n_mid]
    else:
        pick = (combos * (1 + n_mid // len(combos)))[:n_mid]
    for (k, j, lp, rec, pr) in pick:
        cases.append(("enc", POINTS[5], enc_case(5, k=k, fetch=j, lp=lp, recon=rec, preset=pr)))
    # repeated sessions in one process
    ns = 30 if quick else 100
    cases.append(("enc-rep", "repeat:after-drain", enc_case(0, lp=1, recon=1, frames=5, sessions=ns)))
    cases.append(("enc-rep", "repeat:after-init", enc_case(4, lp=4, sessions=ns)))
    cases.append(("enc-rep", "repeat:after-set_parameter", enc_case(3, sessions=ns)))
    if not quick:
        cases.append(("enc-rep", "repeat:after-drain-lp4", enc_case(0, lp=4, recon=0, frames=9, sessions=ns)))
        cases.append(("enc-rep", "repeat:mid-stream", enc_case(5, k=4, fetch=1, lp=1, sessions=ns)))
    # decoder
    for th in (1, 2, 4):
        for pt in (1, 2, 3, 0):
            cases.append(("dec", DPOINTS[pt], {"point": pt, "threads": th, "frames": 0, "getpic": 1, "sessions": 1}))
        for fr in ((2,) if quick else (1, 2, 3, 4, 5)):
            for gp in ((1,) if quick else (0, 1)):
                cases.append(("dec", DPOINTS[4], {"point": 4, "threads": th, "frames": fr, "getpic": gp, "sessions": 1}))
    for th in (1, 2):
        cases.append(("dec-rep", "repeat:dec:after-all-frames:threads=%d" % th,
                      {"point": 0, "threads": th, "frames": 0, "getpic": 1, "sessions": ns}))
    return cases


TINY_IVF = os.path.join(build.VERIF, "corpus", "tiny64x64_6f.ivf")


def make_ivf(chk):
    """Decoder input: a committed 6-picture 64x64 stream (produced by this encoder, preset 8).  It is NOT regenerated per
    run: a teardown defect of the encoder under test (this property's subject) must not take the decoder half of the
    check down with it."""
    if not os.path.exists(TINY_IVF) or len(enc.read_ivf(TINY_IVF)) < 6:
        raise core.HarnessError("missing decoder input " + TINY_IVF)
    return TINY_IVF


def hard_timeout(comp, case):
    n = int(case.get("sessions", 1))
    return 240 + 40 * n


def run_one(chk, i, comp, point, case, ivf, flavour="asan"):
    prefix = os.path.join(chk.dir, "s%04d" % i)
    env = {"SVT_LOG": "1"}
    # stack-use-after-return findings of the encoding kernels are C11's subject and double the memory traffic
    env.update(sanlog.env_for(flavour, prefix, detect_leaks=True, extra_asan="detect_stack_use_after_return=0"))
    if comp.startswith("enc"):
        c = dict(case)
        c["out"] = prefix
        enc.write_case(prefix + ".case", c)
        cmd = [enc.encdrv(flavour), prefix + ".case"]
    else:
        exe = build.harness(flavour, "teardowndec", libs=("dec",))
        cmd = [exe, "in=" + ivf, "out=" + prefix] + ["%s=%s" % kv for kv in case.items()]
    w = run_watch(cmd, env, hard_timeout(comp, case), gdb_out=prefix)
    return prefix, w


def run(chk, tier, replay=None):
    scale = getattr(chk, "scale", 1.0)
    ivf = make_ivf(chk)
    if replay:
        rc = replay["case"]["case"]["case"] if "case" in replay["case"].get("case", {}) else replay["case"]["case"]
        cases = [(rc.get("_comp", "enc"), rc.get("_point", "replay"), {k: v for k, v in rc.items() if not k.startswith("_")})]
    else:
        cases = gen_cases(chk.rng, tier, scale)
    enc.encdrv("asan")
    build.harness("asan", "teardowndec", libs=("dec",))

    def one(ic):
        i, (comp, point, case) = ic
        tagged = dict(case)
        tagged["_comp"], tagged["_point"] = comp, point
        prefix, w = run_one(chk, i, comp, point, case, ivf)
        verdict, why = judge(chk, comp, point, tagged, prefix, w, "asan")
        if verdict == "inconclusive" and not replay:
            enc.cleanup(prefix)
            prefix, w = run_one(chk, i, comp, point, case, ivf)
            verdict, why = judge(chk, comp, point, tagged, prefix, w, "asan")
        sess = read_sessions(prefix)
        rep = None
        if comp.endswith("-rep") and verdict in ("held", "violated") and sess:
            rep = heap_growth(chk, point, sess, {"case": tagged})
        res = None
        try:
            res = json.load(open(prefix + ".res"))
        except (OSError, ValueError):
            pass
        if verdict != "violated":
            enc.cleanup(prefix)
        return comp, point, tagged, verdict, why, sess, rep, res, w.wall

    workers = max(2, min(6, core.default_workers(per_case_threads=2)))
    results = core.pmap(one, list(enumerate(cases)), workers=workers)
    for comp, point, case, verdict, why, sess, rep, res, wall in results:
        chk.count()
        ident = "%s|%s|%s" % (comp, point, sorted((k, v) for k, v in case.items() if not k.startswith("_")))
        chk.bump("sessions_run", max(1, len(sess)))
        if verdict == "inconclusive":
            chk.inconclusive_case("%s %s: %s" % (comp, point, why), case)
            continue
        if verdict == "stalled":
            chk.bump("unreachable_teardown_points(send_picture blocked by back-pressure)")
            continue
        chk.nontrivial_case(core.sha(ident))
        chk.bump("sessions_%s" % verdict)
        chk.bump("point:%s" % point.split(":threads")[0])
        if point == "mid-stream" and res:
            chk.bump("midstream_packets_fetched_before_teardown", int(res.get("packets", 0)))
            chk.note_set("midstream_k_values", int(case.get("teardown_sends", 0)))
        if rep is not None and sess:
            chk.extra.setdefault("heap_after_session", {})[point] = [s["heap_inuse"] for s in sess][:8] + ["...", sess[-1]["heap_inuse"]]
        if verdict == "held":
            chk.sample({"component": comp, "point": point, "case": {k: v for k, v in case.items() if not k.startswith("_")},
                        "sessions": len(sess), "threads": [sess[0]["threads_before"], sess[-1]["threads_after"]] if sess else None,
                        "h8_live": [sess[-1].get("live_" + n) for n in ("mem", "mutex", "sem", "thread")] if sess else None},
                       limit=6)
    return chk.finish(
        rule="one evaluation = one process running 1 (or, for repeat:* scenarios, 30/100) session(s) torn down at the stated "
             "point; mid-stream points are drawn from k in 0..40 sends x j in {0, all available packets fetched} x lp {1,4} x "
             "recon {0,1} x preset {8,4} (quick: stratified over k); non-trivial = the session reached its teardown point and "
             "was judged (hang observation / thread census / H8 / LSan / ASan); distinct = (component, point, configuration)",
        explanation="`sessions_run` counts sessions including the repeated ones; sessions whose send_picture blocked before "
                    "the teardown point are counted separately and not judged")
