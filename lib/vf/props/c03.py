"""C03 - one packet per submitted picture, in submission order, with timestamps and EOS."""
import os
import re

from .. import cfggen, core, enc
from . import common

LEVEL = "exploration"
EOS = 1


def gop_sig(case):
    g = lambda k, d: case.get(k, d)
    return "hl%s+ip%s+rt%s%s%s%s" % (g("cfg.hierarchical_levels", "d"), g("cfg.intra_period_length", "d"),
                                     g("cfg.intra_refresh_type", "d"),
                                     "+ovl" if int(g("cfg.enable_overlays", 0)) else "",
                                     "+lad%s" % g("cfg.look_ahead_distance", "") if "cfg.look_ahead_distance" in case else "",
                                     "+tpl" if int(g("cfg.enable_tpl_la", 0)) else "")


def sent_pts(case):
    n = int(case["frames"])
    if "pts_list" in case:
        return [int(x) for x in str(case["pts_list"]).split(",")][:n]
    s0 = int(case.get("pts_start", 0))
    st = int(case.get("pts_stride", 1))
    return [s0 + k * st for k in range(n)]


def judge(case, res, prefix):
    """-> list of (key, why); empty = held. ('inconclusive', why) entries are marked by key None."""
    out = []
    n = int(case["frames"])
    hs = common.hang_sig(case)
    lib_error = bool(res.res and res.res.get("api_error") == 1)  # get_packet returned EB_ErrorMax; teardown may then hang
    if res.timed_out and not lib_error:
        return [("C03|encode-hang|%s" % hs, "encode did not finish within the watchdog (%.0fs); boundary log tail: %s"
                 % (res.wall, common.log_tail(prefix)))]
    if not lib_error and (enc.crashed(res) or res.res is None):
        return [(None, "encoder process died (rc=%s) before the history could be judged: C11's subject [%s]"
                 % (res.rc, common.feature_sig(case)))]
    if res.res.get("api_error") == 2:
        return [("rejected-config", res.res.get("errmsg", ""))]
    if res.res.get("api_error"):
        import re as _re
        m = _re.search(r"flags=(0x[0-9a-f]+)", res.res.get("errmsg", ""))
        # the library's error handler overwrites the packet's flags with its internal error code
        code = ("|code=%s" % m.group(1)) if m else ""
        return [("C03|encoder-error|%s%s" % (gop_sig(case), code), "API error: %s" % res.res.get("errmsg"))]
    pts = sent_pts(case)
    pk = res.pkts
    tags = [0x5000 + k for k in range(n)]
    if len(pk) != n:
        if n == 0 and len(pk) == 1 and pk[0]["flags"] & EOS and pk[0]["size"] == 0:
            pass  # an empty EOS marker for an empty stream carries no picture: accepted, recorded by caller
        else:
            out.append(("C03|packet-count|%s" % gop_sig(case), "%d pictures submitted, %d packets delivered" % (n, len(pk))))
            return out
    for j, p in enumerate(pk[:n]):
        if p["pts"] != pts[j]:
            out.append(("C03|pts-order|%s" % gop_sig(case), "packet %d carries pts %d, picture %d was submitted with pts %d"
                        % (j, p["pts"], j, pts[j])))
            break
    for j, p in enumerate(pk[:n]):
        if p["dts"] != p["pts"]:
            out.append(("C03|dts|%s" % gop_sig(case), "packet %d: dts %d != pts %d" % (j, p["dts"], p["pts"])))
            break
    if int(case.get("priv_tags", 1)):
        for j, p in enumerate(pk[:n]):
            if p["priv"] != tags[j]:
                out.append(("C03|p_app_private-not-propagated", "packet %d carries p_app_private 0x%x, picture %d was "
                            "submitted with 0x%x" % (j, p["priv"], j, tags[j])))
                break
    eos_pos = [j for j, p in enumerate(pk) if p["flags"] & EOS]
    if n > 0 and eos_pos != [n - 1]:
        out.append(("C03|eos-flag|%s" % gop_sig(case), "EOS flag on packets %s, expected only on the last (%d)" % (eos_pos, n - 1)))
    if res.res.get("packets_after_eos"):
        out.append(("C03|packet-after-eos|%s" % gop_sig(case), "%d packet(s) delivered after the EOS packet" % res.res["packets_after_eos"]))
    if int(case.get("cfg.recon_enabled", 0)):
        rec = core.read_frames(prefix + ".recon")
        keys = [r[0] for r in rec]
        # one per display position: recon pictures are labelled either with the display position 0..N-1 (what this
        # library does) or with the submitted pts; both identify the position.  Anything else is a violation.
        if len(keys) != n or (sorted(keys) != list(range(n)) and sorted(keys) != sorted(pts)):
            out.append(("C03|recon-set|%s" % gop_sig(case), "recon delivered labels %s for %d submitted pictures (pts %s)"
                        % (sorted(keys)[:40], n, sorted(pts)[:8])))
    # decode: N pictures in submission order (tags)
    if n > 0 and not out:
        st, info = enc.ref_decode(prefix + ".ivf", "aom", prefix + ".aom")
        if st == "inconclusive":
            out.append((None, "libaom unavailable: %s" % info))
        elif st == "rejected":
            out.append(("C03|undecodable|%s" % gop_sig(case), "libaom rejected the stream at packet %s" % info.get("fail_packet")))
        else:
            fr = core.read_frames(prefix + ".aom")
            if len(fr) != n:
                out.append(("C03|decoded-count|%s" % gop_sig(case), "stream decodes to %d pictures, %d submitted" % (len(fr), n)))
            elif int(case.get("tag", 0)):
                # a tag is evidence of order only where the decoded picture renders it cleanly: the property asks for
                # order, not fidelity (a picture coded as one flat block reads as an arbitrary tag)
                got = [common.read_tag(f, strict=True) for f in fr]
                want = [k % 64 for k in range(n)]
                bad = [k for k in range(n) if got[k] is not None and got[k] != want[k]]
                out.append(("tags", (sum(1 for g in got if g is not None), sum(1 for g in got if g is None))))
                if bad:
                    out.append(("C03|decoded-order|%s" % gop_sig(case), "decoded picture %d carries tag %s, expected %d"
                                % (bad[0], got[bad[0]], want[bad[0]])))
            st2, info2 = enc.ref_decode(prefix + ".ivf", "dav1d", "-")
            if st2 == "ok" and info2.get("frames") != len(fr):
                out.append((None, "reference decoders disagree on picture count: %s vs %d" % (info2.get("frames"), len(fr))))
    return out


def gen_cases(rng, tier, scale):
    cases = []
    quick = tier == "quick"
    levels = range(0, 6)
    for L in levels:
        mg = 1 << L
        ns = sorted(set([0, 1, 2, mg - 1, mg, mg + 1, 2 * mg - 1, 2 * mg, 2 * mg + 1, 2 * mg + 3]))
        ns = [x for x in ns if x >= 0]
        if quick:
            ns = [x for x in ns if x in (0, 1, mg, mg + 1, 2 * mg + 1, 2 * mg + 3)]
        for n in ns:
            ips = [-1, 0, 1, mg - 1, mg, 2 * mg - 1] if not quick else [rng.choice([-1, 0, 1, mg - 1, mg, 2 * mg - 1])]
            for ip in sorted(set(ips)):
                if ip < -1:
                    continue
                variants = [(rt, ov) for rt in (1, 2) for ov in (0, 1)] if not quick else [(rng.choice([1, 2]), rng.choice([0, 0, 1]))]
                for rt, ov in variants:
                    c = cfggen.tiny_case(rng, frames=n, tag=1, **{
                        "cfg.hierarchical_levels": L, "cfg.intra_period_length": ip, "cfg.intra_refresh_type": rt,
                        "cfg.enable_overlays": ov, "cfg.logical_processors": rng.choice([1, 4, 4, 8]),
                        "content": rng.choice(["pan", "rects", "gradient"])})
                    if n == 0:
                        c["blocking_after_eos"] = 0
                        c["eos_polls"] = 40
                    r = rng.random()
                    if r < 0.2:
                        c["cfg.look_ahead_distance"] = rng.choice([0, 1, mg, 2 * mg + 1])
                        if c["cfg.look_ahead_distance"] and rng.random() < 0.5:
                            c["cfg.enable_tpl_la"] = 1
                    r = rng.random()
                    if r < 0.15:
                        c["pts_start"] = rng.choice([1, 1000, 90000 * 3600, 1 << 40, (1 << 62) + 12345])
                    elif r < 0.3:
                        c["pts_stride"] = rng.choice([2, 3, 3003, 1 << 33])
                        c["pts_start"] = rng.choice([0, 7])
                    cases.append(c)
    # recon off variants and rate-control variants
    for _ in range(10 if quick else 80):
        c = cfggen.tiny_case(rng, frames=rng.choice([3, 9, 17, 20]), tag=1)
        c["cfg.recon_enabled"] = rng.choice([0, 1])
        c["cfg.rate_control_mode"] = rng.choice([0, 1, 2])
        if c["cfg.rate_control_mode"]:
            c["cfg.target_bit_rate"] = 300000
        if c["cfg.rate_control_mode"] == 2:
            c["cfg.intra_period_length"] = 15
            c["cfg.look_ahead_distance"] = 15
        c["cfg.hierarchical_levels"] = rng.choice([2, 3, 4])
        cases.append(c)
    if not quick:
        # arbitrary pts sequences: non-monotone and duplicated values (the reorder code sorts by pts)
        for _ in range(60):
            n = rng.choice([5, 9, 17])
            base = [rng.randrange(0, 1000) for _ in range(n)]
            if rng.random() < 0.5:
                base[rng.randrange(n)] = base[rng.randrange(n)]
            c = cfggen.tiny_case(rng, frames=n, tag=1)
            c["pts_list"] = ",".join(str(x) for x in base)
            c["cfg.recon_enabled"] = 0  # recon is keyed by pts: ambiguous with duplicates
            c["_arbitrary_pts"] = 1
            cases.append(c)
    rng.shuffle(cases)
    k = int(len(cases) * scale) if scale < 1 else len(cases)
    if quick:
        k = min(k, int(150 * scale))
    return cases[:k]


def run(chk, tier, replay=None):
    rng = chk.rng
    cases = [replay["case"]["case"]] if replay else gen_cases(rng, tier, getattr(chk, "scale", 1))

    def one(ic):
        i, case = ic
        prefix = os.path.join(chk.dir, "c%04d" % i)
        to = 25 if common.known_hang_region(case) else None
        res = enc.run_case("plain", case, prefix, timeout=to)
        tagc = [0, 0]

        def strip(v):
            for t in [x for x in v if x[0] == "tags"]:
                tagc[0], tagc[1] = t[1]
            return [x for x in v if x[0] != "tags"]
        v = strip(judge(case, res, prefix))
        if res.timed_out and not common.known_hang_region(case):
            enc.cleanup(prefix)
            res = enc.run_case("plain", case, prefix)  # a hang must reproduce
            v2 = strip(judge(case, res, prefix))
            if not res.timed_out:
                v = [(None, "watchdog fired once, second run finished")] + v2
        if not v:
            enc.cleanup(prefix)
        return case, res, v, tagc

    results = core.pmap(one, list(enumerate(cases)))
    for case, res, v, tagc in results:
        chk.count()
        chk.bump("decoded_tags_read", tagc[0])
        chk.bump("decoded_tags_unreadable", tagc[1])
        if v and v[0][0] == "rejected-config":
            chk.bump("rejected_config_draws")
            continue
        n = int(case["frames"])
        if not v:
            chk.nontrivial_case(core.sha(cfggen.case_ident(case)))
            chk.bump("packets_checked", len(res.pkts))
            chk.note_set("gop_shapes_held", gop_sig(case))
            chk.sample({"case": {k: case[k] for k in sorted(case) if k != "out"},
                        "history": "send x%d, EOS -> %d packets pts=%s" % (n, len(res.pkts), [p["pts"] for p in res.pkts][:12])}, limit=4)
            if n == 0:
                chk.note_set("empty_stream_behaviour", "%d packet(s)" % len(res.pkts))
        for key, why in v:
            if key is None:
                chk.inconclusive_case(why, case)
            else:
                chk.violation(key, why, case)
    return chk.finish(
        rule="boundary histories {send(k,pts,tag)}*, EOS, {packet}, {recon}: N enumerated around mini-GOP boundaries for "
             "hierarchical levels 0..5 x intra period x refresh type x overlays x look-ahead/TPL x pts sequences; checked: "
             "exactly-once, order, pts/dts/private, EOS last and nothing after it (5 further polls), recon set, decoded "
             "count and tag order. non-trivial = history held with its oracle fully evaluated; distinct = case hash")
