"""C13 - the library's default configuration is complete and well-defined."""
import json
import os

from .. import build, cfggen, core, enc
from . import common, equiv

LEVEL = "exploration"


def run(chk, tier, replay=None):
    rng = chk.rng
    quick = tier == "quick"
    # (a) taint monitor: bytes of the caller's structure that init_handle never writes
    exe = build.harness("plain", "cfgtaint")
    r = core.run([exe], timeout=120)
    info = None
    for ln in r.out.splitlines():
        if ln.startswith("{"):
            info = json.loads(ln)
    if not info or not info.get("ok"):
        raise core.HarnessError("cfgtaint failed rc=%s %s" % (r.rc, r.err[-300:]))
    chk.count()
    chk.extra["config_fields_examined"] = info["fields"]
    chk.extra["config_bytes_examined"] = info["field_bytes"]
    chk.extra["untouched_fields"] = [u["name"] for u in info["untouched"]]
    for u in info["untouched"]:
        chk.violation("C13|undefaulted-field|%s" % u["name"],
                      "svt_av1_enc_init_handle leaves %d of %d bytes of `%s` as the caller had them (0xA5 and 0x5A fill "
                      "patterns both survive)" % (u["bytes"], u["of"], u["name"]), {"field": u["name"]})
    if info.get("nondeterministic_fields"):
        chk.violation("C13|defaults-differ-between-calls", "%d fields differ between two identical calls" % info["nondeterministic_fields"])
    # (b) behaviour: same explicit settings on top of different prior contents -> accepted, identical output
    t = cfggen.tiny_case
    explicit_sets = [
        {},
        {"cfg.enc_mode": 8, "cfg.qp": 40},
        {"cfg.enc_mode": 6, "cfg.hierarchical_levels": 3, "cfg.intra_period_length": 15},
        {"cfg.film_grain_denoise_strength": 8, "cfg.enc_mode": 7},
        {"cfg.tile_columns": 1, "cfg.logical_processors": 4},
        {"cfg.screen_content_mode": 1, "cfg.palette_level": 1},
    ]
    if not quick:
        for _ in range(10):
            explicit_sets.append(cfggen.tool_overrides(rng, n=4))
    groups = []
    for ex in explicit_sets:
        base = {"width": 96, "height": 64, "bitdepth": 8, "frames": 9, "content": "mix", "content_seed": 5,
                "cfg.recon_enabled": 1}
        base.update(ex)
        vs = [equiv.Variant("prior=zero", {"cfg_prior": "zero"}), equiv.Variant("prior=0xFF", {"cfg_prior": "ff"}),
              equiv.Variant("prior=0xA5", {"cfg_prior": "a5"})]
        for k in range(2 if quick else 8):
            vs.append(equiv.Variant("prior=random#%d" % k, {"cfg_prior": "random", "prior_seed": rng.randrange(1 << 30)}))
        groups.append((base, vs))

    def key_of(base, v, kind):
        return "C13|%s" % {"differs": "output-depends-on-prior-contents", "hang": "hang-with-prior-contents",
                           "crash": "crash-or-rejection-with-prior-contents"}[kind]
    # a garbage pointer left in the structure is dereferenced: run on the ASan flavour as well (quick: one group)
    res = equiv.run_groups(chk, "C13", groups, key_of, hang_in_scope=True)
    for (gi, vi, case, v, r2, sig, prefix, extra) in res:
        if r2.res and r2.res.get("api_error") == 2:
            chk.violation("C13|rejected-with-prior-contents", "set_parameter rejected the library's own defaults (+%s) when the "
                          "caller's memory held %s before init_handle" % ({k: case[k] for k in case if k.startswith("cfg.")}, v.label), case)
    return chk.finish(
        rule="(a) taint: two fill patterns through svt_av1_enc_init_handle, every field of the structure (table generated "
             "from the header) must be overwritten; (b) for each explicit-setting set, encodes with prior contents "
             "zero/0xFF/0xA5/random must be accepted and byte-identical. non-trivial = explicit-setting set with all "
             "priors accepted and equal")
