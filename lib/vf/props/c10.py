"""C10 - the decoder survives arbitrary input bytes.

Executions: one decoder session per input in `dec_fuzz_sa` (harness/dec_fuzz.c) built in the `fuzz` flavour
(decoder only, ASan + UBSan recover mode, coverage counters).  Oracle: no ASan report, no UBSan report outside
the audited benign list, no signal/abort, no reproducible hang, teardown returns; the decoder's return code may be
anything.

The case list is a pure function of (VERIF_SEED, tier, committed corpus /verif/corpus/c10):
  1. every file of the committed corpus (seeds + one minimised reproducer per key ever seen) is replayed in
     STRICT mode (each frame call's data in an exact-size heap block) and, only while the pervasive bit-reader
     over-read is an *open* known finding, also in SLACK mode (8 readable bytes behind the data);
  2. N fresh inputs from the deterministic structured mutator gen/c10_mutate.py, input i = mutant(VERIF_SEED, i,
     seeds) (N = 20000 quick / 300000 thorough - about 110 sessions/s on 8 workers -, split over workers by
     index ranges), in STRICT mode (+ SLACK for the first quarter while the over-read finding is open).
Inputs run in batches inside one process (fast path); every input that produced sanitizer output, a crash or a
stall is re-run alone in a fresh process with log files, and the canonical report keys of that run are what is
reported through chk.violation(key, ...).
"""
import hashlib
import importlib.util
import json
import os
import re
import signal
import subprocess
import time

from .. import build, core, sanlog

LEVEL = "exploration"
PID = "C10"
CORPUS = os.path.join(build.VERIF, "corpus", "c10")
OVERREAD_KEYS = ("C10|asan|heap-buffer-overflow|dec_bits_init|READ", "C10|asan|heap-buffer-overflow|dec_get_bits|READ")
BATCH = 250
CORPUS_BATCH = 16
BATCH_ALARM = 20  # in-process watchdog per input inside a batch (libFuzzer's -timeout=20): only triggers a re-run alone
SINGLE_TIMEOUT = 60.0  # one input alone normally takes < 1 s under ASan; a watchdog hit is only "inconclusive"


def _mutator():
    p = os.path.join(build.VERIF, "gen", "c10_mutate.py")
    spec = importlib.util.spec_from_file_location("c10_mutate", p)
    m = importlib.util.module_from_spec(spec)
    spec.loader.exec_module(m)
    return m


def harness_sa():
    return build.harness("fuzz", "dec_fuzz_sa", sources=["dec_fuzz.c"], link="so", libs=("dec",),
                         extra_cflags="-DDEC_FUZZ_STANDALONE")


def harness_libfuzzer():
    return build.harness("fuzz", "dec_fuzz", sources=["dec_fuzz.c"], link="so", libs=("dec",),
                         extra_ldflags="-fsanitize=fuzzer")


# ------------------------------------------------------------------ one input alone (authoritative keys)
def _hang_site(exe, args, env):
    """Start the process again, sample its stack a few times with gdb and return the deepest in-library function
    common to all samples (the function whose loop does not terminate)."""
    e = dict(os.environ)
    e.update(env)
    p = subprocess.Popen([exe] + args, stdout=subprocess.DEVNULL, stderr=subprocess.DEVNULL, env=e,
                         start_new_session=True)
    stacks = []
    try:
        time.sleep(5.0)
        for _ in range(8):
            if p.poll() is not None:
                break
            r = subprocess.run(["gdb", "-p", str(p.pid), "-batch", "-ex", "bt 40"], stdout=subprocess.PIPE,
                               stderr=subprocess.DEVNULL, text=True, timeout=120)
            fr = []
            for ln in r.stdout.splitlines():
                m = re.match(r"#\d+\s+(?:0x[0-9a-f]+ in )?([A-Za-z_][A-Za-z0-9_]*) \(.*\) (?:at|from) (\S+)", ln)
                if m and ("/Source/" in m.group(2) or "libSvtAv1" in m.group(2)):
                    fr.append(m.group(1))
            if fr:
                stacks.append(list(reversed(fr)))  # outermost first
            time.sleep(0.3)
    except (subprocess.TimeoutExpired, OSError):
        pass
    finally:
        try:
            os.killpg(p.pid, signal.SIGKILL)
        except OSError:
            pass
        p.wait()
    if not stacks:
        return "?"
    common = []
    for i in range(min(len(s) for s in stacks)):
        if all(s[i] == stacks[0][i] for s in stacks):
            common.append(stacks[0][i])
        else:
            break
    return common[-1] if common else stacks[0][0]


def run_single(exe, path, slack, prefix, want_hang_site=True, recover=False):
    """-> dict(keys=[(key, excerpt)], rc, timed_out, line) for one input file in its own process."""
    for f in os.listdir(os.path.dirname(prefix)):
        if f.startswith(os.path.basename(prefix) + ".") and not f.endswith(".in"):
            os.unlink(os.path.join(os.path.dirname(prefix), f))
    # alone, the process stops at its first ASan error (that report is the case's key; what would follow is the
    # consequence of memory that is already wrong); UBSan reports before it are all collected
    # (recover=True, used for inputs that stalled their batch: keep going after reports so that a hang behind an
    # invalid read can show itself)
    env = sanlog.env_for("fuzz", prefix, extra_asan="halt_on_error=%d:max_allocation_size_mb=%d" % (0 if recover else 1, MAX_ALLOC_MB))
    env["SVT_LOG"] = "0"
    args = ["--slack", str(slack), path]
    r = core.run([exe] + args, timeout=SINGLE_TIMEOUT, env=env)
    keys = []
    seen = set()
    for k, ex in sanlog.collect(prefix):
        if k not in seen:
            seen.add(k)
            keys.append((PID + "|" + k, ex))
    eline = ""
    for ln in r.out.splitlines():
        if ln.startswith("E "):
            eline = ln
    res = {"keys": keys, "rc": r.rc, "timed_out": r.timed_out, "line": eline, "hang": None}
    if r.timed_out:
        r2 = core.run([exe] + args, timeout=SINGLE_TIMEOUT, env=env)
        # the decoder is single-threaded here: a real hang burns CPU. A watchdog that fires on a process that got little
        # CPU (oversubscribed machine) says nothing about the decoder: inconclusive, never a verdict.
        starved = r2.timed_out and getattr(r2, "cpu_s", None) is not None and r2.cpu_s < 0.25 * SINGLE_TIMEOUT
        if starved:
            res["timed_out"] = "starved"
        elif r2.timed_out:
            site = _hang_site(exe, args, env) if want_hang_site else "?"
            res["hang"] = site
            res["keys"] = keys + [("%s|hang|%s" % (PID, site), "svt_av1_dec_frame session did not return within %.0f s, twice"
                                   % SINGLE_TIMEOUT)]
        else:
            res["timed_out"] = "once"
    elif r.rc not in (0, 77) and not keys:
        tail = (r.err or "")[-300:]
        res["keys"] = [("%s|abnormal-exit|rc=%s" % (PID, r.rc), "process ended with status %s without a sanitizer "
                        "report: %s" % (r.rc, tail))]
    return res


# ------------------------------------------------------------------ batches
class BatchStats:
    def __init__(self):
        self.execs = 0
        self.rcs = {}
        self.obus = 0
        self.pics = 0
        self.decoded_inputs = 0
        self.dirty = []  # (index in pack, reason)
        self.cov = None
        self.restarts = 0
        self.abandoned = 0
        self.sigs = set()


_E = re.compile(r"E (\d+) rc=([0-9a-f]+) calls=(\d+) pics=(\d+) obus=([0-9a-f]+) dirty=(\d+) asan=(\d+)")


def run_pack(exe, pack, n_inputs, slack, prefix, want_cov=True, budget=None, keep_going=False):
    """Run inputs 0..n_inputs-1 of a pack, restarting behind crashes/stalls/ASan stops. -> BatchStats"""
    st = BatchStats()
    start = 0
    env = {"SVT_LOG": "0", "ASAN_SYMBOLIZER_PATH": "/usr/bin/llvm-symbolizer-14",
           # reports go to stderr here (discarded): this pass only finds *which* inputs are dirty
           "ASAN_OPTIONS": "halt_on_error=0:detect_leaks=0:detect_stack_use_after_return=1:allocator_may_return_null=1:"
                           "handle_abort=1:symbolize=0:print_summary=0:max_allocation_size_mb=%d" % MAX_ALLOC_MB,
           "UBSAN_OPTIONS": "halt_on_error=0:print_stacktrace=0:symbolize=0"}
    covfile = prefix + ".cov"
    while start < n_inputs:
        alarm = BATCH_ALARM
        if budget is not None and budget.exhausted():
            if not keep_going:
                st.abandoned = n_inputs - start
                break
            alarm = 5  # corpus replay goes on, but stalls (already witnessed several times) are cut short
        args = [exe, "--slack", str(slack), "--stop-on-asan", "--alarm", str(alarm), "--from", str(start)]
        if want_cov:
            args += ["--cov", covfile]
        args.append(pack)
        r = core.run(args, timeout=max(240.0, 2.0 * (n_inputs - start)), env=env)
        last_b = None
        done = start
        stalled = None
        for ln in r.out.splitlines():
            if ln.startswith("B "):
                last_b = int(ln.split()[1])
            elif ln.startswith("T "):
                stalled = int(ln.split()[1])
            elif ln.startswith("E "):
                m = _E.match(ln)
                if not m:
                    continue
                idx = int(m.group(1))
                st.execs += 1
                rc = m.group(2)
                st.rcs[rc] = st.rcs.get(rc, 0) + 1
                st.obus |= int(m.group(5), 16)
                pics = int(m.group(4))
                st.pics += pics
                if pics:
                    st.decoded_inputs += 1
                if int(m.group(3)) and (pics or rc != "0"):
                    st.sigs.add(idx)
                if int(m.group(6)):
                    st.dirty.append((idx, "sanitizer output"))
                done = idx + 1
                last_b = None
        if want_cov and os.path.exists(covfile):
            b = open(covfile, "rb").read()
            os.unlink(covfile)
            if st.cov is None or len(st.cov) != len(b):
                st.cov = bytearray(b)
            else:
                st.cov = bytearray(x | y for x, y in zip(st.cov, b))
        if last_b is not None:
            # died or stalled inside input last_b
            is_stall = r.timed_out or stalled == last_b
            if is_stall and budget is not None:
                budget.stall()
            st.dirty.append((last_b, "watchdog" if is_stall else "process ended (status %s)" % r.rc))
            st.execs += 1
            done = last_b + 1
            st.restarts += 1
        elif r.rc == 77:
            st.restarts += 1
        elif r.rc != 0 and done <= start:
            raise core.HarnessError("dec_fuzz_sa failed on %s from %d: rc=%s %s" % (pack, start, r.rc, r.err[-400:]))
        elif r.rc == 0:
            break
        if done <= start:
            done = start + 1
        start = done
    return st


# ------------------------------------------------------------------ the check
def _overread_open(chk):
    return any(core.match_known(PID, k, chk.known) is not None for k in OVERREAD_KEYS)


# A mutated sequence header can declare pictures of up to 65536x65536 samples; the decoder then allocates and clears
# gigabytes (minutes under ASan) before it rejects the stream.  The allocator refuses single blocks above this size
# (malloc returns NULL: the decoder must, and does, turn that into an error return), which keeps such inputs cheap
# without hiding anything: an unchecked NULL would be reported as a SEGV.
MAX_ALLOC_MB = 512


class Budget:
    """Bounds the work spent on re-running dirty inputs.  A defect that nearly every input reaches (or a reproducible
    hang, which costs minutes per witness) makes the exploration pointless until it is repaired or listed: the
    remaining batches are then skipped and the evidence says so.  Never decides a verdict."""

    def __init__(self, max_reruns, max_hangs, max_stalls):
        self.max_reruns, self.max_hangs, self.max_stalls = max_reruns, max_hangs, max_stalls
        self.reruns = 0
        self.hangs = 0
        self.stalls = 0
        self.skipped_jobs = 0
        self.skipped_dirty = 0
        self.lock = __import__("threading").Lock()

    def exhausted(self):
        return self.reruns >= self.max_reruns or self.hangs >= self.max_hangs or self.stalls >= self.max_stalls

    def stall(self):
        with self.lock:
            self.stalls += 1

    def take_stall(self):
        """re-runs of inputs that stalled a batch (minutes each when the hang is real): the first two only"""
        with self.lock:
            self.stall_reruns = getattr(self, "stall_reruns", 0) + 1
            if self.stall_reruns > 2:
                self.skipped_dirty += 1
                return False
            return True

    def take(self):
        with self.lock:
            if self.exhausted():
                self.skipped_dirty += 1
                return False
            self.reruns += 1
            return True


def _judge_dirty(exe, inp, slack, ident, desc, tag, prefix, budget=None, stalled=False):
    """Re-run one dirty input alone. -> record dict (reported by _report on the main thread)"""
    path = prefix + ".in"
    open(path, "wb").write(inp)
    res = run_single(exe, path, slack, prefix, recover=stalled)
    if budget is not None and res["hang"]:
        with budget.lock:
            budget.hangs += 1
    mode = "slack%d" % slack if slack else "strict"
    case = {"mode": mode, "slack": slack, "ident": ident, "desc": desc, "size": len(inp), "sha": hashlib.sha256(inp).hexdigest()[:16],
            "input_hex": inp.hex() if len(inp) <= 65536 else None, "session": res["line"], "rc": res["rc"]}
    for f in os.listdir(os.path.dirname(prefix)):
        if f.startswith(os.path.basename(prefix) + "."):
            try:
                os.unlink(os.path.join(os.path.dirname(prefix), f))
            except OSError:
                pass
    return {"case": case, "keys": res["keys"], "once": res["timed_out"] in ("once", "starved"), "tag": tag, "mode": mode, "ident": ident,
            "desc": desc, "size": len(inp)}


def _report(chk, rec):
    case = rec["case"]
    if rec["once"]:
        chk.inconclusive_case("C10 input %s hit the %.0f s watchdog once and finished on the re-run" % (rec["ident"], SINGLE_TIMEOUT), case)
    out = []
    for key, ex in rec["keys"]:
        out.append(key)
        chk.note_set("keys_seen", key)
        chk.violation(key, "%s mode, input %s (%s, %d bytes): %s" % (rec["mode"], rec["ident"], rec["desc"], rec["size"], ex[:420]),
                      case, name="%s-%s" % (core.sha(key), rec["mode"]))
    if not rec["keys"] and rec["tag"] == "batch-crash" and not rec["once"]:
        chk.inconclusive_case("C10 input %s ended or stalled its batch process but is clean alone" % rec["ident"], case)
    return out


def run(chk, tier, replay=None):
    exe = harness_sa()
    mut = _mutator()
    if replay:
        c = replay["case"]["case"]
        inp = bytes.fromhex(c["input_hex"])
        keys = _report(chk, _judge_dirty(exe, inp, int(c.get("slack", 0)), c.get("ident", "replay"), c.get("desc", ""),
                                         "replay", os.path.join(chk.dir, "replay")))
        chk.count(1)
        chk.nontrivial_case("replay")
        chk.nontrivial_case("replay-keys:%s" % ",".join(keys))
        return chk.finish(rule="replay of one stored input")

    quick = tier == "quick"
    n_fresh = int((20000 if quick else 300000) * getattr(chk, "scale", 1))
    slack_too = _overread_open(chk)
    seeds = mut.load_seeds(CORPUS)
    if not seeds:
        raise core.HarnessError("committed corpus %s is empty" % CORPUS)
    mut_seeds = [s for s in seeds if s.name.startswith("s-")]
    corpus_inputs = [(s.name, s.raw) for s in seeds]
    chk.extra["corpus_files"] = len(corpus_inputs)
    chk.extra["corpus_reproducers"] = sum(1 for n, _ in corpus_inputs if n.startswith("crash-"))
    chk.extra["slack_mode_used"] = bool(slack_too)

    # ---- job list: (kind, slack, lo, hi)
    jobs = []
    for lo in range(0, len(corpus_inputs), CORPUS_BATCH):
        jobs.append(("corpus", 0, lo, min(len(corpus_inputs), lo + CORPUS_BATCH)))
        if slack_too:
            jobs.append(("corpus", 8, lo, min(len(corpus_inputs), lo + CORPUS_BATCH)))
    for lo in range(0, n_fresh, BATCH):
        jobs.append(("fresh", 0, lo, min(n_fresh, lo + BATCH)))
    if slack_too:
        for lo in range(0, n_fresh // 4, BATCH):
            jobs.append(("fresh", 8, lo, min(n_fresh // 4, lo + BATCH)))

    budget = Budget(max_reruns=int((400 if quick else 4000) * max(1.0, getattr(chk, "scale", 1))), max_hangs=2,
                    max_stalls=6 if quick else 30)

    def one(job):
        kind, slack, lo, hi = job
        if kind == "fresh" and budget.exhausted():
            with budget.lock:
                budget.skipped_jobs += 1
            return None
        tag = "%s-%d-%d-%d" % (kind, slack, lo, hi)
        pack = os.path.join(chk.dir, tag + ".pack")
        if kind == "corpus":
            inputs = [b for _, b in corpus_inputs[lo:hi]]
            descs = [n for n, _ in corpus_inputs[lo:hi]]
        else:
            pairs = [mut.mutant(chk.seed, i, mut_seeds) for i in range(lo, hi)]
            inputs = [p[0] for p in pairs]
            descs = [p[1] for p in pairs]
        mut.write_pack(pack, inputs)
        st = run_pack(exe, pack, len(inputs), slack, os.path.join(chk.dir, tag), budget=budget, keep_going=(kind == "corpus"))
        os.unlink(pack)
        found = []
        for idx, why in st.dirty:
            ident = descs[idx] if kind == "corpus" else "seed=%d index=%d" % (chk.seed, lo + idx)
            if why == "watchdog":
                if not budget.take_stall():
                    continue
            elif kind != "corpus" and not budget.take():
                continue
            found.append(_judge_dirty(exe, inputs[idx], slack, ident, descs[idx],
                                      "batch-crash" if why != "sanitizer output" else "dirty",
                                      os.path.join(chk.dir, tag + "-%d" % idx), budget, stalled=(why == "watchdog")))
        hashes = set(hashlib.sha256(b).digest()[:8] for b in inputs)
        nontriv = set(hashlib.sha256(inputs[i]).hexdigest()[:12] for i in st.sigs if i < len(inputs))
        return kind, slack, st, hashes, nontriv, found

    # mutant generation is Python (GIL): keep the pool modest, the decoder processes do the real work
    results = core.pmap(one, jobs, workers=min(8, core.default_workers()))

    cov = None
    distinct = set()
    rcs = {}
    obus = 0
    for res in results:
        if res is None:
            continue
        kind, slack, st, hashes, nontriv, found = res
        for rec in found:
            _report(chk, rec)
        chk.count(st.execs)
        chk.bump("executions_%s_%s" % (kind, "slack" if slack else "strict"), st.execs)
        chk.bump("pictures_output", st.pics)
        chk.bump("inputs_with_decoded_picture", st.decoded_inputs)
        chk.bump("dirty_inputs_rerun_alone", len(st.dirty))
        chk.bump("process_restarts", st.restarts)
        if st.abandoned:
            chk.bump("inputs_abandoned_after_budget", st.abandoned)
        distinct |= hashes
        for h in nontriv:
            chk.nontrivial_case(h)
        for k, v in st.rcs.items():
            rcs[k] = rcs.get(k, 0) + v
        obus |= st.obus
        if st.cov is not None:
            if cov is None or len(cov) != len(st.cov):
                cov = bytearray(st.cov)
            else:
                cov = bytearray(x | y for x, y in zip(cov, st.cov))
    chk.extra["distinct_inputs"] = len(distinct)
    chk.extra["return_codes"] = {("0x" + k): v for k, v in sorted(rcs.items())}
    chk.extra["first_obu_types_fed"] = [t for t in range(16) if obus >> t & 1]
    if cov is not None:
        chk.extra["coverage_counters_hit"] = sum(1 for x in cov if x)
        chk.extra["coverage_counters_total"] = len(cov)
    chk.extra.setdefault("keys_seen", [])
    if budget.skipped_jobs or budget.skipped_dirty or chk.extra.get("inputs_abandoned_after_budget"):
        chk.extra["exploration_cut_short"] = {
            "why": "budget exhausted (%d re-runs, %d stalls in batches, %d reproducible hangs): pervasive defects must be "
                   "repaired before the rest can be explored" % (budget.reruns, budget.stalls, budget.hangs),
            "batches_skipped": budget.skipped_jobs, "dirty_inputs_not_rerun": budget.skipped_dirty}
    chk.sample({"corpus": len(corpus_inputs), "fresh": n_fresh, "mutator_seed": chk.seed, "example": mut.mutant(chk.seed, 0, mut_seeds)[1]})
    return chk.finish(
        rule="cases = every file of corpus/c10 (strict%s) + mutant(VERIF_SEED, i, seeds) for i < N (strict%s); one decoder "
             "session per case, ASan+UBSan; a case is non-trivial when the frame call was reached and it either output a "
             "picture or was rejected with an error code; distinct = hash of the input bytes"
             % ((" + slack8", " + slack8 for i < N/4") if slack_too else ("", "")),
        min_evaluations=len(corpus_inputs))


# ------------------------------------------------------------------ triage helper (campaigns; not used by ./check)
def triage(exe, files, slack, outdir, workers=6):
    """Re-run every file alone; -> {key: [(size, file)]} and prints a table."""
    os.makedirs(outdir, exist_ok=True)

    def one(i_f):
        i, f = i_f
        res = run_single(exe, f, slack, os.path.join(outdir, "t%05d" % i), want_hang_site=True)
        return f, res

    table = {}
    clean = []
    for f, res in core.pmap(one, list(enumerate(files)), workers=workers):
        if not res["keys"]:
            clean.append(f)
        for k, ex in res["keys"]:
            table.setdefault(k, []).append((os.path.getsize(f), f, ex))
    return table, clean


def minimise(exe, inp, key, slack, workdir, max_tests=400):
    """Greedy structure-aware + chunk-deletion minimiser: keeps `key` among the keys of the input run alone.
    -> (bytes, tests)"""
    mut = _mutator()
    os.makedirs(workdir, exist_ok=True)
    tests = [0]
    barekey = key

    def has(b):
        if tests[0] >= max_tests:
            return False
        tests[0] += 1
        path = os.path.join(workdir, "m.in")
        open(path, "wb").write(b)
        res = run_single(exe, path, slack, os.path.join(workdir, "m"), want_hang_site=False)
        return any(k == barekey for k, _ in res["keys"])

    if not has(inp):
        return None, tests[0]
    best = inp
    # 1. drop whole calls / OBUs
    ctl, calls = mut.parse_input(best)
    if ctl & mut.CTL_MULTI and len(calls) > 1:
        i = len(calls) - 1
        while i >= 0 and len(calls) > 1:
            cand = calls[:i] + calls[i + 1:]
            b = mut.build_input(ctl, cand)
            if has(b):
                calls = cand
                best = b
            i -= 1
    # 2. chunk deletion on the raw bytes (keep the control byte)
    n = max(1, (len(best) - 1) // 2)
    while n >= 1 and tests[0] < max_tests:
        i = 1
        changed = False
        while i < len(best) and tests[0] < max_tests:
            cand = best[:i] + best[i + n:]
            if len(cand) < len(best) and has(cand):
                best = cand
                changed = True
            else:
                i += n
        if n == 1:
            break
        n = max(1, n // 2) if not changed or n > 1 else n
    return best, tests[0]


if __name__ == "__main__":
    import sys
    a = sys.argv[1:]
    if a and a[0] == "minimise":
        # python3 -m vf.props.c10 minimise <slack> <key> <infile> <outfile>
        exe = harness_sa()
        inp = open(a[3], "rb").read()
        out, t = minimise(exe, inp, a[2], int(a[1]), a[4] + ".work")
        if out is None:
            print("key not reproduced by %s" % a[3])
            sys.exit(1)
        open(a[4], "wb").write(out)
        print("%d -> %d bytes in %d tests" % (len(inp), len(out), t))
    if a and a[0] == "triage":
        # python3 -m vf.props.c10 triage <slack> <outdir> files...
        exe = harness_sa()
        table, clean = triage(exe, a[3:], int(a[1]), a[2])
        for k in sorted(table):
            v = sorted(table[k])
            print("%s\n    n=%d smallest=%s (%d bytes)" % (k, len(v), v[0][1], v[0][0]))
        print("clean: %d" % len(clean))
        json.dump({k: [(s, f) for s, f, _ in sorted(v)] for k, v in table.items()}, open(os.path.join(a[2], "table.json"), "w"), indent=1)
        json.dump({k: sorted(v)[0][2] for k, v in table.items()}, open(os.path.join(a[2], "excerpts.json"), "w"), indent=1)
