"""C06 - output does not depend on the CPU instruction set used."""
from .. import build, cfggen
from . import common, equiv

LEVEL = "exploration"
F = {"MMX": 1 << 0, "SSE": 1 << 1, "SSE2": 1 << 2, "SSE3": 1 << 3, "SSSE3": 1 << 4, "SSE4_1": 1 << 5, "SSE4_2": 1 << 6,
     "AVX": 1 << 7, "AVX2": 1 << 8}


def upto(name):
    return (F[name] << 1) - 1


def configs(rng, tier):
    t = cfggen.tiny_case
    out = [
        t(rng, frames=9, width=128, height=96, content="extreme", **{"cfg.qp": 20}),
        t(rng, frames=9, width=128, height=96, content="noise", bitdepth=10, **{"cfg.qp": 10}),
        t(rng, frames=12, width=176, height=144, content="mix", **{"cfg.enc_mode": 6}),
        t(rng, frames=6, width=96, height=64, content="zoom", **{"cfg.enc_mode": 2}),
        t(rng, frames=12, width=192, height=128, content="screen", **{"cfg.screen_content_mode": 1, "cfg.palette_level": 1,
                                                                     "cfg.intrabc_mode": 1}),
    ]
    if tier != "quick":
        for _ in range(35):
            c = cfggen.gen_case(rng, quick=True, allow_slow=rng.random() < 0.3)
            c["content"] = rng.choice(["extreme", "noise", "gradient", "mix", "screen", "cuts", "flat"])
            out.append(c)
    return out


def run(chk, tier, replay=None):
    rng = chk.rng
    levels = [("C only", 0), ("<=SSE2", upto("SSE2")), ("<=SSSE3", upto("SSSE3")), ("<=SSE4_1", upto("SSE4_1")),
              ("<=AVX2", upto("AVX2")), ("ALL", (1 << 16) - 1)]
    use512 = tier != "quick" and build.has_avx512()
    groups = []
    for base in configs(rng, tier):
        vs = [equiv.Variant("use_cpu_flags=%s" % n, {"cfg.use_cpu_flags": v}) for n, v in levels]
        if use512:
            vs.append(equiv.Variant("ALL on avx512 build", {"cfg.use_cpu_flags": (1 << 16) - 1}, flavour="avx512"))
        groups.append((base, vs))
    key_of = lambda base, v, kind: "C06|%s|%s|%s" % (
        {"differs": "output-depends-on-isa", "hang": "encode-hang", "crash": "encoder-crash"}[kind], v.label,
        common.feature_sig(base))
    equiv.run_groups(chk, "C06", groups, key_of, hang_in_scope=False)
    chk.extra["isa_levels"] = [n for n, _ in levels] + (["avx512 build"] if use512 else [])
    return chk.finish(
        rule="each configuration encoded with use_cpu_flags in {C only, <=SSE2, <=SSSE3, <=SSE4_1, <=AVX2, ALL} (thorough: "
             "plus ALL on an ENABLE_AVX512 build); hashes of packets+metadata+recon must equal the C-only run. "
             "non-trivial = configuration with >= 2 packets for which all levels completed and matched")
