"""C11 - encoding never corrupts memory, hits undefined behaviour or hangs."""
import os

from .. import cfggen, core, enc
from . import common

LEVEL = "exploration"


def extremes(rng, quick):
    t = cfggen.tiny_case
    out = []
    out.append(t(rng, frames=5, content="noise", **{"cfg.qp": 0}))
    out.append(t(rng, frames=5, content="noise", width=128, height=96, **{"cfg.qp": 1, "cfg.enc_mode": 6}))
    out.append(t(rng, frames=5, content="extreme", **{"cfg.qp": 63}))
    out.append(t(rng, frames=9, content="extreme", width=66, height=66, **{"cfg.qp": 0}))
    out.append(t(rng, frames=9, content="gradient", width=70, height=94))
    out.append(t(rng, frames=6, content="mix", width=98, height=66, bitdepth=10))
    out.append(t(rng, frames=5, content="mix", width=256, height=144, **{"cfg.tile_columns": 2, "cfg.tile_rows": 2, "cfg.logical_processors": 8}))
    out.append(t(rng, frames=5, content="pan", width=64, height=64, **{"cfg.tile_columns": 4, "cfg.tile_rows": 6}))
    for d in (9, 16):
        out.append(t(rng, frames=6, content="pan", width=192, height=128, **{"cfg.superres_mode": 1, "cfg.superres_denom": d, "cfg.superres_kf_denom": d}))
    out.append(t(rng, frames=6, content="noise", width=128, height=96, **{"cfg.film_grain_denoise_strength": 50}))
    out.append(t(rng, frames=12, content="cuts", width=128, height=96, passes=2, **{"cfg.rate_control_mode": 1, "cfg.target_bit_rate": 100000}))
    out.append(t(rng, frames=8, content="screen", width=192, height=128, **{"cfg.screen_content_mode": 1, "cfg.intrabc_mode": 1, "cfg.palette_level": 1}))
    out.append(t(rng, frames=6, content="flat", **{"cfg.rate_control_mode": 1, "cfg.target_bit_rate": 10000, "cfg.min_qp_allowed": 60, "cfg.max_qp_allowed": 63}))
    out.append(t(rng, frames=6, content="noise", **{"cfg.rate_control_mode": 2, "cfg.target_bit_rate": 50000000, "cfg.intra_period_length": 7, "cfg.look_ahead_distance": 7, "cfg.hierarchical_levels": 2, "cfg.logical_processors": 4}))
    for p in range(0, 8):
        out.append(t(rng, frames=3 if p < 3 else 6, content=["mix", "zoom", "rects"][p % 3], width=96, height=64, **{"cfg.enc_mode": p}))
    # one tile whose entropy-coded payload crosses the range coder's initial buffer size several times
    out.append(t(rng, frames=2, content="noise", width=320, height=240, **{"cfg.qp": 0, "cfg.logical_processors": 4}))
    out.append(t(rng, frames=2, content="noise", width=256, height=192, bitdepth=10, **{"cfg.qp": 1, "cfg.logical_processors": 4}))
    out.append(t(rng, frames=9, content="still", width=128, height=96, **{"cfg.film_grain_denoise_strength": 12}))
    out.append(t(rng, frames=12, content="splitv", width=128, height=128, **{"cfg.tile_rows": 1, "cfg.qp": 10}))
    out.append(t(rng, frames=17, content="cuts", width=128, height=96, **{"cfg.enable_overlays": 1, "cfg.hierarchical_levels": 3}))
    out.append(t(rng, frames=20, content="pan", width=128, height=96, **{"cfg.look_ahead_distance": 17, "cfg.enable_tpl_la": 1, "cfg.enc_mode": 6}))
    if not quick:
        out.append(t(rng, frames=3, content="pan", width=1920, height=1080, **{"cfg.logical_processors": 16}))
        out.append(t(rng, frames=2, content="mix", width=4096, height=2160, **{"cfg.logical_processors": 16}))
        out.append(t(rng, frames=2, content="noise", width=4096, height=64, **{"cfg.logical_processors": 8}))
        out.append(t(rng, frames=2, content="noise", width=64, height=2160, **{"cfg.logical_processors": 8}))
    return out


def run(chk, tier, replay=None):
    rng = chk.rng
    quick = tier == "quick"
    cases = extremes(rng, quick)
    # The quick tier runs the fixed list of extremes only (configurations are constants, VERIF_SEED varies the content):
    # the encoder has a long tail of latent reports (two campaigns of 120 + 250 random cases found 26 and then 14 more
    # reporting functions), so a random draw in the per-change tier would mostly rediscover that tail.  The thorough
    # tier explores random accepted configurations on top.
    total = 0 if quick else int(500 * getattr(chk, "scale", 1))
    while len(cases) < total:
        c = cfggen.gen_case(rng, quick=True, allow_slow=rng.random() < 0.25)
        if int(c.get("cfg.enc_mode", 8)) <= 3:
            c["frames"] = min(int(c["frames"]), 4)
        c["frames"] = min(int(c["frames"]), 17)
        cases.append(c)
    if replay:
        cases = [replay["case"]["case"]]

    def one(ic):
        i, case = ic
        prefix = os.path.join(chk.dir, "c%04d" % i)
        short = common.known_hang_region(case)
        res = enc.run_case("asan", case, prefix, timeout=60 if short else None)
        if res.timed_out and not short:
            res = enc.run_case("asan", case, prefix)
        v = []
        if res.timed_out:
            v.append(("C11|encode-hang|%s" % common.hang_sig(case), "encode did not finish within the watchdog (twice): %s" % common.log_tail(prefix)))
        elif res.res and res.res.get("api_error") == 2:
            return case, res, [("rejected-config", "")]
        elif enc.crashed(res) or res.res is None:
            v.append(("C11|crash|%s" % (res.san[0][0] if res.san else "rc%s|%s" % (res.rc, common.feature_sig(case))),
                      "encoder process died rc=%s; %s" % (res.rc, res.san[0][1][:600] if res.san else res.stderr[-400:])))
        elif res.res.get("api_error"):
            v.append(("C11|error-packet|%s" % common.feature_sig(case), "API reported an error: %s" % res.res.get("errmsg")))
        else:
            for p in res.pkts:
                if p["flags"] & 0xFFFFFFF0:
                    v.append(("C11|error-packet|%s" % common.feature_sig(case), "packet %d carries error flags 0x%x" % (p["i"], p["flags"])))
                    break
        seen = set()
        for k, ex in res.san:
            if k in seen:
                continue
            seen.add(k)
            v.append(("C11|%s" % k, ex))
        if not v:
            enc.cleanup(prefix)
        return case, res, v

    for case, res, v in core.pmap(one, list(enumerate(cases)), workers=max(2, core.default_workers() // 2)):
        chk.count()
        if v and v[0][0] == "rejected-config":
            chk.bump("rejected_config_draws")
            continue
        chk.bump("packets_produced", len(res.pkts))
        if not any(k for k, _ in v if not chk_known(chk, k)):
            if len(res.pkts) >= 1:
                chk.nontrivial_case(core.sha(cfggen.case_ident(case)))
                chk.note_set("feature_signatures_run", common.feature_sig(case))
        if not v:
            chk.sample({k: case[k] for k in sorted(case) if k != "out"}, limit=4)
        for key, why in v:
            chk.violation(key, why, case)
    return chk.finish(
        rule="full encodes (init..EOS..teardown) on the ASan+UBSan build over extremes (qp 0/1/63, incompressible noise, "
             "non-multiple-of-8 sizes, maximum tiles, superres denominators, film grain 50, 2-pass, screen content, 10-bit, "
             "every preset; thorough: 1080p/4K) and seeded random accepted configurations; any ASan report, any UBSan report "
             "outside the audited benign list, any error packet, crash or reproducible hang is a violation. non-trivial = case "
             "that produced packets with no unknown report")


def chk_known(chk, key):
    return core.match_known(chk.pid, key, chk.known) is not None
