"""C19 - intra refresh follows the configured period; key frames are random-access points."""
import os

from .. import av1parse, cfggen, core, enc
from . import common

LEVEL = "exploration"
KEY, INTER, INTRA_ONLY = 0, 1, 2


def judge(case, prefix):
    out = []
    info = {"positions": 0, "intra_positions": 0, "cut_points": 0, "suffix_pictures_compared": 0}
    g = lambda k, d: int(case.get(k, d))
    P = g("cfg.intra_period_length", -2)
    rt = g("cfg.intra_refresh_type", 1)
    sig = "ip%d+rt%d+hl%s%s" % (P, rt, case.get("cfg.hierarchical_levels", "d"), "+ovl" if g("cfg.enable_overlays", 0) else "")
    pk = [d for _, d in enc.read_ivf(prefix + ".ivf")]
    st = av1parse.parse_stream(pk)
    if st.errors:
        return [(None, "stream does not parse: %s" % st.errors[:2])], info
    key_packets = []
    for pos, p in enumerate(st.packets):
        shown = [f for f in p.frame_headers if f.show_frame or f.show_existing_frame]
        if len(shown) != 1:
            return [(None, "packet %d has %d displayed frames (C02's subject)" % (pos, len(shown)))], info
        f = shown[0]
        ftype = f.display_frame_type if f.show_existing_frame else f.frame_type
        info["positions"] += 1
        intra = ftype in (KEY, INTRA_ONLY)
        expected = (pos == 0) if P == -1 else (pos % (P + 1) == 0)
        if intra:
            info["intra_positions"] += 1
        if intra != expected:
            out.append(("C19|intra-placement|%s" % sig, "display position %d is %s, expected %s with intra period %d"
                        % (pos, "intra-coded" if intra else "inter-coded", "intra" if expected else "inter", P)))
            break
        if expected and rt == 2 and ftype != KEY:
            out.append(("C19|idr-not-key-frame|%s" % sig, "display position %d: IDR refresh requested but the displayed frame "
                                                         "has frame_type %d" % (pos, ftype)))
            break
        if pos == 0 and ftype != KEY:
            out.append(("C19|first-frame-not-key|%s" % sig, "first displayed frame has type %d" % ftype))
            break
        if ftype == KEY:
            key_packets.append(pos)
    if out:
        return out, info
    # random access at every shown key frame
    st_a, ia = enc.ref_decode(prefix + ".ivf", "aom", prefix + ".full")
    if st_a != "ok":
        return [(None, "full decode not available (%s): C01's subject" % st_a)], info
    full = core.read_frames(prefix + ".full")
    for kp in key_packets:
        if kp == 0:
            continue
        info["cut_points"] += 1
        for which in ("aom", "dav1d"):
            s2, i2 = enc.ref_decode(prefix + ".ivf", which, prefix + ".suffix", extra=["from=%d" % kp])
            if s2 == "inconclusive":
                out.append((None, "%s unavailable for suffix decode" % which))
                continue
            if s2 == "rejected":
                if which == "aom":
                    out.append(("C19|suffix-undecodable|%s" % sig, "libaom cannot decode the stream starting at the key-frame "
                                                                  "packet %d (fails at packet %s)" % (kp, i2.get("fail_packet"))))
                else:
                    out.append((None, "dav1d alone rejects the suffix from packet %d" % kp))
                continue
            suf = core.read_frames(prefix + ".suffix")
            if len(suf) != len(full) - kp:
                key = "C19|suffix-count|%s" % sig
                why = "%s decodes %d pictures from key-frame packet %d, %d expected" % (which, len(suf), kp, len(full) - kp)
                out.append((key, why) if which == "aom" else (None, why))
                continue
            for k, fr in enumerate(suf):
                info["suffix_pictures_compared"] += 1
                if fr[4] != full[kp + k][4]:
                    key = "C19|suffix-differs|%s" % sig
                    why = ("%s: picture at display position %d differs when decoding starts at key-frame packet %d (%s)"
                           % (which, kp + k, kp, core.first_diff(fr[4], full[kp + k][4])))
                    out.append((key, why) if which == "aom" else (None, why))
                    break
        if out:
            break
    return out, info


def gen_cases(rng, tier, scale):
    quick = tier == "quick"
    cases = []
    t = cfggen.tiny_case
    periods = [-1, 0, 1, 2, 3, 5, 7, 8, 15, 16, 31, 32]
    for L in range(0, 6):
        for P in (periods if not quick else rng.sample(periods, 8)):
            for rt in ((1, 2) if not quick else (rng.choice([1, 2]),)):
                for ov in ((0, 1) if not quick else (rng.choice([0, 0, 1]),)):
                    n = rng.choice([2 * (P + 1) + 3 if P >= 0 else 20, 3 * (P + 1) + 1 if P >= 0 else 33, 40])
                    n = max(4, min(n, 70))
                    cases.append(t(rng, frames=n, content=rng.choice(["pan", "rects", "cuts", "mix"]),
                                   **{"cfg.hierarchical_levels": L, "cfg.intra_period_length": P, "cfg.intra_refresh_type": rt,
                                      "cfg.enable_overlays": ov, "cfg.recon_enabled": 0, "cfg.logical_processors": 4}))
    rng.shuffle(cases)
    k = int((60 if quick else 800) * scale)
    return cases[:k]


def run(chk, tier, replay=None):
    cases = [replay["case"]["case"]] if replay else gen_cases(chk.rng, tier, getattr(chk, "scale", 1))

    def one(ic):
        i, case = ic
        prefix = os.path.join(chk.dir, "c%04d" % i)
        if common.known_hang_region(case):
            return case, [("skip", "")], {}
        res = enc.run_case("plain", case, prefix)
        if res.timed_out or enc.crashed(res) or res.res is None or res.res.get("api_error"):
            kind = "rejected-config" if (res.res and res.res.get("api_error") == 2) else None
            return case, [(kind, "encode did not complete (timeout=%s rc=%s %s): judged by C11/C04, not here"
                           % (res.timed_out, res.rc, (res.res or {}).get("errmsg")))], {}
        v, info = judge(case, prefix)
        if not v:
            enc.cleanup(prefix)
        return case, v, info

    for case, v, info in core.pmap(one, list(enumerate(cases))):
        if v and v[0][0] == "skip":
            chk.bump("skipped_known_hang_region")
            continue
        chk.count()
        if v and v[0][0] == "rejected-config":
            chk.bump("rejected_config_draws")
            continue
        for k in info:
            chk.bump(k, info[k])
        if not v:
            if info.get("positions", 0) >= 2:
                chk.nontrivial_case(core.sha(cfggen.case_ident(case)))
            chk.sample({"case": {k: case[k] for k in sorted(case) if k.startswith("cfg.") or k == "frames"},
                        "intra_positions": info.get("intra_positions"), "cut_points": info.get("cut_points")}, limit=5)
        for key, why in v:
            if key is None:
                chk.inconclusive_case(why, case)
            else:
                chk.violation(key, why, case)
    return chk.finish(
        rule="intra period P x refresh type x hierarchical levels 0..5 x overlays x length: frame type of every display "
             "position from an independent header parser (intra exactly at multiples of P+1, shown KEY_FRAME for IDR); at "
             "every packet carrying a shown key frame, a fresh libaom and a fresh dav1d decode the suffix and every picture "
             "must equal the full decode. non-trivial = stream of >= 2 positions fully checked")
