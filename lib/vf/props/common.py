"""Oracles shared by several property checks."""
import os

from .. import cfggen, core, enc


def feature_sig(case):
    """Coarse, stable signature of the 'risky' features of a case: used in violation keys so that a known finding
    is tied to the feature combination that fails, not to one random draw."""
    f = []
    g = lambda k, d=0: int(case.get(k, d))
    if g("bitdepth", 8) > 8:
        f.append("10bit")
    if g("cfg.is_16bit_pipeline"):
        f.append("16bitpipe")
        if g("bitdepth", 8) == 8 and g("width", 64) % 64 and not g("cfg.disable_dlf_flag"):
            f.append("pipe16-8bit-partial-sb-column")  # 8-bit input, 16-bit pipeline, last SB column partial, deblocking on
    rc = g("cfg.rate_control_mode")
    if rc:
        f.append("rc%d" % rc)
    if g("passes", 1) == 2:
        f.append("2pass")
    if g("cfg.superres_mode"):
        f.append("superres%d" % g("cfg.superres_mode"))
    if g("cfg.film_grain_denoise_strength"):
        f.append("filmgrain")
    if g("cfg.enable_overlays"):
        f.append("overlays")
    if g("cfg.screen_content_mode") == 1:
        f.append("sc")
    if g("cfg.intrabc_mode", -1) > 0:
        f.append("intrabc")
    if g("cfg.tile_columns") or g("cfg.tile_rows"):
        f.append("tiles")
    if g("cfg.use_fixed_qindex_offsets"):
        f.append("fixedqidx")
    if g("width", 64) % 8 or g("height", 64) % 8:
        f.append("non8")
    if g("cfg.enable_tpl_la"):
        f.append("tpl")
    if g("cfg.over_bndry_blk", -1) == 0 and (g("width", 64) % 64 or g("height", 64) % 64):
        f.append("noovb")  # blocks over the picture boundary disallowed on a picture that is not a whole number of SBs
    return "+".join(f) if f else "base"


def forced_feature_cases(rng):
    """One case per feature named in C01's quantifier (so coverage never depends on luck)."""
    out = []
    base = lambda **kw: dict(cfggen.tiny_case(rng, **kw))
    for p in range(0, 9):
        out.append(base(frames=5 if p < 4 else 12, **{"cfg.enc_mode": p, "content": rng.choice(["pan", "rects", "mix"]),
                                                        "width": 96, "height": 64}))
    out.append(base(frames=17, bitdepth=10, width=128, height=96, content="zoom"))
    out.append(base(frames=12, bitdepth=10, **{"cfg.is_16bit_pipeline": 1, "content": "rects"}))
    out.append(base(frames=12, **{"cfg.is_16bit_pipeline": 1, "content": "mix"}))
    for rc in (1, 2):
        c = base(frames=24, width=128, height=96, **{"cfg.rate_control_mode": rc, "cfg.target_bit_rate": 200000,
                                                       "content": "cuts"})
        if rc == 2:
            c["cfg.intra_period_length"] = 15
            c["cfg.look_ahead_distance"] = 15
        out.append(c)
    out.append(base(frames=20, passes=2, width=128, height=96, **{"cfg.rate_control_mode": 1,
                                                                  "cfg.target_bit_rate": 300000, "content": "pan"}))
    out.append(base(frames=16, passes=2, **{"cfg.rate_control_mode": 0, "content": "rects"}))
    out.append(base(frames=10, width=192, height=128, **{"cfg.superres_mode": 1, "cfg.superres_denom": 12,
                                                         "cfg.superres_kf_denom": 10, "content": "pan"}))
    out.append(base(frames=10, width=192, height=128, **{"cfg.superres_mode": 2, "content": "mix"}))
    out.append(base(frames=10, width=128, height=96, **{"cfg.film_grain_denoise_strength": 10, "content": "noise"}))
    out.append(base(frames=10, bitdepth=10, width=128, height=96, **{"cfg.film_grain_denoise_strength": 50,
                                                                    "content": "pan"}))
    # static noisy scene with film grain: later frames inherit the grain parameters of their reference
    out.append(base(frames=12, width=128, height=96, **{"cfg.film_grain_denoise_strength": 12, "content": "still", "cfg.logical_processors": 4}))
    out.append(base(frames=12, bitdepth=10, width=128, height=96, **{"cfg.film_grain_denoise_strength": 30, "content": "still", "cfg.logical_processors": 4,
                                                                    "cfg.hierarchical_levels": 2}))
    out.append(base(frames=33, width=128, height=96, **{"cfg.enable_overlays": 1, "cfg.hierarchical_levels": 4,
                                                        "content": "pan"}))
    out.append(base(frames=12, width=192, height=128, **{"cfg.screen_content_mode": 1, "cfg.intrabc_mode": 1,
                                                         "cfg.palette_level": 1, "content": "screen"}))
    out.append(base(frames=9, width=352, height=288, **{"cfg.tile_columns": 2, "cfg.tile_rows": 1, "content": "mix",
                                                        "cfg.logical_processors": 8}))
    # tiles whose compressed sizes differ by orders of magnitude (size-field width is chosen per frame)
    out.append(base(frames=9, width=128, height=128, content="splitv", **{"cfg.tile_rows": 1, "cfg.logical_processors": 4, "cfg.qp": 20}))
    out.append(base(frames=9, width=256, height=128, content="splith", **{"cfg.tile_columns": 1, "cfg.logical_processors": 4, "cfg.qp": 30}))
    out.append(base(frames=6, width=256, height=256, content="splitv", **{"cfg.tile_rows": 2, "cfg.tile_columns": 1, "cfg.logical_processors": 8, "cfg.qp": 10}))
    # variance based segmentation (AQ mode 1): segment ids are predicted from neighbours (tile-relative in a decoder) and
    # every segment has its own qindex (0 would be lossless, > 255 outside the tables)
    out.append(base(frames=9, width=192, height=192, content="mix", **{"cfg.enable_adaptive_quantization": 1, "cfg.tile_columns": 1,
                                                                    "cfg.tile_rows": 1, "cfg.qp": 30, "cfg.logical_processors": 4}))
    out.append(base(frames=9, width=192, height=128, content="pan", **{"cfg.enable_adaptive_quantization": 1, "cfg.qp": 20}))
    out.append(base(frames=5, width=128, height=128, content="noise", **{"cfg.enable_adaptive_quantization": 1, "cfg.qp": 63}))
    out.append(base(frames=9, width=70, height=94, content="gradient"))
    out.append(base(frames=9, width=66, height=66, content="extreme", **{"cfg.qp": 0}))
    out.append(base(frames=9, content="noise", **{"cfg.qp": 63}))
    for hl in range(0, 6):
        out.append(base(frames=2 * (1 << hl) + 3, **{"cfg.hierarchical_levels": hl, "content": "rects",
                                                      "cfg.intra_period_length": rng.choice([-1, 7, 16])}))
    out.append(base(frames=20, width=128, height=96, **{"cfg.look_ahead_distance": 17, "cfg.enable_tpl_la": 1,
                                                        "content": "pan", "cfg.enc_mode": 6}))
    out.append(base(frames=16, width=176, height=144, content="zoom", **{"cfg.enable_global_motion": 1,
                                                                      "cfg.enable_warped_motion": 1, "cfg.enc_mode": 4}))
    return out


def judge_recon_vs_refdec(chk, pid, case, res, prefix, want_frames=None):
    """Oracle of C01 (also used by C22/C11-lite):
    libaom and dav1d decode the stream; for every display position k, aom[k] == dav1d[k] == recon[pts_k]."""
    v = {"verdict": "held", "why": "", "key": None, "frames": 0, "sig": feature_sig(case)}
    if res.timed_out:
        v.update(verdict="inconclusive", why="encode hit the watchdog (%.0fs)" % res.wall)
        return v
    if res.res and res.res.get("api_error") == 2:
        v.update(verdict="rejected-config", why=res.res.get("errmsg", ""))
        return v
    if enc.crashed(res) or res.res is None:
        # a crashing encode emits nothing that could be judged here; crashes are C11's subject
        v.update(verdict="inconclusive", why="encoder process died (rc=%s) before the stream could be judged: C11's subject [%s]"
                                              % (res.rc, v["sig"]))
        return v
    if res.res.get("api_error"):
        v.update(verdict="violated", key="%s|encoder-error|%s|%s" % (pid, res.res.get("errmsg", "")[:40], v["sig"]),
                 why="API error: %s" % res.res.get("errmsg"))
        return v
    n = int(case.get("frames", 0))
    ivf = prefix + ".ivf"
    outs = {}
    infos = {}
    for which in ("aom", "dav1d"):
        st, info = enc.ref_decode(ivf, which, prefix + "." + which)
        infos[which] = (st, info)
        if st == "ok":
            outs[which] = core.read_frames(prefix + "." + which)
    st_a, info_a = infos["aom"]
    st_d, info_d = infos["dav1d"]
    if st_a == "inconclusive" or st_d == "inconclusive":
        v.update(verdict="inconclusive", why="reference decoder unavailable: %s / %s" % (info_a, info_d))
        return v
    if st_a == "rejected":
        v.update(verdict="violated", key="%s|rejected-by-libaom|%s" % (pid, v["sig"]),
                 why="libaom rejected the stream at packet %s (code %s); dav1d: %s"
                     % (info_a.get("fail_packet"), info_a.get("fail_code"), st_d))
        return v
    if st_d == "rejected":
        v.update(verdict="inconclusive", why="reference decoders disagree: dav1d rejects at packet %s, libaom decodes"
                                              % info_d.get("fail_packet"))
        return v
    aom, dav = outs["aom"], outs["dav1d"]
    recon = {}
    dup = 0
    for (key, w, h, bd, data) in core.read_frames(prefix + ".recon"):
        if key in recon:
            dup += 1
        recon[key] = (w, h, bd, data)
    v["frames"] = len(aom)
    if len(aom) != n:
        v.update(verdict="violated", key="%s|decoded-count|%s" % (pid, v["sig"]),
                 why="libaom decoded %d pictures, %d were submitted" % (len(aom), n))
        return v
    if len(dav) != len(aom):
        v.update(verdict="inconclusive", why="reference decoders disagree on picture count %d vs %d" % (len(aom), len(dav)))
        return v
    if len(recon) != n or dup:
        v.update(verdict="violated", key="%s|recon-count|%s" % (pid, v["sig"]),
                 why="recon delivered %d distinct pictures (+%d duplicates), %d submitted" % (len(recon), dup, n))
        return v
    pts0 = int(case.get("pts_start", 0))
    stride = int(case.get("pts_stride", 1))
    bad_dav = 0
    for k in range(n):
        a = aom[k]
        d = dav[k]
        pts = pts0 + k * stride
        if pts not in recon:
            v.update(verdict="violated", key="%s|recon-missing-position|%s" % (pid, v["sig"]),
                     why="no recon picture for display position %d (pts %d)" % (k, pts))
            return v
        r = recon[pts]
        if a[4] != d[4]:
            bad_dav += 1
        if (a[1], a[2]) != (r[0], r[1]) or a[4] != r[3]:
            # geometry or sample mismatch
            if a[4] != d[4] and d[4] == r[3]:
                v.update(verdict="inconclusive", why="reference decoders disagree at picture %d (dav1d == recon)" % k)
                return v
            diff = core.first_diff(a[4], r[3]) if (a[1], a[2]) == (r[0], r[1]) else "dims %sx%s vs %sx%s" % (a[1], a[2], r[0], r[1])
            v.update(verdict="violated", key="%s|recon-mismatch|%s" % (pid, v["sig"]),
                     why="display position %d: libaom output != encoder recon (%s); dav1d %s libaom"
                         % (k, diff, "==" if a[4] == d[4] else "!="))
            return v
    if bad_dav:
        v.update(verdict="inconclusive", why="dav1d differs from libaom on %d pictures while libaom == recon" % bad_dav)
        return v
    return v


def account(chk, pid, results):
    """results: list of (case, verdict dict)."""
    for case, v in results:
        chk.count()
        ident = cfggen.case_ident(case)
        if v["verdict"] == "held":
            if v.get("frames", 0) >= 2 or case.get("content") not in ("flat",):
                chk.nontrivial_case(core.sha(ident))
            chk.bump("frames_compared", v.get("frames", 0))
            chk.note_set("feature_signatures_held", v["sig"])
            chk.sample({k: case[k] for k in sorted(case) if k != "out"}, limit=4)
        elif v["verdict"] == "rejected-config":
            chk.bump("rejected_config_draws")
        elif v["verdict"] == "inconclusive":
            chk.inconclusive_case(v["why"], case)
        else:
            chk.violation(v["key"], v["why"], case)


def _hl5_region(case):
    hl = int(case.get("cfg.hierarchical_levels", 4))
    lp = int(case.get("cfg.logical_processors", 0))
    ov = int(case.get("cfg.enable_overlays", 0))
    return hl == 5 and (ov or 1 <= lp <= 2)


def _hl5_long_region(case):
    """the same deadlock for every 1 <= logical_processors <= 15 once the stream is longer than two mini-GOPs
    (measured: 66 pictures finish, 72 never do; always stuck submitting picture 104 with 33 packets delivered);
    an intra period of one mini-GOP (31) does not hang, 63 / 127 / none do"""
    hl = int(case.get("cfg.hierarchical_levels", 4))
    lp = int(case.get("cfg.logical_processors", 0))
    ip = int(case.get("cfg.intra_period_length", -2))
    return hl == 5 and 1 <= lp <= 15 and (ip < 0 or ip >= 32) and int(case.get("frames", 0)) >= 67


def _ovl4_region(case):
    """fourth deadlock family: overlays with the default 5-layer hierarchy (hierarchical_levels=4) and >= 25 pictures.
    Measured with intra period -1: N pictures never finish when N >= 25 and (N-1) mod 16 >= 8 (25..32, 41..48, 57..64,
    80, 90, 96 hang; 17..24, 33..40, 49..56, 81, 97 finish); with an intra period the pattern applies per GOP in a way
    that also depends on the refresh type, so the region is kept coarse.  Reproduced with the snapshot's own
    SvtAv1EncApp (--hierarchical-levels 4 --enable-overlays 1 -n 32 hangs, -n 33 finishes)."""
    return (int(case.get("cfg.hierarchical_levels", 4)) == 4 and int(case.get("cfg.enable_overlays", 0)) == 1
            and int(case.get("frames", 0)) >= 25)


def _hl1_short_region(case):
    """fifth deadlock family: a 2-layer hierarchy (hierarchical_levels=1) with presets 0..5 and a stream of exactly 2
    (presets 0..5) or 4 (presets 0..4) pictures never delivers a packet (sweep preset 0..8 x hl 0..3 x N 1..16 at 64x64,
    lp 4: these are the only hanging cells; overlays / rate control / lp do not matter)"""
    n = int(case.get("frames", 0))
    m = int(case.get("cfg.enc_mode", 8))
    return int(case.get("cfg.hierarchical_levels", 4)) == 1 and ((n == 2 and m <= 5) or (n == 4 and m <= 4))


def _rc_ip1_region(case):
    """sixth deadlock family: 1-pass VBR/CVBR (rate_control_mode 1/2, no stats file, look-ahead on) with
    intra_period_length=1: one packet is delivered, then nothing, for every size / hierarchy / lp / stream length >= 2
    (intra period 0, 2, 3, 5, 7 finish; 2-pass or look_ahead_distance=0 finish)"""
    return (int(case.get("cfg.rate_control_mode", 0)) in (1, 2) and int(case.get("cfg.intra_period_length", -2)) == 1
            and int(case.get("passes", 1)) == 1 and int(case.get("cfg.look_ahead_distance", -1)) != 0
            and int(case.get("frames", 0)) >= 2)


def _ipmg_region(case):
    """second deadlock family: <= 2 logical processors and an intra period that is a whole number of mini-GOPs
    (the configuration the API header recommends); send_picture blocks for ever on the input pool after ~16 pictures,
    content dependent (measured: hl 1..3 with intra period = minigop-1 always; hl 3 with 15 on some contents)."""
    hl = int(case.get("cfg.hierarchical_levels", 4))
    lp = int(case.get("cfg.logical_processors", 0))
    ip = int(case.get("cfg.intra_period_length", -2))
    return 1 <= lp <= 2 and ip >= 1 and hl >= 1 and (ip + 1) % (1 << hl) == 0


def _sbcol_region(case):
    """third deadlock family (C24 finding): one superblock column with >= 2 segment rows"""
    return int(case.get("width", 64)) <= 64 and int(case.get("height", 64)) >= 96 and int(case.get("cfg.logical_processors", 0)) not in (1, 2, 3)


def known_hang_region(case):
    """Configurations already known to deadlock the encoder (open findings).  Checks for which a hang is in scope
    still run them (short watchdog); the others skip them because they cannot be judged there."""
    try:
        n = int(case.get("frames", 0))
        return (_hl5_region(case) and n >= 32) or _hl5_long_region(case) or _ovl4_region(case) or _hl1_short_region(case) or _rc_ip1_region(case) or (_ipmg_region(case) and n >= 10) or (_sbcol_region(case) and n >= 1)
    except ValueError:
        return False


def hang_sig(case):
    try:
        if _hl5_region(case):
            return "hl5+(overlays|lp<=2)"
        if _hl5_long_region(case):
            return "hl5+lp<=15+frames>=67"
        if _ovl4_region(case):
            return "hl4+overlays+frames>=25"
        if _rc_ip1_region(case):
            return "rc12+intra-period-1"
        if _hl1_short_region(case):
            return "hl1+preset<=5+frames2or4"
        if _ipmg_region(case):
            return "lp<=2+intra-period-whole-minigops"
        if _sbcol_region(case):
            return "single-sb-column+rows>=2"
    except ValueError:
        pass
    return feature_sig(case) + "|hl%s+lp%s" % (case.get("cfg.hierarchical_levels", "d"), case.get("cfg.logical_processors", "d"))


def log_tail(prefix, n=3):
    try:
        lines = open(prefix + ".log").read().strip().split("\n")
        return " / ".join(lines[-n:])
    except OSError:
        return ""


def read_tag(frame, strict=False):
    """Decode the two-digit tag painted by the content generator (vcommon.h) from a decoded picture.
    strict: return None when a patch is not a clean, near-uniform rendering of one of the eight levels (the picture
    content was not coded faithfully enough to identify it; lossy coding owes no fidelity to the tag)."""
    key, w, h, bd, data = frame
    bps = 2 if bd > 8 else 1
    if w < 32 or h < 16:
        return None
    digits = []
    for d in range(2):
        tot = 0
        cnt = 0
        lo, hi = 1 << 20, -1
        for y in range(4, 12):
            row = (y * w + d * 16 + 4) * bps
            for x in range(8):
                if bps == 1:
                    v = data[row + x]
                else:
                    v = (data[row + 2 * x] | (data[row + 2 * x + 1] << 8)) >> (bd - 8)
                tot += v
                cnt += 1
                lo = min(lo, v)
                hi = max(hi, v)
        mean = tot / cnt
        digit = int(round((mean - 20) / 30.0))
        if strict and (digit < 0 or digit > 7 or abs(mean - (20 + 30 * digit)) > 9 or hi - lo > 24):
            return None
        digits.append(max(0, min(7, digit)))
    return digits[0] + 8 * digits[1]
