"""Helper part of C22: every order-hint distance computation returns the signed distance modulo the
order-hint period.

`run_reldist(chk, tier)` is called by c22.py (which also does the long-stream encodes and calls chk.finish).
White-box harness /verif/harness/reldist.c calls every relative-distance helper of the tree exhaustively
(enable_order_hint 1: bits 1..8 x a x b; enable_order_hint 0: bits 0..8 x a x b) and compares with
((a - b + m) mod 2m) - m, m = 2^(bits-1).

Helpers (file, linkage, how reached):
  common:get_relative_dist_enc        Source/Lib/Common/Codec/EbInterPrediction.c          non-static, direct call
  encoder-amvp:get_relative_dist      Source/Lib/Encoder/Codec/EbAdaptiveMotionVectorPrediction.c  static, hook H7
  encoder-picdec:get_relative_dist    Source/Lib/Encoder/Codec/EbPictureDecisionProcess.c          static, hook H7
  encoder-mdconfig:get_relative_dist  Source/Lib/Encoder/Codec/EbModeDecisionConfigurationProcess.c static, hook H7
  decoder:get_relative_dist           Source/Lib/Decoder/Codec/EbDecUtils.h (static INLINE; copy compiled into
                                      EbDecParseObu.c reached through hook H7 at the end of that file)
A source scan of the tree for definitions named *get_relative_dist* guards the completeness of this list: a
definition in a file the harness does not cover makes the run inconclusive instead of silently narrower."""
import os
import re

from .. import build, core, sanlog

# definition site (relative to the repo) -> harness helper name
COVERED = {
    "Source/Lib/Common/Codec/EbInterPrediction.c": "common:get_relative_dist_enc",
    "Source/Lib/Encoder/Codec/EbAdaptiveMotionVectorPrediction.c": "encoder-amvp:get_relative_dist",
    "Source/Lib/Encoder/Codec/EbPictureDecisionProcess.c": "encoder-picdec:get_relative_dist",
    "Source/Lib/Encoder/Codec/EbModeDecisionConfigurationProcess.c": "encoder-mdconfig:get_relative_dist",
    "Source/Lib/Decoder/Codec/EbDecUtils.h": "decoder:get_relative_dist",
}
TUPLES_PER_HELPER = sum(4 ** b for b in range(1, 9)) + sum(4 ** b for b in range(0, 9))  # 87380 + 87381

_def_re = re.compile(r"^[ \t]*(?:static[ \t]+)?(?:INLINE[ \t]+|inline[ \t]+)?(?:int|int32_t)[ \t]+"
                     r"(\w*get_relative_dist\w*)[ \t]*\(", re.M)


def scan_definitions(repo=None):
    """-> list of (relative file, function name, line) for every *definition* (not declaration) of an order-hint
    relative-distance helper in Source/Lib, the H7 wrappers excluded."""
    repo = repo or build.REPO
    found = []
    for root, dirs, files in os.walk(os.path.join(repo, "Source", "Lib")):
        dirs.sort()
        for fn in sorted(files):
            if not fn.endswith((".c", ".h")):
                continue
            p = os.path.join(root, fn)
            try:
                txt = open(p, errors="replace").read()
            except OSError:
                continue
            if "get_relative_dist" not in txt:
                continue
            for m in _def_re.finditer(txt):
                name = m.group(1)
                if name.startswith("svt_verif_"):
                    continue
                rest = txt[m.end():m.end() + 400]
                close = rest.find(")")
                after = rest[close + 1:].lstrip() if close >= 0 else ";"
                if not after.startswith("{"):
                    continue  # declaration
                found.append((os.path.relpath(p, repo), name, txt.count("\n", 0, m.start()) + 1))
    return found


def run_reldist(chk, tier, flavours=None):
    """Runs the exhaustive helper comparison, records evidence and violations on chk; returns a summary dict.
    Raises build.BuildError when hook H7 is missing from the tree (the harness does not link)."""
    flavours = flavours or (("plain",) if tier == "quick" else ("plain", "asan"))
    summary = {"helpers": {}, "tuples": 0, "mismatching_helpers": []}
    defs = scan_definitions()
    uncovered = [d for d in defs if d[0] not in COVERED]
    missing = [f for f in COVERED if f not in [d[0] for d in defs]]
    chk.extra["reldist_definitions_in_tree"] = ["%s:%d %s" % (f, ln, name) for f, name, ln in defs]
    for f, name, ln in uncovered:
        chk.inconclusive_case("order-hint distance helper %s defined at %s:%d is not covered by harness/reldist.c "
                              "(add an H7 wrapper and a table entry)" % (name, f, ln), {"file": f, "line": ln})
    for f in missing:
        chk.inconclusive_case("expected order-hint distance helper definition not found in %s (moved or renamed?): "
                              "reldist.c would be testing something else" % f, {"file": f})
    for fl in flavours:
        exe = build.harness(fl, "reldist", sources=["reldist.c"], link="wb", libs=("enc", "dec"))
        prefix = os.path.join(chk.dir, "reldist-" + fl)
        res = core.run([exe], timeout=1800, env=sanlog.env_for(fl, prefix) if fl != "plain" else None)
        case = {"flavour": fl, "cmd": "reldist"}
        if res.timed_out:
            chk.inconclusive_case("watchdog: reldist (%s)" % fl, case)
            continue
        if fl != "plain":
            for key, excerpt in (sanlog.collect(prefix) or sanlog.parse_stderr(fl, res.err)):
                chk.violation("C22|reldist|%s" % key, "sanitizer report while evaluating the order-hint distance helpers: "
                              + excerpt[:400], case)
        if res.rc not in (0, 1):
            raise core.HarnessError("reldist (%s) failed: rc=%d %s" % (fl, res.rc, res.err[-400:]))
        seen = {}
        fails = {}
        for ln in res.out.splitlines():
            d = dict(tok.partition("=")[::2] for tok in ln.split()[1:])
            if ln.startswith("HELPER "):
                seen[d["name"]] = d
            elif ln.startswith("FAIL "):
                fails.setdefault(d["helper"], []).append(d)
        for name in COVERED.values():
            if name not in seen:
                raise core.HarnessError("reldist (%s) printed no result for helper %s" % (fl, name))
        for name, d in sorted(seen.items()):
            tuples, mism = int(d["tuples"]), int(d["mismatches"])
            if tuples != TUPLES_PER_HELPER:
                raise core.HarnessError("reldist evaluated %d tuples for %s, expected %d" % (tuples, name, TUPLES_PER_HELPER))
            chk.count(tuples)
            summary["tuples"] += tuples
            summary["helpers"].setdefault(name, {})[fl] = {"tuples": tuples, "nonzero": int(d["nonzero"]),
                                                          "negative": int(d["negative"]), "wraps": int(d["wraps"]),
                                                          "mismatches": mism}
            if int(d["nonzero"]) > 0 and int(d["wraps"]) > 0:
                chk.nontrivial_case("reldist/%s/%s" % (fl, name))
            if mism:
                f0 = (fails.get(name) or [{}])[0]
                if name not in summary["mismatching_helpers"]:
                    summary["mismatching_helpers"].append(name)
                chk.violation("C22|reldist|%s" % name,
                              "%s returns a wrong order-hint distance on %d of %d tuples; first: enable_order_hint=%s "
                              "order_hint_bits=%s a=%s b=%s returned %s, signed distance modulo the period is %s (%s build)"
                              % (name, mism, tuples, f0.get("enable"), f0.get("bits"), f0.get("a"), f0.get("b"),
                                 f0.get("got"), f0.get("want"), fl), dict(case, first=f0))
    chk.extra["reldist"] = {"exhaustive": True, "tuples_per_helper": TUPLES_PER_HELPER,
                            "domain": "enable_order_hint=1: bits 1..8 x a,b in [0,2^bits); enable_order_hint=0: bits 0..8",
                            "helpers": summary["helpers"]}
    chk.extra["exhaustive"] = True
    if len(chk.samples) < 6:
        chk.sample({"reldist": {k: v.get("plain", {}) for k, v in summary["helpers"].items()}})
    return summary


def run(chk, tier, replay=None):
    """Stand-alone entry (development aid): ./check C22_RELDIST.  c22.py is the real entry point."""
    run_reldist(chk, tier)
    return chk.finish(rule="every order-hint relative-distance helper of the tree x every (enable, bits, a, b): exhaustive; "
                           "a helper is non-trivial when it returned non-zero distances and tuples whose modular distance "
                           "differs from a-b were among those evaluated")
