"""C02 - every output packet is one well-formed AV1 temporal unit."""
import os

from .. import av1parse, cfggen, core, enc
from . import common

LEVEL = "exploration"
KEY, INTER, INTRA_ONLY, SWITCH = 0, 1, 2, 3
PT_INTER, PT_ALT_REF, PT_INTRA_ONLY, PT_KEY, PT_NON_REF = 0, 1, 2, 3, 4
FLAG_EOS, FLAG_SHOW_EXT, FLAG_HAS_TD, FLAG_ALT_REF = 1, 2, 4, 8


def judge_stream(case, res, prefix, stream=None):
    """-> (list of (key, why), info dict)."""
    out = []
    info = {"packets": 0, "obus": 0, "seq_headers": 0, "show_existing": 0, "key_frames": 0, "hidden_frames": 0}
    sig = common.feature_sig(case)
    pkts = [d for _, d in enc.read_ivf(prefix + ".ivf")]
    if stream is None:
        stream = av1parse.parse_stream(pkts)
    meta = res.pkts
    if len(meta) != len(pkts):
        out.append((None, "packet metadata (%d) and IVF (%d) disagree" % (len(meta), len(pkts))))
        return out, info
    api_hdr = None
    if os.path.exists(prefix + ".hdr"):
        api_hdr = open(prefix + ".hdr", "rb").read()
    first_seq = None
    seen_frame = False
    # reference tracking: which coded frame sits in which slot, and which coded frames are ever referenced later
    slots = [None] * 8
    referenced = {}
    nonref_claims = []  # (packet index, coded frame id)
    fid = 0
    for pi in stream.packets:
        for f in pi.frame_headers:
            if f.show_existing_frame:
                if f.display_frame_type == KEY:
                    cur = slots[f.frame_to_show_map_idx]
                    slots = [cur] * 8
                f._vid = slots[f.frame_to_show_map_idx]
                continue
            fid += 1
            f._vid = fid
            if f.frame_type in (INTER, SWITCH):
                for idx in f.ref_frame_idx:
                    if 0 <= idx < 8 and slots[idx] is not None:
                        referenced.setdefault(slots[idx], pi.index)
            for i in range(8):
                if (f.refresh_frame_flags >> i) & 1:
                    slots[i] = fid
    for pi, m in zip(stream.packets, meta):
        info["packets"] += 1
        info["obus"] += len(pi.obus)
        j = pi.index
        if pi.errors:
            out.append(("C02|syntax|%s|%s" % (pi.errors[0][:50], sig), "packet %d: %s" % (j, "; ".join(pi.errors[:3]))))
            continue
        if not pi.obus or pi.obus[0].type != 2:
            out.append(("C02|no-leading-td|%s" % sig, "packet %d does not start with a temporal delimiter" % j))
        if sum(1 for o in pi.obus if o.type == 2) != 1:
            out.append(("C02|td-count|%s" % sig, "packet %d holds %d temporal delimiters" % (j, sum(1 for o in pi.obus if o.type == 2))))
        if pi.shown_frames != 1:
            out.append(("C02|shown-frames|%s" % sig, "packet %d contains %d displayed frames" % (j, pi.shown_frames)))
            continue
        # sequence headers
        for sh in pi.sequence_headers:
            info["seq_headers"] += 1
            if first_seq is None:
                first_seq = sh.raw
            elif sh.raw != first_seq:
                out.append(("C02|seq-header-changes|%s" % sig, "packet %d: sequence header differs from the first one" % j))
        has_key = any(f.frame_type == KEY and not f.show_existing_frame for f in pi.frame_headers)
        if has_key:
            info["key_frames"] += 1
            # the sequence header must come before the key frame inside this packet
            seq_pos = [k for k, o in enumerate(pi.obus) if o.type == 1]
            frm_pos = [k for k, o in enumerate(pi.obus) if o.type in (3, 6)]
            if not seq_pos or (frm_pos and seq_pos[0] > frm_pos[0]):
                out.append(("C02|key-frame-without-seq-header|%s" % sig, "packet %d carries a key frame without a "
                            "preceding sequence header" % j))
        if pi.frame_headers and not seen_frame:
            seen_frame = True
            if first_seq is None:
                out.append(("C02|frame-before-seq-header|%s" % sig, "packet %d: first frame precedes any sequence header" % j))
        # displayed frame
        shown = [f for f in pi.frame_headers if f.show_frame or f.show_existing_frame]
        f = shown[-1]
        info["hidden_frames"] += len(pi.frame_headers) - 1
        if f.show_existing_frame:
            info["show_existing"] += 1
            ftype = f.display_frame_type
            refresh = 0xFF if ftype == KEY else 0
        else:
            ftype = f.frame_type
            refresh = f.refresh_frame_flags
        pt = m["pic_type"]
        if (pt == PT_KEY) != (ftype == KEY):
            out.append(("C02|pic_type-key|%s" % sig, "packet %d: pic_type %d but displayed frame_type %s" % (j, pt, ftype)))
        elif pt == PT_NON_REF and getattr(f, "_vid", None) in referenced:
            out.append(("C02|pic_type-nonref|%s" % sig, "packet %d reported NON_REF but its frame is referenced by a frame "
                                                       "in packet %d" % (j, referenced[f._vid])))
        elif pt == PT_INTRA_ONLY and ftype not in (KEY, INTRA_ONLY):
            out.append(("C02|pic_type-intra|%s" % sig, "packet %d reported INTRA_ONLY, displayed frame_type %s" % (j, ftype)))
        elif pt in (PT_INTER, PT_ALT_REF) and ftype not in (INTER, SWITCH):
            out.append(("C02|pic_type-inter|%s" % sig, "packet %d reported inter pic_type %d, displayed frame_type %s" % (j, pt, ftype)))
        fl = m["flags"]
        if bool(fl & FLAG_SHOW_EXT) != bool(f.show_existing_frame):
            out.append(("C02|flag-show-ext|%s" % sig, "packet %d: SHOW_EXT flag %d, show_existing_frame %d"
                        % (j, bool(fl & FLAG_SHOW_EXT), f.show_existing_frame)))
        if not (fl & FLAG_HAS_TD):
            out.append(("C02|flag-has-td|%s" % sig, "packet %d starts with a TD but HAS_TD is not set" % j))
    if api_hdr is not None and first_seq is not None:
        # the stream-header API returns one sequence header OBU
        api = av1parse.parse_stream([api_hdr])
        raws = [sh.raw for p in api.packets for sh in p.sequence_headers]
        if not raws:
            out.append(("C02|stream-header-api-unparsable", "svt_av1_enc_stream_header output holds no sequence header OBU"))
        elif raws[0] != first_seq:
            a, b = api.packets[0].sequence_headers[0], [sh for p in stream.packets for sh in p.sequence_headers][0]
            diff = sorted(k for k in a.__dict__ if k not in ("raw", "header_bits", "changed") and a.__dict__.get(k) != b.__dict__.get(k))
            out.append(("C02|stream-header-api-differs",
                        "sequence header returned by svt_av1_enc_stream_header differs from the one in the stream: %s" % diff))
    return out, info


def gen_cases(rng, tier, scale):
    quick = tier == "quick"
    cases = common.forced_feature_cases(rng)
    # GOP-shape sweep: framing errors depend on show-existing and alt-ref paths
    for L in range(0, 6):
        for ov in (0, 1):
            for ip in ([-1, 1 << L] if quick else [-1, 0, 1, (1 << L) - 1, 1 << L, 3 * (1 << L) - 1]):
                n = rng.choice([(1 << L) + 1, 2 * (1 << L) + 1, 2 * (1 << L) + 3])
                cases.append(cfggen.tiny_case(rng, frames=n, **{
                    "cfg.hierarchical_levels": L, "cfg.enable_overlays": ov, "cfg.intra_period_length": ip,
                    "cfg.intra_refresh_type": rng.choice([1, 2]), "cfg.logical_processors": 4,
                    "content": rng.choice(["pan", "rects", "cuts"])}))
    total = int((60 if quick else 700) * scale)
    while len(cases) < total:
        cases.append(cfggen.gen_case(rng, quick=True, allow_slow=not quick or rng.random() < 0.2))
    for c in cases:
        c["stream_header"] = 1
        c["cfg.recon_enabled"] = 0
    return cases[:max(total, 1)] if quick else cases


def run(chk, tier, replay=None):
    cases = [replay["case"]["case"]] if replay else gen_cases(chk.rng, tier, getattr(chk, "scale", 1))

    def one(ic):
        i, case = ic
        prefix = os.path.join(chk.dir, "c%04d" % i)
        if common.known_hang_region(case):
            return case, None, [("skip", "known hang region")], {}
        res = enc.run_case("plain", case, prefix)
        if res.timed_out:
            return case, res, [(None, "encode hit the watchdog")], {}
        if res.res and res.res.get("api_error") == 2:
            return case, res, [("rejected-config", "")], {}
        if enc.crashed(res) or res.res is None or res.res.get("api_error"):
            return case, res, [(None, "encode failed (rc=%s %s): not judged here (C11)" % (res.rc, (res.res or {}).get("errmsg")))], {}
        v, info = judge_stream(case, res, prefix)
        if not [k for k, _ in v if k != "C02|stream-header-api-differs"]:
            # independent cross-check: a syntactically consistent packet can still carry wrong size fields
            st, ai = enc.ref_decode(prefix + ".ivf", "aom", "-")
            if st == "ok" and any(x != 1 for x in ai.get("per_packet", [])):
                v.append(("C02|libaom-per-packet|%s" % common.feature_sig(case),
                          "libaom outputs %s pictures per packet" % ai.get("per_packet")))
            elif st == "rejected":
                v.append(("C02|rejected-by-libaom|%s" % common.feature_sig(case), "libaom rejects packet %s" % ai.get("fail_packet")))
        if not v:
            enc.cleanup(prefix)
        return case, res, v, info

    results = core.pmap(one, list(enumerate(cases)))
    for case, res, v, info in results:
        if v and v[0][0] == "skip":
            chk.bump("skipped_known_hang_region")
            continue
        chk.count()
        if v and v[0][0] == "rejected-config":
            chk.bump("rejected_config_draws")
            continue
        for k in info:
            chk.bump(k, info[k])
        if info.get("packets", 0) >= 2 and not any(k and not k.startswith("C02|stream-header-api") for k, _ in v):
            chk.nontrivial_case(core.sha(cfggen.case_ident(case)))
        if not v:
            chk.sample({"case": {k: case[k] for k in sorted(case) if k != "out"}, "packets": info.get("packets"),
                        "obus": info.get("obus"), "show_existing": info.get("show_existing")}, limit=4)
        for key, why in v:
            if key is None:
                chk.inconclusive_case(why, case)
            else:
                chk.violation(key, why, case)
    return chk.finish(
        rule="every packet of every stream (forced feature cases + GOP-shape sweep over hierarchical levels x overlays x "
             "intra period + random accepted configurations) parsed in isolation by an independent AV1 syntax parser; "
             "non-trivial = stream of >= 2 packets fully parsed and cross-checked with libaom's per-packet output count")
