"""C09 - multi-threaded decoding is memory-safe and gives the single-thread result.

For each stream (1..16 tiles, inter/intra, LR/CDEF on, superres, 8/10-bit) the SVT decoder is run with
threads t > 1 and must deliver exactly the pictures of t = 1:
  * plain flavour, H1/H6 schedule perturbation seeds (env SVT_VERIF_SCHED), hand-off order traced (H6 release events);
  * asan flavour: no sanitizer report;
  * tsan flavour with the H6 annotations modelling the volatile-flag hand-off the code intends: no report at all;
  * svt_av1_dec_deinit + svt_av1_dec_deinit_handle return; a hang that reproduces on a solitary re-run is a violation.
A dedicated sub-step runs one 4-thread decode on tsan with SVT_VERIF_NO_HB=1 (annotations off) and reports the
finding `C09|volatile-handoff` when races between the hand-off functions appear that the annotations remove."""
import glob
import os
import re

from .. import build, cfggen, core, dec, enc, sanlog, trace
from . import common

LEVEL = "exploration"

EV_HB_RELEASE = 48

# generic helpers that would otherwise hide which callers overlap (pad_pre_lr vs pad_post_lr): DESIGN 2.1
sanlog.GENERIC.update({"generate_padding_t", "generate_padding_b", "generate_padding_l_hbd", "generate_padding_r_hbd",
                       "pad_row", "xx_loadl_32", "xx_storel_32", "xx_loadl_64", "xx_storel_64", "xx_loadu_128",
                       "xx_storeu_128"})

# functions that contain an H6 hand-off site (flag store or spin-wait)
HANDOFF_FUNCS = {"decode_tile_row", "decode_tile", "parse_tile", "decode_block", "dec_loop_filter_row",
                 "svt_cdef_sb_row_mt", "svt_cdef_frame_mt", "dec_av1_loop_filter_frame_mt",
                 "dec_av1_loop_restoration_filter_frame_mt", "dec_av1_loop_restoration_filter_row",
                 "svt_setup_motion_field", "parse_frame_tiles", "decode_frame_tiles", "dec_all_stage_kernel",
                 "read_tile_group_obu", "read_uncompressed_header", "dec_sync_all_threads", "dec_system_resource_init"}


# ------------------------------------------------------------------ streams
def stream_specs(rng, quick, scale):
    """Encoder cases whose streams exercise the decoder's job kinds: tile parse, recon wavefront, MV projection,
    LF, CDEF, LR, superres upscale.  tile_columns/tile_rows are log2 counts."""
    S = []

    def add(name, w, h, frames, tc, tr, lr=1, **kw):
        c = cfggen.tiny_case(rng, frames=frames, width=w, height=h, content=kw.pop("content", "mix"))
        c.update({"cfg.enc_mode": 8, "cfg.recon_enabled": 0, "cfg.logical_processors": 4, "cfg.tile_columns": tc,
                  "cfg.tile_rows": tr, "cfg.enable_restoration_filtering": lr, "cfg.cdef_level": -1})
        for k, v in kw.items():
            c[k if not k.startswith("cfg_") else "cfg." + k[4:]] = v
        S.append({"name": name, "case": c, "tiles": (1 << tc) * (1 << tr), "layout": "%dx%d" % (1 << tc, 1 << tr),
                  "lr": "on" if lr else "off"})

    # loop restoration on (LR job kind exercised) ...
    add("tiny-1tile", 192, 128, 2, 0, 0, content="pan")
    add("cif-1x2", 352, 288, 4, 0, 1, content="rects")
    add("360p-4x4", 640, 360, 3, 2, 2)
    add("cif-2x2-10bit", 352, 288, 4, 1, 1, bitdepth=10, content="zoom")
    # ... and off (parse / recon wavefront / MV projection / LF / CDEF jobs only)
    add("cif-1tile-nolr", 352, 288, 4, 0, 0, lr=0)
    add("cif-2x1-nolr", 352, 288, 5, 1, 0, lr=0, content="pan")
    add("cif-intra-2x2-nolr", 352, 288, 3, 1, 1, lr=0, cfg_intra_period_length=0, content="screen")
    add("360p-2x4-mfmv-nolr", 640, 360, 6, 1, 2, lr=0, cfg_enable_mfmv=1, cfg_hierarchical_levels=3, content="pan")
    add("360p-4x1-10bit-nolr", 640, 360, 3, 2, 0, lr=0, bitdepth=10, content="zoom")
    # superres (hard sync after CDEF, upscale, per-frame width change => MT resources re-allocated); LR is off because
    # the encoder crashes with superres + forced restoration (not this property's subject)
    add("cif-2x1-superres-nolr", 352, 288, 5, 1, 0, lr=0, cfg_superres_mode=1, cfg_superres_denom=11,
        cfg_superres_kf_denom=13, content="pan")
    if not quick:
        n = int(70 * scale)
        for i in range(n):
            w, h = rng.choice([(352, 288), (416, 240), (480, 270), (640, 360), (320, 180), (640, 480)])
            tc, tr = rng.choice([(0, 0), (1, 0), (0, 1), (1, 1), (2, 0), (0, 2), (2, 1), (1, 2), (2, 2)])
            kw = {"content": rng.choice(["mix", "pan", "rects", "zoom", "screen", "cuts", "noise"])}
            if rng.random() < 0.3:
                kw["bitdepth"] = 10
            lr = rng.choice([0, 1])
            if rng.random() < 0.25:
                lr = 0  # superres + forced restoration crashes the encoder
                kw.update(cfg_superres_mode=rng.choice([1, 2]), cfg_superres_denom=rng.choice([9, 11, 13, 16]),
                          cfg_superres_kf_denom=rng.choice([9, 12, 16]))
            if rng.random() < 0.2:
                kw["cfg_film_grain_denoise_strength"] = rng.choice([4, 25])
            if rng.random() < 0.2:
                kw.update(cfg_screen_content_mode=1, cfg_intrabc_mode=rng.choice([0, 1]), cfg_palette_level=rng.choice([0, 3]))
            if rng.random() < 0.3:
                kw["cfg_intra_period_length"] = rng.choice([0, 3, -1])
            kw["cfg_enc_mode"] = rng.choice([8, 8, 7, 6])
            kw["cfg_qp"] = rng.choice([20, 35, 50, 60])
            kw["cfg_hierarchical_levels"] = rng.choice([0, 2, 3, 4])
            add("rnd%03d" % i, w, h, rng.choice([2, 3, 5, 8]), tc, tr, lr=lr, **kw)
    return S


def encode_streams(chk, specs):
    def one(ix):
        i, sp = ix
        prefix = os.path.join(chk.dir, "e%03d" % i)
        r = enc.run_case("plain", sp["case"], prefix)
        ok = (not r.timed_out) and r.res is not None and not r.res.get("api_error") and not enc.crashed(r) \
            and os.path.exists(prefix + ".ivf") and os.path.getsize(prefix + ".ivf") > 32
        enc.cleanup(prefix, keep=(".ivf",))
        return sp, (prefix + ".ivf") if ok else None, r

    out = []
    for sp, ivf, r in core.pmap(one, list(enumerate(specs)), workers=max(2, core.default_workers() // 4)):
        if ivf is None:
            chk.bump("streams_not_produced")
            chk.note_set("streams_not_produced_why", "%s: rc=%s timeout=%s %s" % (sp["name"], r.rc, r.timed_out,
                                                                                  (r.res or {}).get("errmsg", "")))
            continue
        sp = dict(sp, ivf=ivf)
        out.append(sp)
    return out


# ------------------------------------------------------------------ helpers
def order_hash(trace_path):
    """Hash of the global order of H6 hand-off publications: sequence of (thread ordinal, flag ordinal), both
    numbered by first appearance so that addresses and thread ids do not matter.  -> (hash, n_events)"""
    if not os.path.exists(trace_path):
        return None, 0
    recs = [r for r in trace.read(trace_path) if r[2] == EV_HB_RELEASE]
    amap, tmap, seq = {}, {}, []
    for r in recs:
        seq.append((tmap.setdefault(r[1], len(tmap)), amap.setdefault(r[3], len(amap))))
    return core.sha(repr(seq)), len(seq)


def raw_logs(prefix):
    t = ""
    for p in sorted(glob.glob(prefix + ".asan.*") + glob.glob(prefix + ".ubsan.*") + glob.glob(prefix + ".lsan.*")):
        try:
            t += open(p, errors="replace").read()
        except OSError:
            pass
    return t


def is_dec_mod_ctxt_double_free(prefix):
    """ASan 'attempting double-free' whose first free happened in dec_system_resource_init (the scratch array
    dec_mod_ctxt_arr that is also on the decoder memory map)."""
    t = raw_logs(prefix)
    for blk in re.split(r"(?m)^=+\d+=+ERROR: ", t)[1:]:
        if "attempting double-free" not in blk:
            continue
        m = re.search(r"freed by thread T\d+ here:\n((?:\s+#\d+ .*\n)+)", blk)
        if m and "dec_system_resource_init" in m.group(1):
            return True
    return False


def ckey(k):
    """sanlog key -> C09 key"""
    p = k.split("|")
    if p[0] == "tsan" and len(p) >= 3:
        if p[1] == "data race":
            return "C09|tsan|%s" % p[2]
        return "C09|tsan|%s|%s" % (p[1].replace(" ", "-"), p[2])
    if p[0] == "asan" and len(p) >= 3:
        return "C09|asan|%s|%s|%s" % (p[2], p[1], p[3] if len(p) > 3 else "")
    return "C09|" + k


class Ctx:
    def __init__(self, chk):
        self.chk = chk
        self.double_free_confirmed = False
        self.hashes = set()
        self.retry = []  # (spec, run description) that hit the watchdog


def desc(sp, flavour, t, p16, sched, extra=""):
    return "%s tiles=%s lr=%s t=%d pipe16=%d %s sched=%s%s" % (sp["name"], sp["layout"], sp.get("lr"), t, p16, flavour, sched or "-", extra)


def mt_case(sp, t, p16, exact):
    return dec.make_case(sp["ivf"], threads=t, is_16bit_pipeline=p16, exact_buffers=exact)


def attribute_crash(ctx, sp, t, p16, d, flavour, sched):
    """A crash of an MT decode: name it with the sanitizer's help."""
    chk = ctx.chk
    stage = (d.res or {}).get("stage")
    pend = dec.pending_call(d)
    where = "teardown" if (stage == "decoded" and pend in ("dec_deinit", "dec_deinit_handle")) else "decode"
    what = "decdrv died rc=%s in %s (pending call %s) after %d pictures; %s; stderr: %s" % (
        d.rc, where, pend, len(d.frames), desc(sp, flavour, t, p16, sched), d.stderr[-200:].replace("\n", " "))
    if where == "teardown" and ctx.double_free_confirmed and d.rc in (-6, -11):
        # the ASan decodes of this campaign (run first) already pinned the teardown crash on the double free
        chk.violation("C09|double-free|dec_mod_ctxt_arr", what + " | ASan (same campaign): dec_system_resource_init frees "
                      "dec_mod_ctxt_arr, which stays on the decoder memory map and is freed again at svt_av1_dec_deinit",
                      {"spec": sp, "threads": t, "pipe16": p16})
        return
    if flavour != "asan":
        # re-run the same case under ASan (slack buffers: the bit reader's over-read is C08's finding)
        p = d.prefix + ".attr"
        a = dec.run_dec_case("asan", mt_case(sp, t, p16, 0), p, sched=sched, read_frames=False)
        if is_dec_mod_ctxt_double_free(p):
            ctx.double_free_confirmed = True
            chk.violation("C09|double-free|dec_mod_ctxt_arr", what + " | ASan: dec_system_resource_init frees dec_mod_ctxt_arr, "
                          "which stays on the decoder memory map and is freed again", {"spec": sp, "threads": t, "pipe16": p16})
            dec.cleanup(p)
            return
        keys = sorted(set(k for k, _ in a.san))
        if keys:
            chk.violation("C09|crash|%s|%s" % (where, ckey(keys[0])[4:]), what + " | ASan says: " + "; ".join(keys[:4]),
                          {"spec": sp, "threads": t, "pipe16": p16, "sched": sched})
            return
    chk.violation("C09|crash|%s|rc=%s" % (where, d.rc), what, {"spec": sp, "threads": t, "pipe16": p16, "sched": sched})


def judge(ctx, sp, base_frames, d, flavour, t, p16, sched, want_san_clean=True):
    """Judge one MT decode against the single-thread pictures.  Returns True when everything held."""
    chk = ctx.chk
    chk.count()
    ident = desc(sp, flavour, t, p16, sched)
    case = {"spec": sp, "flavour": flavour, "threads": t, "pipe16": p16, "sched": sched}
    if d.timed_out:
        ctx.retry.append((sp, flavour, t, p16, sched, d))
        return False
    ok = True
    # sanitizer reports first: they also explain crashes
    san = list(d.san)
    seen = set()
    for k, e in san:
        if k in seen:
            continue
        seen.add(k)
        ok = False
        if k.startswith("asan|attempting double-free") and is_dec_mod_ctxt_double_free(d.prefix):
            ctx.double_free_confirmed = True
            chk.violation("C09|double-free|dec_mod_ctxt_arr",
                          "ASan: double free at svt_av1_dec_deinit/realloc of the block dec_system_resource_init already "
                          "freed (dec_mod_ctxt_arr is also on the decoder memory map); %s\n%s" % (ident, e[:700]), case)
            continue
        chk.violation(ckey(k), "%s report in a multi-threaded decode (%s):\n%s" % (flavour, ident, e[:1200]), case)
    if d.crashed or d.res is None:
        if not any(k.startswith("asan|attempting double-free") for k in seen):
            attribute_crash(ctx, sp, t, p16, d, flavour, sched)
        ok = False
    elif d.res.get("harness_error"):
        chk.inconclusive_case("decdrv harness error: %s (%s)" % (d.res.get("errmsg"), ident), case)
        return False
    elif d.res.get("api_error") or dec.unsupported(d):
        chk.violation("C09|mt-decode-error|%s|tiles=%s" % ("0x%x" % d.res.get("first_error_rc", 0), sp["layout"]),
                      "multi-threaded decode reports an error on a stream the single-thread decode accepts: %s (%s)"
                      % (d.res.get("errmsg"), ident), case)
        ok = False
    elif not (d.res.get("deinit_returned") and d.res.get("deinit_handle_returned")):
        chk.violation("C09|teardown-incomplete|tiles=%s" % sp["layout"], "teardown did not complete: %s (%s)" % (d.res, ident), case)
        ok = False
    # pictures delivered so far are compared even when teardown crashed afterwards
    stage = (d.res or {}).get("stage")
    if d.res is not None and stage in ("decoded", "done") and not d.res.get("api_error"):
        diff = dec.compare_frames(d.frames, base_frames)
        if diff is not None:
            ok = False
            # with loop restoration on, the LR row jobs are the known source (one key); without it the key names
            # the tile layout and features so that a recon/LF/CDEF ordering defect is a different violation
            # (same for superres: the upscale path is a second, rarer, source)
            if sp.get("lr") == "on":
                key = "C09|mt-mismatch|lr=on"
            elif int(sp["case"].get("cfg.superres_mode", 0)):
                key = "C09|mt-mismatch|lr=off|superres=on"
            else:
                key = "C09|mt-mismatch|lr=off|superres=off|tiles=%s|%s" % (sp["layout"], common.feature_sig(sp["case"]))
            chk.violation(key, "threads=%d output differs from threads=1: %s (%s)" % (t, diff, ident), case)
            chk.bump("mt_decodes_with_wrong_pictures")
        else:
            chk.bump("pictures_equal_to_single_thread", len(base_frames))
            chk.nontrivial_case(core.sha(ident))
            chk.note_set("tile_layouts_held", sp["layout"])
            chk.note_set("thread_counts_held", t)
            chk.bump("hb_handoffs_observed", int(d.res.get("hb_count", 0)))
            chk.bump("sched_perturbations_performed", int(d.res.get("sched_points", 0)))
    if ok:
        chk.sample({"stream": sp["name"], "tiles": sp["layout"], "flavour": flavour, "threads": t, "pipe16": p16,
                    "sched": sched, "pictures": len(base_frames), "hb_count": d.res.get("hb_count")}, limit=5)
    return ok


# ------------------------------------------------------------------ the check
def run(chk, tier, replay=None):
    rng = chk.rng
    quick = tier == "quick"
    scale = getattr(chk, "scale", 1)
    ctx = Ctx(chk)
    if replay:
        rc = replay["case"].get("case") or {}
        sp0 = rc.get("spec")
        if not sp0:
            raise core.HarnessError("replay file has no stream spec")
        specs = [sp0]
    else:
        specs = stream_specs(rng, quick, scale)
    for fl in ("plain", "asan", "tsan"):
        build.ensure(fl)
    streams = encode_streams(chk, specs)
    if not streams:
        raise core.HarnessError("no stream could be produced")
    thread_counts = [2, 3, 4, 8] if quick else [2, 3, 4, 6, 8, 16]
    seeds_per_t = 2 if quick else 4
    # concurrency: an MT decode busy-waits on every thread, so cases are not packed one per core
    workers = max(2, core.default_workers() // 4)

    # 1. single-thread baselines (plain), both pipelines
    def base_one(sp):
        res = {}
        for p16 in (0, 1):
            p = os.path.join(chk.dir, "b_%s_%d" % (sp["name"], p16))
            d = dec.run_dec_case("plain", dec.make_case(sp["ivf"], threads=1, is_16bit_pipeline=p16), p)
            good = (not d.timed_out and not d.crashed and d.res and d.res.get("ok") and not dec.unsupported(d) and d.frames)
            res[p16] = d.frames if good else None
            if not good:
                res["why%d" % p16] = "rc=%s timeout=%s res=%s" % (d.rc, d.timed_out, d.res and d.res.get("errmsg"))
            dec.cleanup(p)
        return sp, res

    bases = {}
    usable = []
    for sp, res in core.pmap(base_one, streams, workers=core.default_workers()):
        if res[0] is None:
            chk.bump("streams_without_single_thread_baseline")
            chk.note_set("no_baseline_why", "%s: %s" % (sp["name"], res.get("why0")))
            continue
        bases[sp["name"]] = res
        usable.append(sp)
    if not usable:
        raise core.HarnessError("no stream has a single-thread baseline")
    chk.bump("streams", len(usable))
    chk.note_set("requested_tile_layouts", sorted(set(sp["layout"] for sp in usable)))

    # 2. work list
    jobs = []
    for si, sp in enumerate(usable):
        for t in thread_counts:
            for k in range(seeds_per_t):
                sched = None if k == 0 else "%d:%d:%d" % (chk.seed * 1000 + si * 37 + t * 5 + k, rng.choice([100, 300, 600]),
                                                          rng.choice([0, 20, 200]))
                p16 = 1 if (bases[sp["name"]][1] is not None and (si + t + k) % 4 == 0) else 0
                jobs.append(("plain", sp, t, p16, sched))
    for si, sp in enumerate(usable):
        t = thread_counts[(si + 1) % len(thread_counts)]
        jobs.append(("asan", sp, t, 0, None if si % 2 == 0 else "%d:300:20" % (chk.seed * 77 + si)))
    # tsan is ~25x slower: the smallest streams of each tile layout first
    ts_streams = sorted(usable, key=lambda s: os.path.getsize(s["ivf"]))
    ts_n = 3 if quick else min(len(usable), int(24 * scale))
    picked, seen_layout = [], set()
    for sp in ts_streams:
        if sp["layout"] not in seen_layout:
            picked.append(sp)
            seen_layout.add(sp["layout"])
    for sp in ts_streams:
        if sp not in picked:
            picked.append(sp)
    if quick:
        # the tiny single-tile stream, one two-tile stream with LR, one many-tile stream
        want = [s for s in picked if s["tiles"] == 1][:1] + [s for s in picked if 1 < s["tiles"] <= 4 and s["lr"] == "on"][:1] + \
               [s for s in picked if s["tiles"] > 4][:1]
        picked = want or picked
    for si, sp in enumerate(picked[:ts_n]):
        t = [4, 3, 4, 2, 8][si % 5]
        jobs.append(("tsan", sp, t, 0, None if si % 2 == 0 else "%d:200:20" % (chk.seed * 131 + si)))
    if replay:
        rc = replay["case"].get("case") or {}
        jobs = [(rc.get("flavour", "plain"), usable[0], int(rc.get("threads", 4)), int(rc.get("pipe16", 0)), rc.get("sched"))]

    def run_job(ij):
        i, (fl, sp, t, p16, sched) = ij
        p = os.path.join(chk.dir, "m%04d" % i)
        exact = 1 if fl == "plain" else 0
        d = dec.run_dec_case(fl, mt_case(sp, t, p16, exact), p, sched=sched, trace=(fl == "plain"))
        h, n = (order_hash(p + ".trace") if fl == "plain" else (None, 0))
        return (fl, sp, t, p16, sched, d, h, n)

    # asan first so that a teardown crash on plain can be attributed
    order = sorted(range(len(jobs)), key=lambda i: {"asan": 0, "tsan": 1, "plain": 2}[jobs[i][0]])
    asan_tsan = [(i, jobs[i]) for i in order if jobs[i][0] != "plain"]
    plain_jobs = [(i, jobs[i]) for i in order if jobs[i][0] == "plain"]
    results = core.pmap(run_job, asan_tsan, workers=workers) + core.pmap(run_job, plain_jobs, workers=workers)
    tsan_annotated_keys = set()
    for fl, sp, t, p16, sched, d, h, n in results:
        base = bases[sp["name"]][p16] or bases[sp["name"]][0]
        ok = judge(ctx, sp, base, d, fl, t, p16, sched)
        chk.bump("%s_mt_decodes" % fl)
        if fl == "tsan":
            tsan_annotated_keys.update(k for k, _ in d.san)
        if h and n:
            ctx.hashes.add(h)
            chk.bump("traced_handoff_events", n)
        if ok:
            dec.cleanup(d.prefix)

    # 3. watchdog hits: solitary re-runs; only a hang that reproduces is a violation.  An intermittent deadlock needs
    #    several tries, so the case is repeated (alone, one process at a time) until it hangs again or the budget ends.
    confirmed_hangs = set()
    for sp, fl, t, p16, sched, d0 in ctx.retry:
        p = d0.prefix + ".retry"
        tries = 1 if fl == "tsan" else (25 if fl == "plain" else 6)
        hkey = "C09|hang|%s" % (dec.pending_call(d0) or "?")
        if hkey in confirmed_hangs:
            # this signature already reproduced in this campaign: one re-run (for the pictures) is enough
            tries = 1
        again, completed = None, []
        for k in range(tries):
            d = dec.run_dec_case(fl, mt_case(sp, t, p16, 1 if fl == "plain" else 0), p, sched=sched,
                                 timeout=2 * dec.case_timeout({"in": sp["ivf"]}, fl))
            if d.timed_out:
                again = d
                break
            completed.append(d)
        chk.bump("watchdog_hits")
        snap = lambda d: "threads=%s cpu_ticks_delta=%s states=%s" % ((d.hang or {}).get("threads"),
                                                                     (d.hang or {}).get("cpu_ticks_delta"),
                                                                     ",".join((d.hang or {}).get("states", [])))
        if again is None and hkey in confirmed_hangs:
            chk.bump("watchdog_hits_with_confirmed_signature")
            chk.violation(hkey, "watchdog hit with the signature of a hang already reproduced in this campaign: %s; %s"
                          % (snap(d0), desc(sp, fl, t, p16, sched)),
                          {"spec": sp, "flavour": fl, "threads": t, "pipe16": p16, "sched": sched})
        elif again is not None:
            pend = dec.pending_call(again) or dec.pending_call(d0)
            stage = "teardown" if pend in ("dec_deinit", "dec_deinit_handle") else "decode"
            confirmed_hangs.add("C09|hang|%s" % (pend or "?"))
            chk.violation("C09|hang|%s" % (pend or "?"),
                          "multi-threaded decode hung twice (first in the campaign, then after %d completed solitary re-runs), in "
                          "%s: call that never returned: %s; first hang: %s; second hang: %s; %d pictures delivered; %s"
                          % (len(completed), stage, pend, snap(d0), snap(again), len(again.frames), desc(sp, fl, t, p16, sched)),
                          {"spec": sp, "flavour": fl, "threads": t, "pipe16": p16, "sched": sched})
        else:
            chk.inconclusive_case("watchdog fired once (%s, pending call %s), %d solitary re-runs completed (%s)"
                                  % (snap(d0), dec.pending_call(d0), len(completed), desc(sp, fl, t, p16, sched)))
        if completed:
            base = bases[sp["name"]][p16] or bases[sp["name"]][0]
            judge(ctx, sp, base, completed[0], fl, t, p16, sched)

    # 4. the raw finding: annotations off
    if not replay:
        sp = sorted(picked[:ts_n] or usable, key=lambda s: os.path.getsize(s["ivf"]))[0]
        p = os.path.join(chk.dir, "nohb")
        d = dec.run_dec_case("tsan", mt_case(sp, 4, 0, 0), p, no_hb=True, read_frames=False,
                             timeout=6 * dec.case_timeout({"in": sp["ivf"]}, "tsan"))
        chk.count()
        if d.timed_out:
            chk.inconclusive_case("raw (annotations off) tsan decode hit the watchdog")
        else:
            raw = set(k for k, _ in d.san if k.startswith("tsan|data race|"))
            only_raw = sorted(k for k in raw if k not in tsan_annotated_keys)
            hand = [k for k in only_raw if set(k.split("|")[2].split("+")) & HANDOFF_FUNCS]
            chk.bump("raw_tsan_race_pairs", len(raw))
            chk.bump("raw_tsan_race_pairs_removed_by_annotations", len(only_raw))
            if hand and int((d.res or {}).get("hb_count", 0)) > 0:
                chk.nontrivial_case("nohb")
                chk.violation("C09|volatile-handoff",
                              "worker hand-off through plain volatile flags/row maps is a C11 data race by construction: with "
                              "SVT_VERIF_NO_HB=1 TSan shows %d racing function pairs (%d reports) on %s threads=4, %d of them "
                              "disappear once the %s exercised hand-offs are modelled as release/acquire; e.g. %s"
                              % (len(raw), len(d.san), sp["name"], len(only_raw), d.res.get("hb_count"),
                                 ", ".join(k.split("|")[2] for k in hand[:6])),
                              {"spec": sp, "flavour": "tsan", "threads": 4, "no_hb": 1})
        dec.cleanup(p)

    chk.bump("distinct_handoff_orders", len(ctx.hashes))
    for sp in streams:
        try:
            os.unlink(sp["ivf"])
        except OSError:
            pass
    return chk.finish(
        rule="streams = SVT encodes (preset 8) with requested tile grids 1x1..4x4 on 192x128..640x360: half with loop "
             "restoration forced on, half with it off (inter and all-intra, 8/10-bit, CDEF on, fixed superres with per-frame "
             "width change, MFMV); every stream is decoded with threads in {2,3,4,8} (thorough {2,3,4,6,8,16}) x schedule "
             "seeds (H1/H6 perturbation) on plain and compared picture by picture with threads=1 (both pipelines), once on "
             "asan, and the smallest streams per tile layout on tsan with the H6 annotations on; one more tsan decode runs "
             "with the annotations off; evaluations = multi-threaded decodes judged; non-trivial = an MT decode whose "
             "pictures were all compared and equal to the single-thread pictures; distinct_handoff_orders = number of "
             "distinct hashes of the global order of H6 hand-off publications (thread ordinal, flag ordinal) recorded by the "
             "trace hook in the plain runs (one hash per run: exactly what was observed, not a bound)")
