"""C08 - the decoder's output matches reference AV1 decoders.

For every stream: decdrv output (picture by picture, output order, film grain on, is_16bit_pipeline in {0,1})
== libaom == dav1d, sample-exact.  libaom is normative, dav1d the second witness: when only dav1d differs the
case is inconclusive ("reference decoders disagree").  Streams the SVT decoder reports as unsupported
(EB_DecUnsupportedBitstream) are counted, not failed.  A small ASan sub-step decodes a few of the streams from
exact-size heap buffers (the way an application owning its packets calls the API)."""
import os

from .. import cfggen, core, dec, enc
from . import common

LEVEL = "exploration"


def sanitize_case(c):
    """Keep a generated encoder case away from configurations known to hang the encoder (C11/C15 territory, not
    C08's): logical_processors <= 2 with hierarchical_levels=5, or with hierarchical_levels=3 and a short intra
    period (64x64, intra_period_length=7 hangs deterministically).  The encoder's thread count is irrelevant to the
    stream's validity, so every case runs with at least 4.  Recon output is not needed here."""
    c = dict(c)
    if int(c.get("cfg.logical_processors", 1)) <= 2:
        c["cfg.logical_processors"] = 4
    c["cfg.recon_enabled"] = 0
    return c


def extra_feature_cases(rng):
    """Decoder-side features beyond C01's forced list: many tiles, LR/CDEF forced on, superres with tiles,
    screen content with palette only, odd sizes with film grain, 10-bit film grain + 16-bit pipeline."""
    base = lambda **kw: dict(cfggen.tiny_case(rng, **kw))
    out = []
    out.append(base(frames=6, width=352, height=288, content="mix", **{"cfg.tile_columns": 2, "cfg.tile_rows": 2,
                                                                       "cfg.logical_processors": 4}))
    out.append(base(frames=5, width=640, height=360, content="pan", **{"cfg.tile_columns": 2, "cfg.tile_rows": 1,
                                                                       "cfg.logical_processors": 4,
                                                                       "cfg.enable_restoration_filtering": 1,
                                                                       "cfg.cdef_level": 1, "cfg.enc_mode": 6}))
    out.append(base(frames=8, width=352, height=288, content="rects", **{"cfg.superres_mode": 1, "cfg.superres_denom": 11,
                                                                         "cfg.superres_kf_denom": 13, "cfg.tile_columns": 1,
                                                                         "cfg.logical_processors": 4}))
    out.append(base(frames=8, width=176, height=144, content="screen", **{"cfg.screen_content_mode": 1,
                                                                          "cfg.palette_level": 6, "cfg.intrabc_mode": 0}))
    out.append(base(frames=7, width=130, height=74, content="noise", **{"cfg.film_grain_denoise_strength": 25}))
    out.append(base(frames=7, width=71 * 2, height=45 * 2, bitdepth=10, content="pan",
                    **{"cfg.film_grain_denoise_strength": 8, "cfg.is_16bit_pipeline": 1}))
    out.append(base(frames=9, width=200, height=120, bitdepth=10, content="zoom",
                    **{"cfg.enable_restoration_filtering": 1, "cfg.sg_filter_mode": 3, "cfg.wn_filter_mode": 3,
                       "cfg.enc_mode": 5}))
    out.append(base(frames=12, width=256, height=144, content="cuts", **{"cfg.enable_overlays": 1, "cfg.enc_mode": 7,
                                                                         "cfg.hierarchical_levels": 3}))
    # wide enough that the chroma planes hold more than one loop-restoration unit per row
    out.append(base(frames=2, width=854, height=480, content="mix", **{"cfg.enable_restoration_filtering": 1,
                                                                       "cfg.logical_processors": 8, "cfg.qp": 40}))
    return out


def build_cases(rng, n):
    forced = common.forced_feature_cases(rng) + extra_feature_cases(rng)
    # interleave so that a small n still sees the decoder-side extras
    rng.shuffle(forced)
    cases = forced[:n]
    while len(cases) < n:
        cases.append(cfggen.gen_case(rng, quick=True, allow_slow=True))
    return [sanitize_case(c) for c in cases]


def judge_stream(chk, case, eres, prefix, pipes=(0, 1)):
    """-> list of verdict dicts, one per pipeline value (or a single one when the stream is unusable)."""
    sig = common.feature_sig(case)
    v0 = {"verdict": "held", "why": "", "key": None, "frames": 0, "sig": sig, "pipe": None}
    if eres.timed_out:
        v0.update(verdict="inconclusive", why="encode hit the watchdog (%.0fs)" % eres.wall)
        return [v0]
    if eres.res and eres.res.get("api_error") == 2:
        v0.update(verdict="rejected-config", why=eres.res.get("errmsg", ""))
        return [v0]
    if enc.crashed(eres) or eres.res is None or eres.res.get("api_error"):
        # an encoder failure is C01/C11's subject; no stream, nothing to judge here
        v0.update(verdict="no-stream", why="encoder failed rc=%s %s" % (eres.rc, (eres.res or {}).get("errmsg", "")))
        return [v0]
    ivf = prefix + ".ivf"
    outs, infos = {}, {}
    for which in ("aom", "dav1d"):
        st, info = enc.ref_decode(ivf, which, prefix + "." + which)
        infos[which] = (st, info)
        if st == "ok":
            outs[which] = core.read_frames(prefix + "." + which)
    st_a, info_a = infos["aom"]
    st_d, info_d = infos["dav1d"]
    if st_a == "inconclusive" or st_d == "inconclusive":
        v0.update(verdict="inconclusive", why="reference decoder unavailable: %s / %s" % (info_a, info_d))
        return [v0]
    if st_a == "rejected":
        v0.update(verdict="no-stream", why="libaom rejects the stream (C01's subject): packet %s" % info_a.get("fail_packet"))
        return [v0]
    if st_d == "rejected":
        v0.update(verdict="inconclusive", why="reference decoders disagree: dav1d rejects at packet %s" % info_d.get("fail_packet"))
        return [v0]
    aom, dav = outs["aom"], outs["dav1d"]
    if not aom:
        v0.update(verdict="no-stream", why="stream has no shown frame")
        return [v0]
    refs_agree = dec.compare_frames(aom, dav) is None
    res = []
    for p16 in pipes:
        v = dict(v0, pipe=p16, frames=len(aom))
        dp = "%s.svt%d" % (prefix, p16)
        d = dec.run_dec_case("plain", dec.make_case(ivf, threads=1, is_16bit_pipeline=p16), dp)
        if d.timed_out:
            d2 = dec.run_dec_case("plain", dec.make_case(ivf, threads=1, is_16bit_pipeline=p16), dp)
            if d2.timed_out:
                pend = dec.pending_call(d2)
                v.update(verdict="violated", key="C08|decoder-hang|%s|%s|pipe16=%d" % (pend or "?", sig, p16),
                         why="single-thread decode hit the watchdog twice (%.0fs); call that never returned: %s"
                             % (d2.wall, pend))
                res.append(v)
                continue
            d = d2
        if d.crashed or d.res is None:
            v.update(verdict="violated", key="C08|decoder-crash|%s|pipe16=%d" % (sig, p16),
                     why="decdrv died rc=%s after %d pictures; pending call %s; stderr: %s"
                         % (d.rc, len(d.frames), dec.pending_call(d), d.stderr[-300:]))
            res.append(v)
            continue
        if d.res.get("harness_error"):
            v.update(verdict="inconclusive", why="decdrv harness error: %s" % d.res.get("errmsg"))
            res.append(v)
            continue
        if dec.unsupported(d):
            v.update(verdict="unsupported", why="EB_DecUnsupportedBitstream at call %s" % d.res.get("first_error_call"))
            res.append(v)
            continue
        if d.res.get("api_error"):
            v.update(verdict="violated", key="C08|decoder-error|%s|%s|pipe16=%d"
                                             % ("0x%x" % d.res.get("first_error_rc", 0), sig, p16),
                     why="decoder API error on a stream both reference decoders accept: %s" % d.res.get("errmsg"))
            res.append(v)
            continue
        diff = dec.compare_frames(d.frames, aom)
        if diff is None:
            if not refs_agree:
                v.update(verdict="inconclusive", why="dav1d differs from libaom (%s) while SVT == libaom"
                                                     % dec.compare_frames(dav, aom))
            res.append(v)
            dec.cleanup(dp)
            continue
        if not refs_agree and dec.compare_frames(d.frames, dav) is None:
            v.update(verdict="inconclusive", why="reference decoders disagree (SVT == dav1d != libaom): %s" % diff)
            res.append(v)
            continue
        kind = "picture-count" if diff.startswith("picture count") else ("geometry" if "geometry" in diff else "mismatch")
        v.update(verdict="violated", key="C08|%s|%s|pipe16=%d" % (kind, sig, p16),
                 why="SVT decoder output != libaom (%s); dav1d %s libaom; per-packet pictures svt=%s"
                     % (diff, "==" if refs_agree else "!=", d.res.get("per_packet")))
        res.append(v)
    return res


def asan_substep(chk, streams, n):
    """Decode n of the already judged streams on the asan flavour, single thread, exact-size heap buffers."""
    picked = streams[:n]

    def one(it):
        i, (case, ivf) = it
        p = os.path.join(chk.dir, "asan%03d" % i)
        return case, dec.run_dec_case("asan", dec.make_case(ivf, threads=1, is_16bit_pipeline=i % 2), p, read_frames=False)

    for case, d in core.pmap(one, list(enumerate(picked)), workers=min(4, core.default_workers())):
        chk.count()
        sig = common.feature_sig(case)
        if d.timed_out:
            chk.inconclusive_case("asan decode hit the watchdog", case)
            continue
        chk.bump("asan_decodes")
        keys = sorted(set(k for k, _ in d.san))
        for k in keys:
            parts = k.split("|")
            if parts[0] == "asan" and len(parts) >= 3:
                key = "C08|asan|%s|%s|%s" % (parts[2], parts[1], parts[3] if len(parts) > 3 else "")
            else:
                key = "C08|" + k
            ex = [e for kk, e in d.san if kk == k][0]
            chk.violation(key, "sanitizer report while decoding a valid stream from exact-size buffers (%s):\n%s"
                          % (sig, ex[:900]), {"case": case, "ivf": ivf_note(d)})
        if d.crashed:
            chk.violation("C08|decoder-crash-asan|%s" % sig, "decdrv (asan) died rc=%s: %s" % (d.rc, d.stderr[-300:]), case)
        if not keys and not d.crashed:
            chk.bump("asan_clean_decodes")
            dec.cleanup(d.prefix)


AOM_QUICK = ["a_default", "a_tiles", "a_tilegroups", "a_nonuniform", "a_sb128", "a_errres", "a_sframe", "a_superres_fixed",
             "a_superres_rand", "a_resize_rand", "a_aq1", "a_deltaq2", "a_deltalf", "a_qm", "a_lossless", "a_10bit",
             "a_fgtest5", "a_fgtest8", "a_screen_ibc", "a_noorder", "a_lr", "a_gm", "a_reduced_tx", "a_fwdkf", "a_odd",
             "a_lr_sb128", "a_zoom_gm_t", "a_screen_real", "a_still_fg", "a_rt"]


class _FakeEnc:
    """stands for 'the stream exists' in judge_stream (the stream was produced by libaom, not by encdrv)"""
    timed_out = False
    rc = 0
    wall = 0.0
    stderr = ""
    res = {"api_error": 0}


def aom_stage(chk, quick, scale):
    import sys
    from .. import av1parse_selftest as st
    try:
        names = [n for n, _ in st.aom_cases()]
    except Exception as e:  # the ctypes layout probe failed: say so instead of guessing
        chk.inconclusive_case("independent encoder unavailable: %s" % e)
        return
    if quick:
        names = [n for n in AOM_QUICK if n in names]
    names = names[:max(1, int(len(names) * scale))] if scale < 1 else names
    script = os.path.abspath(st.__file__)

    def one(name):
        prefix = os.path.join(chk.dir, "aom_" + name)
        r = core.run([sys.executable, script, "--aomenc-encode", name, prefix + ".ivf"], timeout=600)
        if r.rc != 0 or not os.path.exists(prefix + ".ivf") or os.path.getsize(prefix + ".ivf") < 40:
            return name, None
        case = {"_aomenc": name}
        vs = judge_stream(chk, case, _FakeEnc(), prefix)
        for v in vs:
            v["sig"] = "aomenc:" + name
            if v.get("key"):
                v["key"] = v["key"].replace("|base|", "|aomenc:%s|" % name).replace("|base", "|aomenc:%s" % name)
        if not any(v["verdict"] in ("violated", "inconclusive") for v in vs):
            enc.cleanup(prefix)
        return name, vs

    for name, vs in core.pmap(one, names, workers=max(2, core.default_workers() // 2)):
        if vs is None:
            chk.bump("aomenc_streams_not_produced")
            continue
        chk.bump("aomenc_streams")
        for v in vs:
            chk.count()
            vd = v["verdict"]
            if vd == "held":
                chk.nontrivial_case("aomenc:%s/p%s" % (name, v["pipe"]))
                chk.bump("pictures_compared", v["frames"])
                chk.bump("aomenc_streams_x_pipeline_held")
                chk.note_set("aomenc_streams_held", name)
            elif vd == "unsupported":
                chk.bump("unsupported_by_svt_decoder")
                chk.note_set("unsupported_signatures", v["sig"])
            elif vd == "no-stream":
                chk.bump("no_stream")
            elif vd == "inconclusive":
                chk.inconclusive_case(v["why"], {"aomenc": name})
            else:
                chk.violation(v["key"], v["why"], {"aomenc": name})


def ivf_note(d):
    return d.case.get("in")


def run(chk, tier, replay=None):
    rng = chk.rng
    quick = tier == "quick"
    scale = getattr(chk, "scale", 1)
    n = int((45 if quick else 600) * scale)
    if replay:
        rc = replay["case"]["case"]
        cases = [rc.get("case", rc) if isinstance(rc, dict) else rc]
    else:
        cases = build_cases(rng, n)
        if not quick:
            for (w, h, fr) in [(1920, 1080, 3), (1280, 720, 4), (854, 480, 6)]:
                c = cfggen.gen_case(rng, size=(w, h), frames=fr, preset=8)
                c["cfg.logical_processors"] = 8
                c["cfg.tile_columns"] = 2
                cases.append(sanitize_case(c))
    streams = []

    def one(ic):
        i, case = ic
        prefix = os.path.join(chk.dir, "s%04d" % i)
        eres = enc.run_case("plain", case, prefix)
        vs = judge_stream(chk, case, eres, prefix)
        if all(v["verdict"] == "inconclusive" for v in vs) and not replay:
            enc.cleanup(prefix)
            eres = enc.run_case("plain", case, prefix)
            vs = judge_stream(chk, case, eres, prefix)
        keep = any(v["verdict"] in ("violated", "inconclusive") for v in vs)
        usable = any(v["verdict"] in ("held", "unsupported") for v in vs)
        if not keep:
            enc.cleanup(prefix, keep=(".ivf",) if usable else ())
        return case, vs, (prefix + ".ivf") if usable else None

    results = core.pmap(one, list(enumerate(cases)), workers=core.default_workers())
    for case, vs, ivf in results:
        if ivf:
            streams.append((case, ivf))
        ident = core.sha(cfggen.case_ident(case))
        for v in vs:
            chk.count()
            vd = v["verdict"]
            if vd == "held":
                chk.nontrivial_case("%s/p%s" % (ident, v["pipe"]))
                chk.bump("pictures_compared", v["frames"])
                chk.bump("streams_x_pipeline_held")
                chk.note_set("feature_signatures_held", v["sig"])
                chk.sample({"pipe16": v["pipe"], "frames": v["frames"],
                            "case": {k: case[k] for k in sorted(case) if k != "out"}}, limit=4)
            elif vd == "unsupported":
                chk.bump("unsupported_by_svt_decoder")
                chk.note_set("unsupported_signatures", v["sig"])
            elif vd == "rejected-config":
                chk.bump("rejected_config_draws")
            elif vd == "no-stream":
                chk.bump("no_stream")
                chk.note_set("no_stream_reasons", v["why"][:80])
            elif vd == "inconclusive":
                chk.inconclusive_case(v["why"], case)
            else:
                chk.violation(v["key"], v["why"], {"case": case})
    # streams from an independent encoder (libaom through ctypes, lib/vf/av1parse_selftest.py) exercising tools the SVT
    # encoder never emits: tile groups, non-uniform tiles, 128x128 superblocks, error resilience, S-frames, real
    # superres/resize, segmentation/delta-q/delta-lf, quantisation matrices, lossless, film-grain test vectors, ...
    if not replay:
        aom_stage(chk, quick, scale)
    # exact-size-buffer decode under ASan (over-reads of the bitstream reader)
    if not replay:
        asan_substep(chk, streams, int((4 if quick else 40) * scale))
    for _, ivf in streams:
        try:
            os.unlink(ivf)
        except OSError:
            pass
    return chk.finish(
        rule="streams = SVT encodes of forced feature cases (every preset, 10-bit, 16-bit pipeline, each RC mode, 2-pass, "
             "superres fixed/random, film grain 8/10-bit, overlays, screen content/intrabc/palette, tiles 2x1..4x4, LR/CDEF "
             "forced, odd sizes) then seeded random draws from the accepted configuration domain; every stream is decoded by "
             "libaom, dav1d and the SVT decoder with is_16bit_pipeline 0 and 1 (film grain on); evaluations = stream x "
             "pipeline comparisons (+ ASan decodes); non-trivial = a comparison of >= 1 picture where both reference "
             "decoders agree; distinct = hash of (encoder case, pipeline)")
