"""C17 - concurrent encoder and decoder instances do not interfere."""
import os
import re

from .. import build, cfggen, core, enc, sanlog

LEVEL = "exploration"


def parse(out):
    res = {}
    for ln in out.splitlines():
        m = re.match(r"S (\d+) (\w+) rc=(\d+) packets=(\d+) bytes=(\d+) hash=(\w+) recon=(\w+)", ln)
        if m:
            res[int(m.group(1))] = {"kind": m.group(2), "rc": int(m.group(3)), "packets": int(m.group(4)),
                                    "hash": m.group(6), "recon": m.group(7)}
    return res


def enc_specs(rng):
    """encoder sessions that differ in the ways the quantifier names"""
    pool = [
        "enc:w=128,h=96,frames=9,preset=8,bd=8,lp=4,content=pan,seed=%d" % rng.randrange(1, 999),
        "enc:w=64,h=64,frames=12,preset=4,bd=10,lp=2,content=rects,seed=%d" % rng.randrange(1, 999),   # preset<=? changes SB size
        "enc:w=176,h=144,frames=8,preset=6,bd=8,lp=8,flags=0,content=mix,seed=%d" % rng.randrange(1, 999),  # C only
        "enc:w=96,h=64,frames=10,preset=2,bd=8,lp=1,flags=63,content=zoom,seed=%d" % rng.randrange(1, 999),  # <= SSE4.1
        "enc:w=192,h=128,frames=7,preset=8,bd=10,lp=16,tc=1,content=cuts,seed=%d" % rng.randrange(1, 999),
        "enc:w=64,h=64,frames=20,preset=8,bd=8,lp=4,hl=4,content=noise,seed=%d" % rng.randrange(1, 999),
    ]
    return pool


def run(chk, tier, replay=None):
    rng = chk.rng
    quick = tier == "quick"
    flav = "asan"  # crashes are keyed by the site ASan names, so a new shared global gives a new key
    exe = build.harness(flav, "multi", libs=("enc", "dec"))
    # decoder inputs
    ivfs = []
    for i, over in enumerate([{"width": 128, "height": 96, "frames": 10}, {"width": 64, "height": 64, "frames": 16, "bitdepth": 10},
                              {"width": 256, "height": 144, "frames": 6, "cfg.tile_columns": 1}]):
        c = cfggen.tiny_case(rng, **dict({"cfg.recon_enabled": 0, "cfg.logical_processors": 4, "cfg.hierarchical_levels": 3,
                                          "cfg.intra_period_length": -1, "content": "mix"}, **over))
        p = os.path.join(chk.dir, "in%d" % i)
        enc.run_case("plain", c, p)
        if os.path.exists(p + ".ivf") and os.path.getsize(p + ".ivf") > 64:
            ivfs.append(p + ".ivf")
    if len(ivfs) < 2:
        raise core.HarnessError("could not produce decoder input streams")
    es = enc_specs(rng)
    ds = ["dec:ivf=%s,threads=1" % ivfs[0], "dec:ivf=%s,threads=1" % ivfs[1], "dec:ivf=%s,threads=%d" % (ivfs[-1], 2 if not quick else 1)]
    pairings = []
    n = 10 if quick else 200
    kinds = ["enc+enc", "enc+dec", "dec+dec", "enc+enc+dec"]
    for i in range(n):
        k = kinds[i % len(kinds)]
        if k == "enc+enc":
            a, b = rng.sample(es, 2)
            specs = [a, b]
        elif k == "enc+dec":
            specs = [rng.choice(es), rng.choice(ds)]
        elif k == "dec+dec":
            specs = rng.sample(ds, 2)
        else:
            specs = rng.sample(es, 2) + [rng.choice(ds)]
        for off in ([0, 20000] if quick else [0, 500, 3000, 20000, 80000]):
            sp = [specs[0]] + ["%s,delay=%d" % (s, off * (j + 1)) for j, s in enumerate(specs[1:])]
            pairings.append((k, sp))
    pairings = pairings[:int((20 if quick else 600) * getattr(chk, "scale", 1))]
    # solo outputs
    solo = {}
    allspecs = sorted(set(re.sub(r",delay=\d+", "", s) for _, sp in pairings for s in sp))

    def run_solo(s):
        outs = []
        keys = set()
        for rep in range(2):
            prefix = os.path.join(chk.dir, "solo%s_%d" % (core.sha(s), rep))
            r = core.run([exe, s], timeout=300, env=sanlog.env_for(flav, prefix))
            keys.update(k for k, _ in sanlog.collect(prefix))
            pr = parse(r.out)
            outs.append(pr.get(0))
        return s, outs, keys
    solo_keys = set()
    for s, outs, keys in core.pmap(run_solo, allspecs):
        solo_keys |= keys
        if not outs[0] or not outs[1] or outs[0]["rc"] or outs[0] != outs[1]:
            solo[s] = None
        else:
            solo[s] = outs[0]

    def one(ip):
        i, (k, sp) = ip
        prefix = os.path.join(chk.dir, "m%04d" % i)
        env = sanlog.env_for(flav, prefix)
        r = core.run([exe] + sp, timeout=400, env=env)
        if r.timed_out:
            r = core.run([exe] + sp, timeout=600, env=env)
        r.san = sanlog.collect(prefix)
        return k, sp, r, parse(r.out)

    for k, sp, r, pr in core.pmap(one, list(enumerate(pairings)), workers=max(2, core.default_workers() // 3)):
        chk.count()
        base = [re.sub(r",delay=\d+", "", s) for s in sp]
        if any(solo.get(b) is None for b in base):
            chk.inconclusive_case("a session of this pairing is not reproducible or fails when run alone", {"specs": sp})
            continue
        if r.timed_out:
            chk.violation("C17|hang|%s" % k, "pairing %s did not finish" % sp, {"specs": sp})
            continue
        if len(pr) != len(sp):
            sig = "signal %d" % (-r.rc) if r.rc < 0 else "rc %d" % r.rc
            site = r.san[0][0] if r.san else sig
            if r.san and "enc" in k and core.match_known("C11", "C11|" + site, chk.known):
                # a memory error that single encoder sessions produce on their own (recorded under C11 from
                # single-instance campaigns) is not evidence of interference between the sessions
                chk.inconclusive_case("the process died at %s, a single-instance encoder defect recorded under C11" % site,
                                      {"specs": sp})
                chk.bump("died_at_single_instance_defect")
                continue
            chk.violation("C17|crash|%s|%s" % (k, site), "process running %s together died (%s): %s"
                          % (sp, sig, r.san[0][1][:400] if r.san else r.err[-200:]), {"specs": sp})
            continue
        bad = []
        badj = set()
        for j, b in enumerate(base):
            want, got = solo[b], pr[j]
            if got != want:
                bad.append("session %d (%s): alone %s, together %s" % (j, b, want, got))
                badj.add(j)
        if bad:
            # An encoder session's own output is schedule dependent in 1-3 % of runs (C04's TPL finding): a difference
            # is attributed to the company the session keeps only if the same session differs from its solo output in
            # two more runs of the same pairing as well.
            confirmed = set(badj)
            for rep in range(2):
                prefix2 = os.path.join(chk.dir, "again-%s-%d" % (core.sha(" ".join(sp)), rep))
                r2 = core.run([exe] + sp, timeout=600, env=sanlog.env_for(flav, prefix2))
                pr2 = parse(r2.out)
                sanlog.collect(prefix2)
                if r2.timed_out or len(pr2) != len(sp):
                    break  # cannot compare: keep what was seen
                confirmed &= set(j for j, b in enumerate(base) if pr2[j] != solo[b])
                if not confirmed:
                    break
            if not confirmed:
                chk.inconclusive_case("a session differed from its solo output once and matched it when the same pairing ran "
                                      "again: schedule-dependent output (C04's subject), not interference", {"specs": sp})
                chk.bump("differences_not_reproduced")
                continue
            # a session that restricts use_cpu_flags is named in the key: the dispatch tables are process globals that
            # every svt_av1_enc_init rewrites (known finding), which is a different defect from shared encoder state
            cpuf = all(",flags=" in base[j] for j in confirmed)
            chk.violation("C17|output-differs|%s%s" % (k, "|only-sessions-with-use_cpu_flags" if cpuf else ""),
                          "; ".join(bad)[:600], {"specs": sp})
        elif any(kk.startswith("asan") and kk not in solo_keys and not core.match_known("C11", "C11|" + kk, chk.known)
                 for kk, _ in r.san):
            # memory errors that the sessions do not produce when they run alone
            kk, ex = [x for x in r.san if x[0].startswith("asan") and x[0] not in solo_keys
                      and not core.match_known("C11", "C11|" + x[0], chk.known)][0]
            chk.violation("C17|memory-error|%s|%s" % (k, kk), ex[:600], {"specs": sp})
        else:
            chk.nontrivial_case(core.sha(" ".join(sp)))
            chk.bump("sessions_equal_to_solo", len(sp))
            chk.sample({"pairing": k, "specs": sp}, limit=4)
    chk.extra["solo_sessions"] = len(allspecs)
    return chk.finish(
        rule="2-3 sessions (encoder/encoder, encoder/decoder, decoder/decoder) with different presets (SB size), bit depth, "
             "asm level, resolution and thread counts run in one process with staggered starts so that init/deinit of one "
             "overlaps the work of another; each session's packets/recon/picture hashes must equal its solo run (solo runs "
             "are executed twice and must agree). non-trivial = pairing in which every session matched its solo output")
