"""C01 - encoder reconstruction equals an independent decode of its own bitstream."""
import os

from .. import cfggen, core, enc
from . import common

LEVEL = "exploration"


def judge(chk, case, res, prefix, need_parse=True):
    """Shared oracle: stream decodes in libaom and dav1d, pictures equal recon by display position.
    Returns dict with verdict in {'held','violated','inconclusive','rejected-config'} and details."""
    return common.judge_recon_vs_refdec(chk, "C01", case, res, prefix)


def run(chk, tier, replay=None):
    rng = chk.rng
    quick = tier == "quick"
    n = int((48 if quick else 600) * getattr(chk, "scale", 1))
    cases = []
    if replay:
        cases = [replay["case"]["case"]]
    else:
        # forced coverage of the features named in the quantifier, then random
        forced = common.forced_feature_cases(rng)
        cases = forced[:n]
        while len(cases) < n:
            cases.append(cfggen.gen_case(rng, quick=True, allow_slow=True))
        if not quick:
            # a few large pictures
            for (w, h, fr) in [(1920, 1080, 3), (1280, 720, 5), (854, 480, 8), (4096, 2160, 2)]:
                c = cfggen.gen_case(rng, size=(w, h), frames=fr, preset=8)
                c["cfg.logical_processors"] = 8
                cases.append(c)

    def one(ic):
        i, case = ic
        prefix = os.path.join(chk.dir, "c%04d" % i)
        res = enc.run_case("plain", case, prefix)
        v = common.judge_recon_vs_refdec(chk, "C01", case, res, prefix)
        if v["verdict"] == "inconclusive" and not replay:
            enc.cleanup(prefix)
            res = enc.run_case("plain", case, prefix)
            v = common.judge_recon_vs_refdec(chk, "C01", case, res, prefix)
        if v["verdict"] == "held" or v["verdict"] == "rejected-config":
            enc.cleanup(prefix)
        return case, v

    results = core.pmap(one, list(enumerate(cases)), workers=core.default_workers())
    common.account(chk, "C01", results)
    return chk.finish(
        rule="cases = forced feature cases (each RC mode, 2-pass, superres fixed/random, film grain, overlays, screen "
             "content, 10-bit, 16-bit pipeline, tiles, every preset) then seeded random draws from the accepted "
             "configuration domain x content x size x length; a case is non-trivial when the stream has >= 2 frames or a "
             "non-flat key frame and both reference decoders decoded it; distinct = hash of (accepted config, content, "
             "size, length)")
