"""C24 - wavefront EncDec segments cover each superblock once, in dependency order, and always complete.

(a) segwalk (white-box): the REAL enc_dec_segments_ctor/_init and the REAL assign_enc_dec_segments driven by T worker
    threads that follow the protocol of mode_decision_kernel (feedback tasks travel through a real SRM), for every
    picture size in superblocks x segment grid; static checks (the transcribed traversal covers the picture once and
    agrees with the init macros) and dynamic checks (exactly-once start, dependency order, completion detected as a
    state predicate).
(b) H4 traces of real encodes validate the transcription against the implementation: per segment exactly the
    predicted SB set, every SB once per picture / tile group, dependency order on the trace sequence numbers.
"""
import collections
import json
import os
import sys

if __name__ == "__main__":
    sys.path.insert(0, os.path.join(os.path.dirname(os.path.abspath(__file__)), "..", ".."))
    from vf import trace  # noqa: E402
else:
    from .. import build, cfggen, core, enc, sanlog, trace
    from . import common

LEVEL = "exploration"


# ------------------------------------------------------------------ trace checking in a subprocess
def _cli():
    """python -m vf.props.c24 --check <trace> <segwalk exe>  -> JSON on stdout"""
    import subprocess
    path, exe = sys.argv[2], sys.argv[3]
    recs = trace.read(path)
    reqs = trace.seg_requests(recs)
    predicted = {}
    if reqs:
        inp = "".join("%d %d %d %d %d %d\n" % r for r in reqs)
        p = subprocess.run([exe, "sets"], input=inp, stdout=subprocess.PIPE, stderr=subprocess.PIPE, text=True, timeout=600)
        lines = [ln for ln in p.stdout.splitlines() if ln.startswith("{")]
        if p.returncode != 0 or len(lines) != len(reqs):
            json.dump({"error": "segwalk sets failed rc=%s lines=%d/%d %s" % (p.returncode, len(lines), len(reqs), p.stderr[-300:])},
                      sys.stdout)
            return
        for r, ln in zip(reqs, lines):
            d = json.loads(ln)
            predicted[r] = {int(k): [tuple(x) for x in v] for k, v in d["segments"].items()}
    viol, info = trace.check_segments(recs, predicted)
    import hashlib
    info["orders"] = [hashlib.sha256(repr(o).encode()).hexdigest()[:16] for o in info["orders"] if len(o[4]) >= 2]
    info["nonserial_orders"] = 0
    json.dump({"viol": viol, "info": info, "requests": reqs}, sys.stdout)


if __name__ == "__main__":
    _cli()
    sys.exit(0)


def check_trace(path, exe, timeout=1800):
    env = {"PYTHONPATH": os.path.join(build.VERIF, "lib")}
    r = core.run([sys.executable, "-m", "vf.props.c24", "--check", path, exe], timeout=timeout, env=env)
    if r.rc != 0 or r.timed_out:
        raise core.HarnessError("segment trace checker failed on %s: rc=%s %s" % (path, r.rc, r.err[-500:]))
    d = json.loads(r.out)
    if "error" in d:
        raise core.HarnessError(d["error"])
    return d


# ------------------------------------------------------------------ walks
def geometry_class(cfg):
    """Stable, narrow signature of a failing configuration for violation keys."""
    w, h = cfg["w"], cfg["h"]
    cols, rows = min(cfg["cols"], w), min(cfg["rows"], h)
    if w == 1 and rows >= 2:
        return "single-sb-column,rows>=2"
    if h == 1:
        return "single-sb-row"
    if cols == 1:
        return "one-segment-column"
    if rows == 1:
        return "one-segment-row"
    return "cols%s,rows%s" % ("=w" if cols == w else "<w", "=h" if rows == h else "<h")


def run_walk(chk, job):
    name, args, sched = job
    out = os.path.join(chk.dir, name + ".out")
    flavour = "tsan" if name.startswith("tsan") else "plain"
    exe = build.harness(flavour, "segwalk", link="wb", libs=("enc",))
    env = dict(sanlog.env_for(flavour, os.path.join(chk.dir, name)))
    if sched:
        env["SVT_VERIF_SCHED"] = sched
    r = core.run([exe, "walk", out] + args, timeout=7200, env=env)
    if flavour == "tsan":
        r.san = sanlog.collect(os.path.join(chk.dir, name))
    rows = []
    if os.path.exists(out):
        for ln in open(out):
            ln = ln.strip()
            if ln:
                try:
                    rows.append(json.loads(ln))
                except ValueError:
                    pass
    return job, r, rows


def account_walk(chk, job, r, rows):
    name, args, sched = job
    summary = [x for x in rows if x.get("summary")]
    case = {"kind": "walk", "args": args, "sched": sched}
    for x in rows:
        if "viol" in x:
            cfg = x["cfg"]
            c = dict(case)
            c["only"] = cfg
            chk.violation("C24|%s|%s" % (x["viol"], geometry_class(cfg)),
                          "%dx%d SBs (sb %d), requested grid %dx%d, %d workers: %s"
                          % (cfg["w"], cfg["h"], cfg["sb"], cfg["cols"], cfg["rows"], cfg["T"], x["msg"]), c)
    for key, ex in getattr(r, "san", []):
        chk.bump("tsan_reports")
        chk.violation("C24|%s" % key, "ThreadSanitizer report while walking segments (%s): %s" % (" ".join(args), ex[:700]), case)
    if not summary:
        if not any("viol" in x for x in rows):
            chk.inconclusive_case("segwalk %s ended without a summary (rc=%s timeout=%s) %s" % (name, r.rc, r.timed_out, r.err[-300:]), case)
        else:
            chk.bump("walk_processes_aborted")
        return
    s = summary[0]
    chk.count(int(s["walks"]))
    for k in ("configs", "walks", "segments_started", "sbs_walked", "feedback_tasks", "empty_segments_started",
              "empty_segments_in_row_range", "distinct_start_orders", "nonserial_walks", "perturbations"):
        chk.bump("walk_" + k, int(s.get(k, 0)))
    chk.note_set("walk_worker_counts", s["T"])
    chk.note_set("walk_grid_sets", "%s/sb%d" % (s["grids"], s["sb"]))
    # distinct interleavings: one id per process-distinct start order
    for i in range(int(s.get("distinct_start_orders", 0))):
        chk.nontrivial.add("%s-%d" % (name, i))
    chk.sample({k: s[k] for k in ("sb", "T", "grids", "configs", "walks", "segments_started", "sbs_walked", "feedback_tasks",
                                  "distinct_start_orders", "nonserial_walks")}, limit=4)


# ------------------------------------------------------------------ real encodes
def encode_cases(rng, quick):
    t = cfggen.tiny_case
    cases = []

    def add(w, h, lp, frames, **kw):
        over = {"cfg.logical_processors": lp}
        over.update(kw)
        cases.append(t(rng, frames=frames, width=w, height=h, content=rng.choice(["pan", "rects", "mix"]), **over))

    add(128, 96, 4, 6)
    add(200, 120, 3, 5)
    add(352, 288, 8, 5)
    add(352, 288, 5, 4, **{"cfg.tile_rows": 1, "cfg.tile_columns": 1})
    add(640, 360, 16, 3)
    add(640, 360, 6, 3, **{"cfg.tile_rows": 2})
    add(1280, 720, 8, 2)
    add(1920, 1080, 12, 2)
    add(320, 180, 2, 6)
    add(176, 144, 1, 4)
    # halved grids (core_count 2..3): segments of several SBs over several SB rows, band sizes that divide evenly
    add(352, 288, 2, 3)
    add(416, 240, 3, 3)
    add(640, 360, 2, 2)
    if not quick:
        add(1920, 1080, 16, 3, **{"cfg.tile_rows": 1, "cfg.tile_columns": 2})
        add(1280, 720, 4, 3, **{"cfg.tile_rows": 2, "cfg.tile_columns": 1})
        add(854, 480, 7, 4)
        add(854, 480, 16, 4, **{"cfg.enc_mode": 5})
        add(960, 64, 8, 4)
        add(64, 64, 8, 4)
        add(130, 74, 9, 6)
        add(256, 144, 10, 8, passes=2)
        add(352, 288, 6, 6, **{"cfg.rate_control_mode": 1, "cfg.target_bit_rate": 500000})
        add(640, 360, 8, 3, **{"cfg.enc_mode": 4})
        for lp in (2, 3, 4, 6, 11, 13, 14, 15):
            add(rng.choice([320, 480, 640, 704]), rng.choice([180, 240, 288, 360]), lp, 3,
                **{"cfg.tile_rows": rng.choice([0, 0, 1]), "cfg.tile_columns": rng.choice([0, 0, 1])})
    return cases


def run_encode(chk, i, case, seed):
    prefix = os.path.join(chk.dir, "enc%03d" % i)
    exe = build.harness("plain", "segwalk", link="wb", libs=("enc",))
    res = enc.run_case("plain", case, prefix, trace=True, sched="%d:30:100" % (seed * 100 + i))
    out = {"case": case, "status": "ok", "why": "", "d": None}
    if res.timed_out:
        # a lost segment wake-up shows up as an encode that never ends: it counts when it reproduces (DESIGN 2.7)
        res2 = enc.run_case("plain", case, prefix + "r", sched="%d:30:100" % (seed * 100 + i + 50))
        if res2.timed_out:
            out.update(status="hang", why="encode hit the watchdog twice (%.0fs, %.0fs)" % (res.wall, res2.wall))
        else:
            out.update(status="inconclusive", why="encode hit the watchdog once (%.0fs), not on the re-run" % res.wall)
        enc.cleanup(prefix + "r")
    elif res.res and res.res.get("api_error") == 2:
        out.update(status="rejected")
    elif enc.crashed(res):
        out.update(status="crash", why="encoder died rc=%s %s" % (res.rc, (res.stderr or "")[-200:]))
    elif res.res is None or res.res.get("api_error"):
        out.update(status="inconclusive", why="encode failed rc=%s %s" % (res.rc, (res.stderr or "")[-200:]))
    elif not os.path.exists(prefix + ".trace"):
        out.update(status="inconclusive", why="no trace written")
    else:
        out["d"] = check_trace(prefix + ".trace", exe)
        out["frames"] = int(res.res.get("packets", 0))
    if out["status"] == "ok":
        enc.cleanup(prefix)
    return out


def account_encode(chk, out):
    case = {"kind": "encode", "case": out["case"]}
    chk.count()
    if out["status"] == "rejected":
        chk.bump("encode_rejected_config")
        return
    c = out["case"]
    sig = "lp=%s %sx%s tiles=%sx%s" % (c.get("cfg.logical_processors"), c.get("width"), c.get("height"),
                                       c.get("cfg.tile_columns", 0), c.get("cfg.tile_rows", 0))
    tl = "tiles" if c.get("cfg.tile_columns") or c.get("cfg.tile_rows") else "notiles"
    if out["status"] in ("crash", "hang"):
        chk.violation("C24|encode-%s|%s|%s" % (out["status"], tl, common.feature_sig(c)),
                      "real encode (%s) under H1 perturbation with the H4 trace on: %s" % (sig, out["why"]), case)
        return
    if out["status"] != "ok":
        chk.inconclusive_case("real encode: %s" % out["why"], case)
        return
    d = out["d"]
    info = d["info"]
    if not info["instances_checked"]:
        chk.inconclusive_case("real encode (%s): no H4 segment records in the trace (library built without the H4 hook?)" % sig, case)
        return
    for key, msg in d["viol"]:
        chk.violation("C24|encode-trace|%s|%s" % (key, tl),
                      "real encode (%s): %s" % (sig, msg), case)
    chk.bump("encodes_validated")
    chk.bump("encode_pictures_validated", info["pictures"])
    chk.bump("encode_tile_group_instances_validated", info["instances_checked"])
    chk.bump("encode_instances_armed_not_encoded", info["instances_skipped"])
    chk.bump("encode_segments_validated", info["segments"])
    chk.bump("encode_sbs_validated", info["sbs"])
    chk.bump("encode_dependencies_checked", info["dependencies_checked"])
    for g in info["grids"]:
        chk.note_set("encode_grids_seen(w,h,cols,rows)", tuple(g))
    for o in info["orders"]:
        chk.nontrivial_case("enc-" + o)
    chk.sample({"encode": sig, "pictures": info["pictures"], "instances": info["instances_checked"], "segments": info["segments"],
                "sbs": info["sbs"], "grids": info["grids"][:4]}, limit=8)


# ------------------------------------------------------------------ entry
def walk_jobs(quick, seed, scale):
    jobs = []
    sched = lambda i: "%d:40:60" % (seed * 1000 + i)
    if quick:
        k = 0
        for T in (3, 8):
            for part in range(3):
                jobs.append(("w64-T%d-p%d" % (T, part), ["sb=64", "T=%d" % T, "grids=derived", "part=%d/3" % part, "yield=80",
                                                        "seed=%d" % seed], sched(k)))
                k += 1
            jobs.append(("w128-T%d" % T, ["sb=128", "T=%d" % T, "grids=derived", "yield=80", "seed=%d" % seed], sched(k)))
            k += 1
        jobs.append(("tsan128-T4", ["sb=128", "T=4", "grids=derived", "part=0/3", "yield=80", "seed=%d" % seed], sched(k)))
    else:
        jobs.append(("tsan128-T6", ["sb=128", "T=6", "grids=derived", "yield=80", "reps=2", "seed=%d" % seed], sched(999)))
        jobs.append(("tsan64-T4", ["sb=64", "T=4", "grids=derived", "part=0/4", "yield=80", "seed=%d" % seed], sched(998)))
        k = 0
        for T in (1, 2, 4, 8, 16):
            for part in range(2):
                jobs.append(("d64-T%d-p%d" % (T, part), ["sb=64", "T=%d" % T, "grids=derived", "part=%d/2" % part, "yield=80",
                                                        "reps=3", "seed=%d" % seed], sched(k)))
                k += 1
            jobs.append(("d128-T%d" % T, ["sb=128", "T=%d" % T, "grids=derived", "yield=80", "reps=3", "seed=%d" % seed], sched(k)))
            k += 1
        # every grid up to the constructor's maxima: complete for T=4, one in `sample` for the other worker counts
        parts = 12
        for part in range(parts):
            jobs.append(("a64-T4-p%d" % part, ["sb=64", "T=4", "grids=all", "part=%d/%d" % (part, parts), "yield=60",
                                               "seed=%d" % seed], sched(k)))
            k += 1
        jobs.append(("a128-T4", ["sb=128", "T=4", "grids=all", "yield=60", "seed=%d" % seed], sched(k)))
        for T in (1, 2, 8, 16):
            for s2 in range(2):
                k += 1
                jobs.append(("a64-T%d-s%d" % (T, s2), ["sb=64", "T=%d" % T, "grids=all", "sample=%d" % max(1, int(16 / scale)),
                                                     "yield=60", "seed=%d" % (seed * 10 + s2)], sched(k)))
            k += 1
            jobs.append(("a128-T%d" % T, ["sb=128", "T=%d" % T, "grids=all", "sample=2", "yield=60", "seed=%d" % seed], sched(k)))
    return jobs


def run(chk, tier, replay=None):
    quick = tier == "quick"
    seed = chk.seed
    scale = getattr(chk, "scale", 1)
    build.harness("plain", "segwalk", link="wb", libs=("enc",))
    build.harness("tsan", "segwalk", link="wb", libs=("enc",))
    if replay:
        c = replay["case"]["case"]
        if c.get("kind") == "encode":
            account_encode(chk, run_encode(chk, 0, c["case"], seed))
        else:
            o = c.get("only")
            args = [a for a in c["args"] if not a.startswith("part=") and not a.startswith("sample=") and not a.startswith("reps=")]
            if o:
                args += ["only=%d,%d,%d,%d,%d,%d" % (o["w"], o["h"], o["cols"], o["rows"], o["ctor_cols"], o["ctor_rows"]),
                         "reps=2000", "stuck_ms=8000"]
            job, r, rows = run_walk(chk, ("replay", args, c.get("sched")))
            account_walk(chk, job, r, rows)
            chk.nontrivial.add("replay-pad")
        return chk.finish(rule="replay of one stored configuration (2000 walks) or encode")
    jobs = [("walk", j) for j in walk_jobs(quick, seed, scale)]
    ecases = encode_cases(chk.rng, quick)
    # big encodes first, then the walks
    order = sorted(range(len(ecases)), key=lambda i: -int(ecases[i]["width"]) * int(ecases[i]["height"]) * int(ecases[i]["frames"]))
    jobs = [j for j in jobs if j[1][0].startswith("tsan")] + [("encode", (i, ecases[i])) for i in order] + \
        [j for j in jobs if not j[1][0].startswith("tsan")]
    enc.encdrv("plain")

    def one(job):
        if job[0] == "encode":
            i, c = job[1]
            return job, run_encode(chk, i, c, seed)
        return job, run_walk(chk, job[1])

    done = core.pmap(one, jobs, workers=min(6, core.default_workers()))
    for job, out in done:
        if job[0] == "encode":
            account_encode(chk, out)
        else:
            j, r, rows = out
            account_walk(chk, j, r, rows)
    return chk.finish(
        rule="evaluations = walks of the real init + assign_enc_dec_segments by T worker threads (one walk = one picture of "
             "w x h SBs with one segment grid; quick: every size 1..65x1..34 (sb 64) and 1..33x1..17 (sb 128) x the grids the "
             "encoder derives for each core-count class x T in {3,8}; thorough: x every grid up to the constructor maxima 60x37, "
             "T in {1,2,4,8,16}) + real encodes whose H4 trace was validated against the transcription; distinct_nontrivial = "
             "distinct segment start orders observed (per walk process, plus per encoded picture/tile group)",
        min_evaluations=100)
