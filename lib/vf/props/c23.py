"""C23 - the system resource manager hands objects out safely and wakes every waiter.

(a) srmstress (white-box link of the real EbSystemResourceManager.c / EbThreads.c): thousands of short
    multi-threaded histories, each judged by two independent oracles:
      * client oracle (inside the harness): exclusive hand-out, payload integrity, exactly-once, per-consumer
        order, shutdown returns every consumer, conservation walk of the real queues, state-based lost-wake-up
        diagnosis when a history makes no progress;
      * trace oracle (lib/vf/trace.py over the H3 records emitted inside the SRM's own critical sections).
    A reduced set runs on the `tsan` build without tracing (the trace sink's atomics would add
    happens-before edges): any ThreadSanitizer report is a violation.
(b) the trace oracle over the H3 traces of real encodes (every SRM instance of the pipeline) under H1
    perturbation; after a clean deinit nothing may be blocked.
"""
import collections
import json
import os
import sys

if __name__ == "__main__":
    sys.path.insert(0, os.path.join(os.path.dirname(os.path.abspath(__file__)), "..", ".."))
    from vf import trace  # noqa: E402
else:
    from .. import build, cfggen, core, enc, sanlog, trace

LEVEL = "exploration"
SHIFT = 36  # srmstress rebases seq by (ordinal+1) << 36 per history


# ------------------------------------------------------------------ trace checking in a subprocess (no GIL contention)
def _check_trace_file(path, per_history):
    recs = trace.read(path)
    out = {"events": len(recs), "event_counts": collections.Counter(), "histories": {}, "resources": 0,
           "resource_events": 0, "blocked_producers": 0, "reregistrations": 0, "hooks_v2": False}
    groups = collections.OrderedDict()
    if per_history:
        for r in recs:
            groups.setdefault(r[0] >> SHIFT, []).append(r)
    else:
        groups[0] = recs
    for g, rr in groups.items():
        viol, info = trace.check_srm(rr, strict_quiescent=True)
        out["event_counts"].update(info["event_counts"])
        out["hooks_v2"] = out["hooks_v2"] or info["hooks_v2"]
        out["resources"] += len(info["resources"])
        shapes = []
        for res in info["resources"]:
            out["resource_events"] += res["events"]
            out["reregistrations"] += res["reregistrations"]
            out["blocked_producers"] += sum(1 for b in res["blocked"] if b[0] == "empty")
            shapes.append((res["objects"], res["producers"], res["consumers"], res["posts"]))
        hashes = []
        for idx, o in sorted(info["order_by_resource"].items()):
            if len(o) >= 2:
                hashes.append(_sha(repr(shapes[idx][:3]) + repr(o)))
        out["histories"][str(g)] = {"viol": viol[:8], "orders": hashes,
                                    "posts": sum(s[3] for s in shapes), "resources": len(shapes),
                                    "blocked": [(res["index"], b) for res in info["resources"] for b in res["blocked"]][:8]}
    out["event_counts"] = dict(out["event_counts"])
    return out


def _sha(s):
    import hashlib
    return hashlib.sha256(s.encode()).hexdigest()[:16]


def _main_cli():
    mode, path = sys.argv[1], sys.argv[2]
    out = _check_trace_file(path, per_history=(mode == "--check-batch"))
    json.dump(out, sys.stdout)


if __name__ == "__main__":
    _main_cli()
    sys.exit(0)


def check_trace(path, per_history, timeout=1800):
    env = {"PYTHONPATH": os.path.join(build.VERIF, "lib")}
    r = core.run([sys.executable, "-m", "vf.props.c23", "--check-batch" if per_history else "--check-one", path],
                 timeout=timeout, env=env)
    if r.rc != 0 or r.timed_out:
        raise core.HarnessError("trace checker failed on %s: rc=%s %s" % (path, r.rc, r.err[-500:]))
    return json.loads(r.out)


# ------------------------------------------------------------------ srmstress batches
def run_batch(flavour, exe, seed, first, count, prefix, cls, want_trace, stuck_ms=None, timeout=None):
    for suffix in (".results", ".trace"):
        if os.path.exists(prefix + suffix):
            os.unlink(prefix + suffix)
    cmd = [exe, "run", str(seed), str(first), str(count), prefix, "class=" + cls, "trace=%d" % (1 if want_trace else 0),
           "sched=1"]
    if stuck_ms:
        cmd.append("stuck_ms=%d" % stuck_ms)
    env = sanlog.env_for(flavour, prefix)
    if "TSAN_OPTIONS" in env:
        # children leave through _exit with parked producer threads: that is the scenario, not a leak
        env["TSAN_OPTIONS"] += ":report_thread_leaks=0"
    per = 0.02 if flavour == "plain" else 1.0
    r = core.run(cmd, timeout=timeout or max(600, 60 * per * count), env=env)
    results = []
    if os.path.exists(prefix + ".results"):
        for ln in open(prefix + ".results"):
            ln = ln.strip()
            if ln:
                try:
                    results.append(json.loads(ln))
                except ValueError:
                    results.append({"verdict": "garbled", "raw": ln[:200]})
    return r, results


class Agg:
    def __init__(self, chk):
        self.chk = chk
        self.stuck_rerun = []  # (seed, h, cls, result)


def account_history(chk, agg, seed, cls, flavour, res, tr):
    """res: result line of the harness (client oracle); tr: per-history trace verdict or None"""
    h = res.get("h")
    case = {"kind": "history", "seed": seed, "h": h, "cls": cls, "flavour": flavour,
            "shape": {k: res.get(k) for k in ("nobj", "nprod", "ncons", "nrel", "T", "shutdown_after", "nb_permille", "sched")}}
    chk.count()
    chk.bump("histories_%s_%s" % (flavour, cls))
    verdict = res.get("verdict")
    tviol = list(tr["viol"]) if tr else []
    overflow = any(k == "process-queue-overflow" for k, _ in tviol)
    nbmulti = cls == "nbmulti"
    if verdict == "crash":
        if nbmulti:
            chk.violation("C23|process-queue-overflow|non-blocking-get|multi-consumer",
                          "history crashed with signal %s: svt_get_full_object_non_blocking registers the consumer fifo on "
                          "every call, the process queue (capacity = number of consumers) overflows" % res.get("signal"), case)
        else:
            chk.violation("C23|crash|signal%s|class=%s" % (res.get("signal"), cls),
                          "history %s crashed with signal %s" % (h, res.get("signal")), case)
        return
    if verdict == "batch-aborted":
        chk.evaluations -= 1
        chk.bump("histories_skipped_after_10_wedged_histories_in_a_batch", int(res.get("remaining", 0)))
        return
    if verdict in ("hard-timeout", "garbled", "harness"):
        chk.inconclusive_case("history %s: %s" % (h, verdict), case)
        return
    for k in ("client_events", "perturbations", "trace_records", "parked_producers", "posts", "deliveries", "releases",
              "nb_calls", "nb_empty", "blocking_calls"):
        chk.bump(k, int(res.get(k, 0)))
    if res.get("shutdown_after", 0) < res.get("T", 0):
        chk.bump("histories_with_midstream_shutdown")
    cviol = [tuple(x) for x in res.get("viol", [])]
    stuck = int(res.get("stuck", 0))
    if nbmulti and (tviol or stuck or cviol):
        # every failure mode of this class (overwritten registration, consumer never woken, NULL fifo popped from the
        # process queue) is the same defect; other defects are the business of the std/pool classes
        chk.violation("C23|process-queue-overflow|non-blocking-get|multi-consumer",
                      "non-blocking gets on a %s-consumer resource: trace oracle: %s; client oracle: %s; stuck phase %d: %s"
                      % (res.get("ncons"), "; ".join("%s: %s" % (k, m) for k, m in tviol[:2]) or "-",
                         "; ".join("%s: %s" % x for x in cviol[:2]) or "-", stuck, res.get("diag", "")[:300]), case)
        return
    for key, msg in cviol:
        if key == "client|shutdown-stuck":
            continue  # decided below by reproduction
        chk.violation("C23|%s" % key, "history %s (class %s, %s objects, %s producers, %s consumers): %s"
                      % (h, cls, res.get("nobj"), res.get("nprod"), res.get("ncons"), msg), case)
    for key, msg in tviol:
        chk.violation("C23|trace|%s" % key, "history %s (class %s, %s objects, %s producers, %s consumers): %s"
                      % (h, cls, res.get("nobj"), res.get("nprod"), res.get("ncons"), msg), case)
    if stuck:
        agg.stuck_rerun.append((seed, h, cls, flavour, res, case))
    if tr:
        for o in tr["orders"]:
            chk.nontrivial_case(o)
        if not tr["orders"] and int(res.get("posts", 0)) >= 1:
            chk.nontrivial_case("single-handoff-%s" % h)
    elif not stuck and int(res.get("deliveries", 0)) >= 2:
        chk.bump("histories_without_trace_with_handoffs")
    if not cviol and not tviol and not stuck:
        chk.sample({k: res.get(k) for k in ("h", "cls", "nobj", "nprod", "ncons", "nrel", "T", "shutdown_after",
                                              "nb_permille", "sched", "posts", "deliveries", "client_events",
                                              "perturbations", "trace_records", "parked_producers")}, limit=4)


def settle_stuck(chk, agg, exe_of):
    """Histories that made no progress: a defect proven from the real state is already reported by the harness;
    shutdown-stuck counts only when it reproduces; everything else is inconclusive after one re-run."""
    # shutdown-stuck candidates first; re-running more than a handful adds nothing
    todo = sorted(agg.stuck_rerun, key=lambda x: (int(x[4].get("stuck", 0)) != 2, int(x[4].get("proven", 0))))
    chk.bump("stuck_histories", len(todo))
    if len(todo) > 8:
        chk.bump("stuck_histories_not_rerun", len(todo) - 8)
        for seed, h, cls, flavour, res, case in todo[8:]:
            if int(res.get("stuck", 0)) == 2 or not int(res.get("proven", 0)):
                chk.inconclusive_case("history %s made no progress in phase %s (%s), not re-run (too many): %s"
                                      % (h, res.get("stuck"), cls, res.get("diag", "")[:300]), case)
    for seed, h, cls, flavour, res, case in todo[:8]:
        phase = int(res.get("stuck", 0))
        proven = int(res.get("proven", 0))
        again = 0
        tries = 3 if phase == 2 else 1
        if phase != 2 and proven:
            continue  # the defect is already reported from the real state
        for t in range(tries):
            prefix = os.path.join(chk.dir, "rerun-%s-%s-%d" % (cls, h, t))
            r, results = run_batch(flavour, exe_of(flavour), seed, h, 1, prefix, cls, False, stuck_ms=5000)
            if results and int(results[0].get("stuck", 0)) == phase:
                again += 1
        if phase == 2:
            if again:
                chk.violation("C23|client|shutdown-stuck",
                              "history %s: a consumer never returned after svt_shutdown_process (reproduced %d/%d): %s"
                              % (h, again, tries, res.get("diag", "")[:400]), case)
            else:
                chk.inconclusive_case("history %s: consumer did not return after shutdown, not reproduced: %s"
                                      % (h, res.get("diag", "")[:300]), case)
        elif not proven:
            chk.inconclusive_case("history %s made no progress in phase %d (%s), reproduced %d/%d: %s"
                                  % (h, phase, cls, again, tries, res.get("diag", "")[:300]), case)


def plan_batches(total, batch):
    out = []
    first = 0
    while first < total:
        n = min(batch, total - first)
        out.append((first, n))
        first += n
    return out


# ------------------------------------------------------------------ real encodes
def encode_cases(rng, quick):
    t = cfggen.tiny_case
    cases = []
    for lp in (1, 2, 4, 8):
        cases.append(t(rng, frames=9 if quick else 17, width=128, height=96, content="pan", **{"cfg.logical_processors": lp}))
    cases.append(t(rng, frames=7, width=352, height=288, content="mix",
                   **{"cfg.tile_columns": 1, "cfg.tile_rows": 1, "cfg.logical_processors": 4}))
    cases.append(t(rng, frames=20, width=128, height=96, content="pan",
                   **{"cfg.enable_overlays": 1, "cfg.hierarchical_levels": 3, "cfg.logical_processors": 2}))
    cases.append(t(rng, frames=12, width=96, height=64, content="rects", passes=2, **{"cfg.logical_processors": 2}))
    cases.append(t(rng, frames=10, width=128, height=96, content="cuts",
                   **{"cfg.rate_control_mode": 1, "cfg.target_bit_rate": 200000, "cfg.logical_processors": 4}))
    if not quick:
        for lp in (1, 3, 6, 16):
            cases.append(t(rng, frames=25, width=192, height=128, content="zoom",
                           **{"cfg.logical_processors": lp, "cfg.enc_mode": 6}))
        cases.append(t(rng, frames=6, width=640, height=360, content="mix",
                       **{"cfg.tile_columns": 2, "cfg.tile_rows": 2, "cfg.logical_processors": 8}))
        cases.append(t(rng, frames=16, width=128, height=96, content="pan", passes=2,
                       **{"cfg.rate_control_mode": 1, "cfg.target_bit_rate": 300000, "cfg.logical_processors": 4}))
        cases.append(t(rng, frames=3, width=1280, height=720, content="pan", **{"cfg.logical_processors": 8}))
        cases.append(t(rng, frames=33, width=128, height=96, content="pan",
                       **{"cfg.enable_overlays": 1, "cfg.hierarchical_levels": 4, "cfg.logical_processors": 8}))
        for i in range(10):
            c = cfggen.gen_case(rng, quick=True, allow_slow=False)
            c["frames"] = min(int(c["frames"]), 12)
            cases.append(c)
    return cases


def run_encode(chk, i, case, sched_seed):
    prefix = os.path.join(chk.dir, "enc%03d" % i)
    res = enc.run_case("plain", case, prefix, trace=True, sched="%d:50:200" % sched_seed)
    out = {"case": case, "status": "ok", "tr": None, "why": ""}
    if res.timed_out:
        out.update(status="inconclusive", why="encode hit the watchdog (%.0fs)" % res.wall)
    elif res.res and res.res.get("api_error") == 2:
        out.update(status="rejected")
    elif enc.crashed(res) or res.res is None or res.res.get("api_error"):
        out.update(status="inconclusive", why="encode failed rc=%s %s" % (res.rc, (res.stderr or "")[-200:]))
    if out["status"] == "ok" or out["status"] == "inconclusive" and os.path.exists(prefix + ".trace"):
        if os.path.exists(prefix + ".trace") and os.path.getsize(prefix + ".trace") > 0:
            tr = check_trace(prefix + ".trace", per_history=False)
            if out["status"] == "ok":
                out["tr"] = tr
            else:
                out["blocked"] = tr["histories"]["0"]["blocked"]
        elif out["status"] == "ok":
            out.update(status="inconclusive", why="no trace written")
    if out["status"] == "ok":
        enc.cleanup(prefix)
    return out


def pipeline_sig(case):
    """Features that change which kernels hold references to which pool (keys stay stable across random tool draws)."""
    f = []
    g = lambda k, d=0: int(case.get(k, d))
    if g("cfg.rate_control_mode"):
        f.append("rc%d" % g("cfg.rate_control_mode"))
    if g("passes", 1) == 2:
        f.append("2pass")
    if g("cfg.enable_overlays"):
        f.append("overlays")
    if g("cfg.enable_tpl_la"):
        f.append("tpl")
    if g("cfg.superres_mode"):
        f.append("superres")
    return "+".join(f) if f else "base"


def account_encode(chk, out):
    case = {"kind": "encode", "case": out["case"]}
    chk.count()
    if out["status"] == "rejected":
        chk.bump("encode_rejected_config")
        return
    if out["status"] != "ok":
        chk.inconclusive_case("real encode: %s; parked: %s" % (out["why"], out.get("blocked")), case)
        return
    tr = out["tr"]
    hist = tr["histories"]["0"]
    chk.bump("encodes_checked")
    chk.bump("encode_resources_checked", tr["resources"])
    chk.bump("encode_events", tr["events"])
    chk.bump("encode_blocked_producers_at_exit", tr["blocked_producers"])
    for k, n in tr["event_counts"].items():
        chk.bump("encode_ev_" + k, n)
    sig = pipeline_sig(out["case"])
    for key, msg in hist["viol"]:
        chk.violation("C23|encode-trace|%s|%s" % (key, sig), "real encode (lp=%s %sx%s passes=%s, %s): %s"
                      % (out["case"].get("cfg.logical_processors"), out["case"].get("width"), out["case"].get("height"),
                         out["case"].get("passes", 1), sig, msg), case)
    for o in hist["orders"]:
        chk.nontrivial_case("enc-" + o)
    chk.note_set("encode_resources_per_run", hist["resources"])


# ------------------------------------------------------------------ entry
def run(chk, tier, replay=None):
    quick = tier == "quick"
    scale = getattr(chk, "scale", 1)
    seed = chk.seed
    agg = Agg(chk)
    exes = {}

    def exe_of(fl):
        if fl not in exes:
            exes[fl] = build.harness(fl, "srmstress", link="wb", libs=("enc",))
        return exes[fl]

    if replay:
        c = replay["case"]["case"]
        if c.get("kind") == "encode":
            account_encode(chk, run_encode(chk, 0, c["case"], seed))
        else:
            prefix = os.path.join(chk.dir, "replay")
            fl = c.get("flavour", "plain")
            for t in range(20):
                r, results = run_batch(fl, exe_of(fl), c["seed"], c["h"], 1, prefix, c["cls"], fl == "plain", stuck_ms=8000)
                tr = check_trace(prefix + ".trace", True) if fl == "plain" and os.path.exists(prefix + ".trace") else None
                for res in results:
                    account_history(chk, agg, c["seed"], c["cls"], fl, res, tr["histories"].get("1") if tr else None)
                for key, ex in sanlog.collect(prefix):
                    chk.violation("C23|%s" % key, ex[:600], c)
            settle_stuck(chk, agg, exe_of)
        return chk.finish(rule="replay of one stored case (histories are re-run 20 times: schedules are not deterministic)")

    n_std = int((1700 if quick else 170000) * scale)
    n_pool = int((200 if quick else 20000) * scale)
    n_nbm = int((60 if quick else 3000) * scale)
    n_tsan = int((120 if quick else 3000) * scale)
    batch = 250 if quick else 2500
    jobs = []
    for cls, n in (("std", n_std), ("pool", n_pool), ("nbmulti", n_nbm)):
        for first, cnt in plan_batches(n, 20 if cls == "nbmulti" and quick else batch):
            jobs.append(("plain", cls, first, cnt))
    tbatch = 30 if quick else 250
    for cls, n in (("std", n_tsan - n_tsan // 6), ("pool", n_tsan // 6)):
        for first, cnt in plan_batches(n, tbatch):
            # a different slice of the history space than the plain run
            jobs.append(("tsan", cls, 1000000 + first, cnt))
    ecases = encode_cases(chk.rng, quick)
    for i, c in enumerate(ecases):
        jobs.append(("encode", i, c, None))
    exe_of("plain")
    exe_of("tsan")
    enc.encdrv("plain")

    def one(job):
        if job[0] == "encode":
            return job, run_encode(chk, job[1], job[2], seed * 100 + job[1])
        fl, cls, first, cnt = job
        prefix = os.path.join(chk.dir, "%s-%s-%d" % (fl, cls, first))
        # nbmulti histories are expected to wedge (known weakness of the non-blocking get): do not wait long for them
        r, results = run_batch(fl, exe_of(fl), seed, first, cnt, prefix, cls, fl == "plain",
                               stuck_ms=2500 if cls == "nbmulti" else None)
        tr = None
        if fl == "plain" and os.path.exists(prefix + ".trace") and os.path.getsize(prefix + ".trace") > 0:
            tr = check_trace(prefix + ".trace", per_history=True)
            os.unlink(prefix + ".trace")
        san = sanlog.collect(prefix) if fl != "plain" else []
        return job, (r, results, tr, san)

    # long jobs first
    jobs.sort(key=lambda j: 0 if j[0] == "tsan" else 1 if j[0] == "encode" else 2)
    done = core.pmap(one, jobs, workers=min(6, core.default_workers()))
    for job, out in done:
        if job[0] == "encode":
            account_encode(chk, out)
            continue
        fl, cls, first, cnt = job
        r, results, tr, san = out
        if len(results) != cnt:
            chk.inconclusive_case("srmstress %s batch %s/%d reported %d of %d histories (rc=%s timeout=%s) %s"
                                  % (fl, cls, first, len(results), cnt, r.rc, r.timed_out, r.err[-300:]),
                                  {"kind": "batch", "cls": cls, "first": first, "count": cnt, "flavour": fl})
        if tr:
            for k, n in tr["event_counts"].items():
                chk.bump("ev_" + k, n)
            chk.bump("resources_checked", tr["resources"])
            chk.bump("trace_events_checked", tr["events"])
            chk.bump("nonblocking_reregistrations", tr["reregistrations"])
            if not tr["hooks_v2"]:
                chk.note_set("notes", "trace has no POOL_RETURN/REGISTER records: weaker release and wake-up checks")
        for res in results:
            k = res.get("h", 0) - first
            trh = tr["histories"].get(str(k + 1)) if tr else None
            account_history(chk, agg, seed, cls, fl, res, trh)
        for key, ex in san:
            chk.bump("tsan_reports")
            chk.violation("C23|%s" % key, "ThreadSanitizer report while stressing the SRM (%s batch %d): %s"
                          % (cls, first, ex[:700]),
                          {"kind": "history", "seed": seed, "h": first, "cls": cls, "flavour": "tsan", "count": cnt})
    settle_stuck(chk, agg, exe_of)
    return chk.finish(
        rule="evaluations = srmstress histories (fresh real SRM each: 1..6 objects, 1..4 producer threads, 0..4 consumer "
             "threads, 0..2 extra reference holders, blocking/non-blocking gets, inc_live_count/release_disable, idle or "
             "mid-stream shutdown, H1 perturbation) + real encodes whose H3 trace was checked; every history is judged by "
             "the client oracle and (plain build) the trace oracle, tsan histories by the client oracle and ThreadSanitizer; "
             "distinct_nontrivial = distinct hashes of (resource shape, hand-off order E/P/A/G/S) seen in the traces = "
             "distinct interleavings observed",
        min_evaluations=20)
