"""C20 - disabled coding tools never appear and the requested tiling is used."""
import os

from .. import av1parse, cfggen, core, enc
from . import common

LEVEL = "exploration"

# tool -> (config override that turns it off, override that turns it on, content that invites the tool)
TOOLS = {
    "loop_filter": ({"cfg.disable_dlf_flag": 1}, {"cfg.disable_dlf_flag": 0}, "mix"),
    "cdef": ({"cfg.cdef_level": 0}, {"cfg.cdef_level": 1}, "mix"),
    "loop_restoration": ({"cfg.enable_restoration_filtering": 0}, {"cfg.enable_restoration_filtering": 1, "cfg.enc_mode": 4}, "noise"),
    "intrabc": ({"cfg.screen_content_mode": 1, "cfg.intrabc_mode": 0}, {"cfg.screen_content_mode": 1, "cfg.intrabc_mode": 1}, "screen"),
    "screen_content_tools": ({"cfg.screen_content_mode": 0}, {"cfg.screen_content_mode": 1}, "screen"),
    "global_motion": ({"cfg.enable_global_motion": 0}, {"cfg.enable_global_motion": 1, "cfg.enc_mode": 3}, "zoom"),
    "warped_motion": ({"cfg.enable_warped_motion": 0}, {"cfg.enable_warped_motion": 1, "cfg.enc_mode": 3}, "zoom"),
    "superres": ({"cfg.superres_mode": 0}, {"cfg.superres_mode": 1, "cfg.superres_denom": 12, "cfg.superres_kf_denom": 12}, "pan"),
    "filter_intra": ({"cfg.filter_intra_level": 0}, {"cfg.filter_intra_level": 1, "cfg.enc_mode": 3}, "gradient"),
    "inter_intra": ({"cfg.inter_intra_compound": 0}, {"cfg.inter_intra_compound": 1, "cfg.enc_mode": 2}, "rects"),
    # block-level tools: judged from the decoder's block parser counters (hook H5)
    "palette": ({"cfg.screen_content_mode": 1, "cfg.palette_level": 0}, {"cfg.screen_content_mode": 1, "cfg.palette_level": 1}, "screen"),
    "cfl": ({"cfg.disable_cfl_flag": 1}, {"cfg.disable_cfl_flag": 0, "cfg.enc_mode": 4}, "mix"),
    "obmc": ({"cfg.obmc_level": 0}, {"cfg.obmc_level": 1, "cfg.enc_mode": 3}, "zoom"),
}
BLOCK_FIELD = {"palette": "palette", "cfl": "cfl", "obmc": "obmc", "filter_intra": "filter_intra", "inter_intra": "inter_intra",
               "warped_motion": "warped", "intrabc": "intrabc"}


def frames_of(prefix):
    pk = [d for _, d in enc.read_ivf(prefix + ".ivf")]
    st = av1parse.parse_stream(pk)
    return st, [f for p in st.packets for f in p.frame_headers if not f.show_existing_frame]


def uses(tool, st, frames):
    """-> (number of frames in which the bitstream signals the tool, total frames examined)"""
    sh = st.sequence_header
    n = 0
    for f in frames:
        if tool == "loop_filter":
            u = any(f.loop_filter_level[:2]) or any(f.loop_filter_level[2:])
        elif tool == "cdef":
            u = bool(f.cdef_bits) or any(f.cdef_y_pri_strength) or any(f.cdef_y_sec_strength) or \
                any(f.cdef_uv_pri_strength) or any(f.cdef_uv_sec_strength)
        elif tool == "loop_restoration":
            u = any(t != 0 for t in f.lr_type)
        elif tool == "intrabc":
            u = bool(f.allow_intrabc)
        elif tool == "screen_content_tools":
            u = bool(f.allow_screen_content_tools)
        elif tool == "global_motion":
            u = any(t != 0 for t in f.gm_type[1:])
        elif tool == "warped_motion":
            u = bool(f.allow_warped_motion)
        elif tool == "superres":
            u = bool(f.use_superres)
        elif tool == "filter_intra":
            u = bool(sh.enable_filter_intra)  # sequence-level permission: block-level use needs the decoder counters
        elif tool == "inter_intra":
            u = bool(sh.enable_interintra_compound)
        else:
            u = False
        n += 1 if u else 0
    return n, len(frames)


def block_counts(prefix):
    """Block-level tool use counted by the SVT decoder's parser (hook H5); trusted only when the pictures it decodes
    equal libaom's (which validates the parse).  -> (counts dict or None, reason)"""
    import json
    from .. import build
    exe = build.harness("plain", "dectools", libs=("dec",))
    r = core.run([exe, prefix + ".ivf", prefix + ".svtdec"], timeout=600)
    info = None
    for ln in r.out.splitlines():
        if ln.startswith("{"):
            try:
                info = json.loads(ln)
            except ValueError:
                pass
    if not info or not info.get("ok") or not info.get("hook"):
        return None, "SVT decoder could not parse the stream (rc=%s)" % (info or {}).get("rc")
    st, ai = enc.ref_decode(prefix + ".ivf", "aom", prefix + ".aomdec")
    if st != "ok":
        return None, "libaom decode unavailable (%s)" % st
    a = core.read_frames(prefix + ".aomdec")
    b = core.read_frames(prefix + ".svtdec")
    for pth in (prefix + ".aomdec", prefix + ".svtdec"):
        try:
            os.unlink(pth)
        except OSError:
            pass
    if len(a) != len(b) or any(x[4] != y[4] for x, y in zip(a, b)):
        return None, "SVT decoder output differs from libaom: its block parse is not trusted for this stream (C08's subject)"
    return info, ""


def tile_limits(w, h, sb128=False):
    """AV1 spec 5.9.15 tile_info(): limits for uniform spacing."""
    mi_cols = 2 * ((w + 7) >> 3)
    mi_rows = 2 * ((h + 7) >> 3)
    sb_shift = 5 if sb128 else 4
    sb_cols = (mi_cols + (1 << sb_shift) - 1) >> sb_shift
    sb_rows = (mi_rows + (1 << sb_shift) - 1) >> sb_shift
    sb_size_log2 = sb_shift + 2
    max_tile_width_sb = 4096 >> sb_size_log2
    max_tile_area_sb = (4096 * 2304) >> (2 * sb_size_log2)

    def tile_log2(blk, target):
        k = 0
        while (blk << k) < target:
            k += 1
        return k
    min_log2_cols = tile_log2(max_tile_width_sb, sb_cols)
    max_log2_cols = tile_log2(1, min(sb_cols, 64))
    max_log2_rows = tile_log2(1, min(sb_rows, 64))
    min_log2_tiles = max(min_log2_cols, tile_log2(max_tile_area_sb, sb_rows * sb_cols))
    return min_log2_cols, max_log2_cols, max_log2_rows, min_log2_tiles, sb_cols, sb_rows


def judge_tiles(case, st, frames):
    out = []
    w, h = int(case["width"]), int(case["height"])
    rc, rr = int(case.get("cfg.tile_columns", 0)), int(case.get("cfg.tile_rows", 0))
    sb128 = bool(st.sequence_header.use_128x128_superblock)
    mnc, mxc, mxr, mnt, sbc, sbr = tile_limits(w, h, sb128)
    want_c = max(mnc, min(mxc, rc))
    min_r = max(mnt - want_c, 0)
    want_r = max(min_r, min(mxr, rr))
    # uniform spacing rounds tile sizes up to whole superblocks: the number of tiles that results
    tw = (sbc + (1 << want_c) - 1) >> want_c
    th = (sbr + (1 << want_r) - 1) >> want_r
    want_cols = (sbc + tw - 1) // tw
    want_rows = (sbr + th - 1) // th
    for i, f in enumerate(frames):
        if (f.TileColsLog2, f.TileRowsLog2) != (want_c, want_r) or (f.TileCols, f.TileRows) != (want_cols, want_rows):
            out.append(("C20|tiling|req%dx%d" % (rc, rr),
                        "frame %d of a %dx%d picture signals TileColsLog2/RowsLog2 %d/%d (%dx%d tiles); requested log2 %d/%d, "
                        "limits cols [%d,%d] rows [%d,%d] -> expected %d/%d (%dx%d tiles)"
                        % (i, w, h, f.TileColsLog2, f.TileRowsLog2, f.TileCols, f.TileRows, rc, rr, mnc, mxc, min_r, mxr,
                           want_c, want_r, want_cols, want_rows)))
            break
    return out


def gen_jobs(rng, tier, scale):
    quick = tier == "quick"
    jobs = []
    presets = [8, 6, 4] if not quick else [8, 5]
    for tool, (off, on, content) in TOOLS.items():
        for preset in presets:
            for rep in range(1 if quick else 3):
                base = cfggen.tiny_case(rng, frames=9 if preset > 4 else 5, width=rng.choice([128, 176]), height=rng.choice([96, 144]),
                                        content=content, **{"cfg.enc_mode": preset, "cfg.recon_enabled": 0, "cfg.logical_processors": 4,
                                                            "cfg.hierarchical_levels": 3})
                c_off = dict(base)
                c_off.update({k: v for k, v in off.items()})
                c_off["cfg.enc_mode"] = min(int(base["cfg.enc_mode"]), int(on.get("cfg.enc_mode", 8)))
                c_on = dict(base)
                c_on.update(on)
                c_on["cfg.enc_mode"] = c_off["cfg.enc_mode"]
                jobs.append(("tool", tool, c_off, c_on))
                # the same switch in another context: a tool must stay off whatever else is configured
                ctxs = [{"cfg.tile_columns": 1, "cfg.tile_rows": 1, "width": 256, "height": 128},
                        {"bitdepth": 10}, {"cfg.hierarchical_levels": 2, "cfg.enable_overlays": 1},
                        {"cfg.rate_control_mode": 1, "cfg.target_bit_rate": 400000}, {"cfg.logical_processors": 1}]
                for ctx in (ctxs[:2] if quick and preset != presets[0] else (ctxs[:1] if quick else ctxs)):
                    if tool in ("intrabc", "screen_content_tools") and "bitdepth" in ctx:
                        continue
                    co, cn = dict(c_off), dict(c_on)
                    co.update(ctx)
                    cn.update(ctx)
                    jobs.append(("tool", tool, co, cn))
    sizes = [(64, 64), (128, 96), (256, 144), (352, 288), (640, 360)] + ([(1280, 720), (1920, 1080)] if not quick else [])
    combos = [(c, r) for c in range(0, 5) for r in range(0, 7)]
    for (w, h) in sizes:
        for (c, r) in (rng.sample(combos, 4) if quick else rng.sample(combos, 14)):
            case = cfggen.tiny_case(rng, frames=3 if w >= 640 else 5, width=w, height=h, content="pan",
                                    **{"cfg.tile_columns": c, "cfg.tile_rows": r, "cfg.recon_enabled": 0, "cfg.logical_processors": 8})
            jobs.append(("tiles", None, case, None))
    if scale < 1:
        jobs = jobs[:max(4, int(len(jobs) * scale))]
    return jobs


def run(chk, tier, replay=None):
    jobs = gen_jobs(chk.rng, tier, getattr(chk, "scale", 1))
    if replay:
        rc = replay["case"]["case"]
        jobs = [(rc["kind"], rc.get("tool"), rc["case"], rc.get("on"))]

    def enc1(case, prefix):
        res = enc.run_case("plain", case, prefix)
        ok = not (res.timed_out or enc.crashed(res) or res.res is None or res.res.get("api_error"))
        return res, ok

    def one(ij):
        i, (kind, tool, case, on) = ij
        prefix = os.path.join(chk.dir, "j%04d" % i)
        res, ok = enc1(case, prefix)
        if not ok:
            rej = res.res and res.res.get("api_error") == 2
            return kind, tool, case, on, [("rejected-config" if rej else None, "encode did not complete: %s" % ((res.res or {}).get("errmsg")))], {}
        st, frames = frames_of(prefix)
        if st.errors:
            return kind, tool, case, on, [(None, "stream does not parse (C02's subject)")], {}
        info = {"frames": len(frames)}
        v = []
        if kind == "tiles":
            v = judge_tiles(case, st, frames)
        else:
            n, tot = uses(tool, st, frames)
            bc = None
            if tool in BLOCK_FIELD:
                bc, why = block_counts(prefix)
                if bc is None:
                    if tool in ("palette", "cfl", "obmc"):
                        return kind, tool, case, on, [(None, why)], info
                else:
                    info["blocks_parsed"] = bc["blocks"]
                    if bc[BLOCK_FIELD[tool]]:
                        v.append(("C20|block-uses-tool-while-off|%s|preset%s" % (tool, case.get("cfg.enc_mode")),
                                  "%s is switched off in the configuration but %d of %d parsed blocks use it"
                                  % (tool, bc[BLOCK_FIELD[tool]], bc["blocks"])))
            if n:
                v.append(("C20|tool-used-while-off|%s|preset%s" % (tool, case.get("cfg.enc_mode")),
                          "%s is switched off in the configuration but %d of %d frames signal it" % (tool, n, tot)))
            # the paired switch-on run shows whether this content would have used the tool
            res2, ok2 = enc1(on, prefix + "_on")
            if ok2:
                st2, fr2 = frames_of(prefix + "_on")
                n2, _ = uses(tool, st2, fr2)
                if tool in BLOCK_FIELD:
                    bc2, _w = block_counts(prefix + "_on")
                    if bc2 is not None:
                        info["on_block_uses"] = bc2[BLOCK_FIELD[tool]]
                        if tool in ("palette", "cfl", "obmc"):
                            n2 = bc2[BLOCK_FIELD[tool]]
                info["on_uses"] = n2
            enc.cleanup(prefix + "_on")
        if not v:
            enc.cleanup(prefix)
        return kind, tool, case, on, v, info

    for kind, tool, case, on, v, info in core.pmap(one, list(enumerate(jobs))):
        chk.count()
        if v and v[0][0] == "rejected-config":
            chk.bump("rejected_config_draws")
            continue
        chk.bump("frames_checked", info.get("frames", 0))
        chk.bump("blocks_parsed_by_decoder_hook", info.get("blocks_parsed", 0))
        if info.get("on_block_uses"):
            chk.note_set("tools_seen_at_block_level_in_on_runs", tool)
        if not v:
            if kind == "tiles":
                chk.nontrivial_case(core.sha("tiles" + cfggen.case_ident(case)))
                chk.bump("tiling_cases_held")
            else:
                if info.get("on_uses"):
                    chk.nontrivial_case(core.sha(tool + cfggen.case_ident(case)))
                    chk.note_set("tools_shown_usable_by_the_paired_on_run", tool)
                else:
                    chk.note_set("tools_whose_on_run_did_not_use_them", tool)
            chk.sample({"kind": kind, "tool": tool, "case": {k: case[k] for k in sorted(case) if k.startswith("cfg.") or k in ("width", "height", "content")}}, limit=5)
        for key, why in v:
            if key is None:
                chk.inconclusive_case(why, case)
            else:
                chk.violation(key, why, {"kind": kind, "tool": tool, "case": case, "on": on})
    return chk.finish(
        rule="(a) each tool switch off x presets x content inviting the tool: every frame header (independent parser) must "
             "not signal the tool; the paired switch-on run must show the tool in use for the case to count as non-trivial; "
             "(b) tile_columns x tile_rows x sizes: signalled TileColsLog2/TileRowsLog2 and tile counts == the request clamped "
             "by the spec's limits for the frame size")
