"""C18 - frame quantizers stay within the configured QP bounds."""
import os

from .. import av1parse, cfggen, core, enc
from . import common

LEVEL = "exploration"
Q2QI = [0, 4, 8, 12, 16, 20, 24, 28, 32, 36, 40, 44, 48, 52, 56, 60, 64, 68, 72, 76, 80, 84, 88, 92, 96, 100, 104, 108,
        112, 116, 120, 124, 128, 132, 136, 140, 144, 148, 152, 156, 160, 164, 168, 172, 176, 180, 184, 188, 192, 196,
        200, 204, 208, 212, 216, 220, 224, 228, 232, 236, 240, 244, 249, 255]
assert Q2QI[42] == 168  # user guide's worked example


def clip(lo, hi, v):
    return max(lo, min(hi, v))


def judge(case, prefix):
    out = []
    g = lambda k, d: int(case.get(k, d))
    rc = g("cfg.rate_control_mode", 0)
    # library defaults are min 1 / max 63; in constant-QP mode the configured bounds are documented as not applicable
    # ("only applicable when rate control mode is set to 1") and the library substitutes its defaults: the effective
    # bounds are what "clipped to those bounds" can mean there.
    # qp 0 (qindex 0) would signal lossless coding, which the encoder does not implement: the library uses 1 as the
    # smallest qp in every mode (constant QP always did; the rate-control modes do since fix 05e0778, before which a
    # bound of 0 produced undecodable lossless-signalled frames). The effective bounds are therefore max(1, configured).
    if rc:
        lo, hi = Q2QI[max(1, g("cfg.min_qp_allowed", 1))], Q2QI[max(1, g("cfg.max_qp_allowed", 63))]
    else:
        lo, hi = Q2QI[1], Q2QI[63]
    pk = [d for _, d in enc.read_ivf(prefix + ".ivf")]
    st = av1parse.parse_stream(pk)
    if st.errors:
        return [(None, "stream does not parse: %s" % st.errors[:2])], {}
    frames = [f for p in st.packets for f in p.frame_headers if not f.show_existing_frame]
    info = {"frames": len(frames), "qidx_min": min(f.base_q_idx for f in frames) if frames else None,
            "qidx_max": max(f.base_q_idx for f in frames) if frames else None}
    sig = "rc%d%s%s" % (rc, "+2pass" if g("passes", 1) == 2 else "", "+fixedqidx" if g("cfg.use_fixed_qindex_offsets", 0) else "")
    if rc in (1, 2):
        for i, f in enumerate(frames):
            if not (lo <= f.base_q_idx <= hi):
                out.append(("C18|qindex-out-of-bounds|%s|%s" % (sig, "below" if f.base_q_idx < lo else "above"),
                            "coded frame %d (type %d, order hint %d) has base_q_idx %d outside [%d,%d] = qindex of "
                            "min/max qp %d/%d" % (i, f.frame_type, f.order_hint, f.base_q_idx, lo, hi,
                                                  g("cfg.min_qp_allowed", 0), g("cfg.max_qp_allowed", 63))))
                break
    elif g("cfg.use_fixed_qindex_offsets", 0) == 1:
        q0 = Q2QI[g("cfg.qp", 50)]
        L = g("cfg.hierarchical_levels", 4)
        offs = [g("cfg.qindex_offsets[%d]" % i, 0) for i in range(6)]
        kf = g("cfg.key_frame_qindex_offset", 0)
        allowed_inter = set(clip(lo, hi, q0 + offs[l]) for l in range(0, L + 1))
        allowed_intra = {clip(lo, hi, q0 + kf)}
        mg = 1 << L
        n = g("frames", 0)
        exact = g("cfg.intra_period_length", -2) == -1 and not g("cfg.enable_overlays", 0) and n < 120
        for i, f in enumerate(frames):
            intra = f.frame_type in (0, 2)
            ok = f.base_q_idx in (allowed_intra if intra else allowed_inter)
            if not ok:
                out.append(("C18|fixed-qindex-mismatch|%s" % ("intra" if intra else "inter"),
                            "coded frame %d (type %d, order hint %d): base_q_idx %d, expected one of %s (qindex(qp)=%d, "
                            "offsets %s / key %d, bounds [%d,%d])" % (i, f.frame_type, f.order_hint, f.base_q_idx,
                                                                     sorted(allowed_intra if intra else allowed_inter), q0, offs[:L + 1], kf, lo, hi)))
                break
            if exact and not intra:
                pos = f.order_hint  # display position (single key frame, < 128 frames)
                if 1 <= pos <= ((n - 1) // mg) * mg:  # inside a complete mini-GOP
                    p = ((pos - 1) % mg) + 1
                    tz = (p & -p).bit_length() - 1
                    layer = L - tz
                    want = clip(lo, hi, q0 + offs[layer])
                    info["exact_layer_checks"] = info.get("exact_layer_checks", 0) + 1
                    if f.base_q_idx != want:
                        out.append(("C18|fixed-qindex-layer-mismatch", "display position %d is temporal layer %d of a %d-frame "
                                    "mini-GOP: base_q_idx %d, expected %d" % (pos, layer, mg, f.base_q_idx, want)))
                        break
    return out, info


def gen_cases(rng, tier, scale):
    quick = tier == "quick"
    cases = []
    t = cfggen.tiny_case
    pairs = [(0, 63), (10, 40), (20, 20), (30, 31), (0, 10), (50, 63), (63, 63), (0, 0), (25, 45)]
    for rc in (1, 2):
        for (lo, hi) in (pairs if not quick else rng.sample(pairs, 5) + [(20, 20)]):
            for passes in ((1, 2) if rc == 1 else (1,)):
                if quick and passes == 2 and rng.random() < 0.5:
                    continue
                content, rate = rng.choice([("flat", 50000000), ("noise", 10000), ("cuts", 200000), ("pan", 1000000),
                                            ("noise", 50000000), ("flat", 10000)])
                c = t(rng, frames=rng.choice([12, 24, 33]), width=128, height=96, content=content, passes=passes,
                      **{"cfg.rate_control_mode": rc, "cfg.target_bit_rate": rate, "cfg.min_qp_allowed": lo,
                         "cfg.max_qp_allowed": hi, "cfg.recon_enabled": 0, "cfg.logical_processors": 4,
                         "cfg.hierarchical_levels": rng.choice([3, 4])})
                if rc == 2:
                    c["cfg.intra_period_length"] = 15
                    c["cfg.look_ahead_distance"] = 15
                cases.append(c)
    # several GOPs under a starved or flooded budget with tight bounds: later GOPs are corrected from the error of
    # earlier ones (the refinement after the per-frame clamp), so the bounds must be re-checked at the very end
    for rc in (1, 2):
        for (lo, hi, rate) in ([(10, 30, 30000), (20, 20, 20000), (0, 12, 40000000)] if quick else
                               [(10, 30, 30000), (20, 20, 20000), (0, 12, 40000000), (5, 25, 10000), (30, 40, 15000),
                                (40, 63, 5000), (0, 5, 80000000)]):
            for ip in ((15,) if quick else (7, 15, 31)):
                c = t(rng, frames=64, width=192, height=128, content=rng.choice(["cuts", "noise", "mix"]),
                      **{"cfg.rate_control_mode": rc, "cfg.target_bit_rate": rate, "cfg.min_qp_allowed": lo,
                         "cfg.max_qp_allowed": hi, "cfg.recon_enabled": 0, "cfg.logical_processors": 4,
                         "cfg.hierarchical_levels": 3, "cfg.intra_period_length": ip})
                if rc == 2:
                    c["cfg.look_ahead_distance"] = ip
                cases.append(c)
    for i in range(12 if quick else 120):
        L = rng.choice([0, 1, 2, 3, 4, 5])
        mg = 1 << L
        c = t(rng, frames=rng.choice([mg + 1, 2 * mg + 1, 3 * mg + 1]) if mg < 32 else 33, content=rng.choice(["pan", "rects", "cuts"]),
              **{"cfg.use_fixed_qindex_offsets": 1, "cfg.qp": rng.choice([0, 10, 30, 42, 55, 63]),
                 "cfg.hierarchical_levels": L, "cfg.intra_period_length": rng.choice([-1, -1, 7, 16]),
                 "cfg.key_frame_qindex_offset": rng.choice([-60, -20, 0, 15, 300]), "cfg.recon_enabled": 0,
                 "cfg.logical_processors": 4})
        for k in range(6):
            c["cfg.qindex_offsets[%d]" % k] = rng.choice([-300, -40, -8, 0, 3, 12, 50, 300])
        if rng.random() < 0.4:
            lo = rng.choice([0, 10, 20])
            c["cfg.min_qp_allowed"], c["cfg.max_qp_allowed"] = lo, rng.choice([lo, 40, 63])
        cases.append(c)
    # plain CQP: bounds documented as "only applicable when rate control mode is 1": recorded, trivial range asserted
    for i in range(4 if quick else 30):
        cases.append(t(rng, frames=17, content="pan", **{"cfg.qp": rng.choice([0, 20, 42, 63]), "cfg.recon_enabled": 0,
                                                         "cfg.min_qp_allowed": 20, "cfg.max_qp_allowed": 40}))
    if scale != 1:
        cases = cases[:max(4, int(len(cases) * scale))]
    return cases


def run(chk, tier, replay=None):
    cases = [replay["case"]["case"]] if replay else gen_cases(chk.rng, tier, getattr(chk, "scale", 1))

    def one(ic):
        i, case = ic
        prefix = os.path.join(chk.dir, "c%04d" % i)
        res = enc.run_case("plain", case, prefix)
        if res.timed_out or enc.crashed(res) or res.res is None or res.res.get("api_error"):
            kind = "rejected-config" if (res.res and res.res.get("api_error") == 2) else None
            return case, [(kind, "encode did not complete (timeout=%s rc=%s %s): judged by C11/C04, not here"
                           % (res.timed_out, res.rc, (res.res or {}).get("errmsg")))], {}
        v, info = judge(case, prefix)
        if not v:
            enc.cleanup(prefix)
        return case, v, info

    for case, v, info in core.pmap(one, list(enumerate(cases))):
        chk.count()
        if v and v[0][0] == "rejected-config":
            chk.bump("rejected_config_draws")
            continue
        chk.bump("frames_checked", info.get("frames", 0))
        chk.bump("exact_layer_checks", info.get("exact_layer_checks", 0))
        if not v:
            rc = int(case.get("cfg.rate_control_mode", 0))
            if rc or int(case.get("cfg.use_fixed_qindex_offsets", 0)):
                chk.nontrivial_case(core.sha(cfggen.case_ident(case)))
            else:
                chk.note_set("plain_cqp_qindex_ranges_observed", "qp=%s min/max=20/40 -> [%s,%s]" % (case.get("cfg.qp"), info.get("qidx_min"), info.get("qidx_max")))
            chk.sample({"case": {k: case[k] for k in sorted(case) if k.startswith("cfg.") or k in ("frames", "passes")},
                        "base_q_idx_range": [info.get("qidx_min"), info.get("qidx_max")]}, limit=5)
        for key, why in v:
            if key is None:
                chk.inconclusive_case(why, case)
            else:
                chk.violation(key, why, case)
    return chk.finish(
        rule="base_q_idx of every coded frame (hidden ones included) read by an independent header parser: rc 1/2 x "
             "(min,max) pairs incl. min==max x 1/2-pass x contents driving RC to both rails -> within qindex(min..max); "
             "fixed qindex offsets -> qindex(qp)+offset of the frame's class, clipped, with the exact temporal layer "
             "checked inside complete mini-GOPs. non-trivial = RC or fixed-offset case fully checked")
