"""C21 - output depends only on the visible samples of each submitted picture."""
from .. import cfggen
from . import common, equiv

LEVEL = "exploration"


def configs(rng, tier):
    t = cfggen.tiny_case
    sizes = [(64, 64), (66, 66), (70, 94), (130, 74), (128, 96), (200, 120)]
    out = []
    n = 8 if tier == "quick" else 60
    for i in range(n):
        w, h = sizes[i % len(sizes)]
        out.append(t(rng, frames=rng.choice([5, 9, 12]), width=w, height=h, bitdepth=8 if i % 3 else 10,
                     content=rng.choice(["pan", "mix", "noise", "gradient", "rects", "extreme"]),
                     **{"cfg.enc_mode": rng.choice([8, 8, 7, 6]), "cfg.logical_processors": rng.choice([1, 4]),
                        "cfg.enable_overlays": rng.choice([0, 0, 1]) if False else 0,
                        "cfg.tf_level": rng.choice([-1, 0, 1])}))
    return out


def run(chk, tier, replay=None):
    rng = chk.rng
    groups = []
    for base in configs(rng, tier):
        b = dict(base, stride_extra=0, pad_fill=0, scribble=0, free_after=0)
        vs = [equiv.Variant("stride=w, zero pad, buffer kept", {})]
        extras = [1, 7, 16, 33, 64] if tier == "quick" else [1, 2, 3, 7, 8, 15, 16, 31, 32, 33, 63, 64]
        for e in (rng.sample(extras, 3) if tier == "quick" else extras):
            vs.append(equiv.Variant("stride=w+%d random pad" % e, {"stride_extra": e, "pad_fill": 2, "pad_seed": rng.randrange(1 << 20)}))
        vs.append(equiv.Variant("stride=w+64 0xFF pad", {"stride_extra": 64, "pad_fill": 1}))
        vs.append(equiv.Variant("scribble after send", {"scribble": 1}))
        vs.append(equiv.Variant("free after send", {"free_after": 1}))
        vs.append(equiv.Variant("stride+pad+scribble+free", {"stride_extra": 24, "pad_fill": 2, "scribble": 1, "free_after": 1}))
        groups.append((b, vs))
    key_of = lambda base, v, kind: "C21|%s|%s|%s" % (
        {"differs": "output-depends-on-invisible-bytes", "hang": "encode-hang", "crash": "encoder-crash"}[kind],
        v.label.split(" ")[0] if kind == "differs" else "", common.feature_sig(base))
    # use-after-return of the caller's memory is caught on the ASan flavour: freed + scribbled buffers
    ag = []
    for base in configs(rng, "quick")[:3 if tier == "quick" else 8]:
        b = dict(base, stride_extra=5, pad_fill=2, scribble=1, free_after=1)
        b["frames"] = min(int(b["frames"]), 6)
        ag.append((b, [equiv.Variant("asan free+scribble", {}, flavour="asan"),
                       equiv.Variant("asan stride+64", {"stride_extra": 64}, flavour="asan")]))
    equiv.run_groups(chk, "C21", groups, key_of, hang_in_scope=False)
    key_a = lambda base, v, kind: "C21|asan-run-%s|%s" % (kind, common.feature_sig(base))
    res = equiv.run_groups(chk, "C21", ag, lambda b, v, k: "C21|asan-%s|%s|%s" % (k, v.label, common.feature_sig(b)),
                           hang_in_scope=False, collect_san=False)
    for (gi, vi, case, v, r, sig, prefix, extra) in res:
        for k, ex in r.san:
            # only reports that involve the caller's picture memory are this property's business
            if "send_picture" in ex or "copy_frame_buffer" in ex or "copy_input_buffer" in ex or "un_pack2d" in ex or "encdrv" in ex:
                chk.violation("C21|%s" % k, ex, case)
            else:
                chk.bump("asan_reports_outside_scope")
    return chk.finish(
        rule="each (content,size,bit depth) encoded with variants that change only invisible things: stride +0..64, "
             "padding bytes, caller buffer overwritten / freed right after send_picture returns; hashes must equal the "
             "baseline; ASan runs catch retained caller pointers. non-trivial = group with >= 2 packets, all variants equal")
