"""C04 - encoding is deterministic under every thread interleaving (sampled) and always terminates."""
import hashlib
import os

from .. import cfggen, core, enc, trace
from . import common, equiv

LEVEL = "exploration"


def order_hash(path):
    """Hash of the order in which objects were posted to the pipeline's queues (who posted to which queue, in
    global order): two runs with different hashes were different interleavings of the pipeline threads."""
    try:
        recs = trace.read(path)
    except OSError:
        return None, 0
    idx = {}
    tids = {}
    h = hashlib.sha256()
    n = 0
    for (seq, tid, kind, a, b, c, d) in recs:
        if kind == 1:
            idx[a] = len(idx)
        elif kind == 6:
            t = tids.setdefault(tid, len(tids))
            h.update(b"%d:%d," % (idx.get(a, -1), t))
            n += 1
    return h.hexdigest()[:16], n


def configs(rng, tier):
    base = []
    t = cfggen.tiny_case
    base.append(t(rng, frames=17, width=128, height=96, content="pan", **{"cfg.logical_processors": 4}))
    base.append(t(rng, frames=20, width=192, height=128, content="mix", **{"cfg.logical_processors": 8, "cfg.tile_columns": 1,
                                                                       "cfg.tile_rows": 1}))
    base.append(t(rng, frames=33, content="rects", **{"cfg.logical_processors": 2, "cfg.enable_overlays": 1,
                                                      "cfg.hierarchical_levels": 3}))
    base.append(t(rng, frames=20, width=128, height=96, content="cuts", **{"cfg.logical_processors": 16,
                                                                        "cfg.look_ahead_distance": 17, "cfg.enable_tpl_la": 1}))
    base.append(t(rng, frames=16, width=128, height=96, content="zoom", passes=2, **{"cfg.logical_processors": 4}))
    base.append(t(rng, frames=12, width=176, height=144, content="mix", bitdepth=10, **{"cfg.logical_processors": 8, "cfg.enc_mode": 6}))
    base.append(t(rng, frames=24, width=128, height=96, content="cuts", **{"cfg.logical_processors": 4, "cfg.rate_control_mode": 1,
                                                                        "cfg.target_bit_rate": 200000}))
    base.append(t(rng, frames=10, width=320, height=180, content="pan", **{"cfg.logical_processors": 16, "cfg.enc_mode": 5}))
    # longer than the picture-control-set pools (objects are recycled) with TPL and a 4-layer hierarchy: state left on a
    # recycled object by its previous picture (ready flags, counters) only matters here
    base.append(t(rng, frames=100, width=176, height=144, content="pan", **{"cfg.logical_processors": 4, "cfg.hierarchical_levels": 3,
                                                                          "cfg.intra_period_length": -1, "cfg.qp": 30}))
    # all-intra (intra_period_length 0): every picture is an intra-only frame of its own mini-GOP
    base.append(t(rng, frames=4, content="gradient", **{"cfg.logical_processors": 8, "cfg.hierarchical_levels": 2,
                                                      "cfg.intra_period_length": 0, "cfg.intra_refresh_type": 1}))
    if tier != "quick":
        base.append(t(rng, frames=140, width=352, height=288, content="mix", **{"cfg.logical_processors": 4, "cfg.hierarchical_levels": 3,
                                                                              "cfg.intra_period_length": -1}))
        for _ in range(32):
            c = cfggen.gen_case(rng, quick=True, allow_slow=False)
            c["cfg.logical_processors"] = rng.choice([2, 4, 8, 16])
            base.append(c)
    return base


def run(chk, tier, replay=None):
    rng = chk.rng
    quick = tier == "quick"
    R = int((6 if quick else 24) * getattr(chk, "scale", 1))
    hashes = {}

    def per_result(case, v, res, prefix):
        tp = prefix + ".trace"
        if os.path.exists(tp):
            hh, n = order_hash(tp)
            os.unlink(tp)
            return hh, n
        return None

    groups = []
    for base in configs(rng, tier):
        vs = [equiv.Variant("unperturbed")]
        for r in range(R):
            seed = rng.randrange(1, 1 << 30)
            pm = rng.choice([10, 30, 100, 300])
            us = rng.choice([0, 50, 500, 2000])
            vs.append(equiv.Variant("sched %d:%d:%d" % (seed, pm, us), sched="%d:%d:%d" % (seed, pm, us)))
        groups.append((base, vs))
    def sig4(base):
        s_ = common.feature_sig(base)
        if int(base.get("frames", 0)) > 36:  # longer than the picture-control-set pool: objects are recycled
            s_ += "+recycled-pcs"
        if int(base.get("cfg.intra_period_length", -2)) == 0 and int(base.get("cfg.enable_tpl_la", 1)):
            s_ += "+allintra-tpl"  # every picture intra coded while TPL is on
        return s_
    key_of = lambda base, v, kind: "C04|%s|%s" % (
        {"differs": "nondeterministic-output", "hang": "encode-hang", "crash": "encoder-crash"}[kind],
        common.hang_sig(base) if kind == "hang" else sig4(base))
    def differs_key(base, v, ndiff, nvar):  # ndiff of nvar runs (reference included) deviate from the modal output
        k = key_of(base, v, "differs")
        # TPL on (the default) with more than one thread: 1-3 % of runs give a different stream (known finding). That
        # rare form is kept apart from a difference shown by most perturbed runs of a configuration.
        if int(base.get("cfg.enable_tpl_la", 1)) and int(base.get("cfg.logical_processors", 0)) != 1 and 2 * ndiff <= nvar:
            k += "+tpl-rare"
        return k
    results = equiv.run_groups(chk, "C04", groups, key_of, hang_in_scope=True, trace=True, per_result=per_result,
                               confirm_baseline=False, differs_key=differs_key)
    per_group = {}
    for (gi, vi, case, v, res, sig, prefix, extra) in results:
        if extra and extra[0]:
            per_group.setdefault(gi, set()).add(extra[0])
            chk.bump("handoff_events_observed", extra[1])
    chk.extra["distinct_interleavings_observed"] = sum(len(s) for s in per_group.values())
    chk.extra["distinct_interleavings_per_config"] = [len(per_group.get(g, ())) for g in range(len(groups))]

    # data races: the same configurations on the TSan build under perturbation (root-cause evidence)
    tgroups = []
    tcfg = configs(rng, "quick")[:3 if quick else 8]
    for base in tcfg:
        b = dict(base)
        b["frames"] = min(int(b["frames"]), 10)
        vs = [equiv.Variant("tsan sched %d" % s, sched="%d:100:200" % s, flavour="tsan") for s in
              [rng.randrange(1, 1 << 30) for _ in range(2 if quick else 6)]]
        tgroups.append((b, vs))
    key_t = key_of
    # The property is about outputs and termination; race reports are root-cause evidence, not verdicts (the
    # encoder has a long tail of racing pairs: see DESIGN.md), and the TSan runtime itself can stall while
    # reporting, so neither reports nor watchdogs of these runs decide anything.
    tres = equiv.run_groups(chk, "C04", tgroups, key_t, hang_in_scope=False, collect_san=False, confirm_baseline=False)
    for (gi, vi, case, v, res, sig, prefix, extra) in tres:
        for k, ex in res.san:
            chk.note_set("tsan_race_pairs_observed", k)
            chk.bump("tsan_reports")
    return chk.finish(
        rule="for each configuration: one reference run and R runs that differ only in thread schedule (seeded "
             "perturbation at every mutex/semaphore/condvar operation of the library, different probabilities and delays); "
             "packets+metadata+recon hashes must be identical; plus TSan-instrumented runs of the same configurations. "
             "non-trivial = configuration with >= 2 packets whose perturbed runs all completed; distinct interleavings are "
             "measured as distinct hashes of the global order of queue posts (H3 trace)")
