"""C07 - every SIMD kernel is a bit-exact drop-in for its C reference.

gen/kernels.py parses the dispatch tables of the current tree; harness/kdiff*.c (white-box link)
calls the C reference and every variant the host supports on identical arguments and compares
outputs, return values and untouched guard bytes.  The same harness runs on the asan flavour with
exact-size heap buffers (reduced case count) so that over-reads / over-writes are caught.
"""
import json
import os
import re
import subprocess
import sys

from .. import build, core, sanlog

LEVEL = "exploration"
HSRC = os.path.join(build.VERIF, "harness")


def harness_sources():
    return sorted(f for f in os.listdir(HSRC) if f.startswith("kdiff") and f.endswith(".c"))


def generate():
    """(Re)generate the kernel table from the current tree -> (inc path, summary dict)."""
    gd = build.gen_dir()
    inc = os.path.join(gd, "kdiff_table.inc")
    js = os.path.join(gd, "kdiff_table.json")
    tmp_inc, tmp_js = inc + ".%d.tmp" % os.getpid(), js + ".%d.tmp" % os.getpid()
    srcs = [os.path.join(HSRC, f) for f in harness_sources()]
    r = subprocess.run([sys.executable, os.path.join(build.VERIF, "gen", "kernels.py"), build.REPO, tmp_inc, tmp_js] + srcs,
                       stdout=subprocess.PIPE, stderr=subprocess.STDOUT, text=True)
    if r.returncode != 0:
        raise core.HarnessError("gen/kernels.py failed: " + r.stdout[-2000:])
    summary = json.load(open(tmp_js))
    for tmp, dst in ((tmp_inc, inc), (tmp_js, js)):
        new = open(tmp).read()
        if not os.path.exists(dst) or open(dst).read() != new:
            os.replace(tmp, dst)
        else:
            os.unlink(tmp)
    return inc, summary


def build_harness(flavour, inc):
    return build.harness(flavour, "kdiff", sources=harness_sources(), link="wb", libs=("enc",), deps=(inc,))


_kv = re.compile(r'(\w+)=("([^"]*)"|\S*)')


def parse_line(ln):
    d = {}
    for m in _kv.finditer(ln[2:]):
        d[m.group(1)] = m.group(3) if m.group(3) is not None else m.group(2)
    return d


def run_shard(exe, flavour, seed, n, shard, nshards, prefix, exact, timeout, isa=None):
    """Run one shard; a kernel that kills the process (signal, fatal sanitizer report) is recorded
    and the shard is resumed behind it.  Returns [(RunResult, log prefix)]."""
    out = []
    after = None
    for attempt in range(40):
        cmd = [exe, "--seed", str(seed), "--n", str(n), "--shard", "%d/%d" % (shard, nshards)]
        if exact:
            cmd.append("--exact")
        if after:
            cmd += ["--after", after]
        if isa:
            cmd += ["--isa", isa]
        pfx = "%s.%d" % (prefix, attempt)
        env = sanlog.env_for(flavour, pfx) if flavour == "asan" else None
        res = core.run(cmd, timeout=timeout, env=env)
        out.append((res, pfx))
        if res.timed_out or "\nZ done" in res.out:
            break
        last = None
        for ln in res.out.splitlines():
            if ln.startswith("B ptr="):
                last = ln[6:].strip()
        if not last or last == after:
            break
        after = last
    return out


def account(chk, tag, flavour, res, prefix, state):
    """Digest the output of one kdiff process."""
    done = False
    for ln in res.out.splitlines():
        if not ln or ln[1:2] != " ":
            continue
        t = ln[0]
        d = parse_line(ln)
        if t == "K":
            ent = state["kernels"].setdefault(d["ptr"], {"handler": d["handler"], "variants": {}})
            ncmp = 0
            for v in d.get("variants", "").split(","):
                if not v:
                    continue
                fn, isa, compared, nonconst, bad = v.split(":")
                compared, nonconst, bad = int(compared), int(nonconst), int(bad)
                vv = ent["variants"].setdefault(fn, {"isa": isa, "compared": 0, "nonconst": 0, "bad": 0})
                vv["compared"] += compared
                vv["nonconst"] += nonconst
                vv["bad"] += bad
                ncmp += compared
                if compared == 0:
                    state["not_on_host"].add(fn)
                if nonconst:
                    chk.nontrivial_case("%s/%s" % (d["ptr"], fn))
                chk.bump("comparisons_%s_%s" % (tag, isa), compared)
            chk.count(ncmp)
            chk.bump("cases_skipped_outside_domain", int(d.get("skipped", 0)))
        elif t == "U":
            state["uncovered"][d["ptr"]] = d.get("reason", "?")
        elif t == "M":
            key = "C07|%s|%s" % ("mismatch" if d["kind"] in ("mismatch", "retval") else d["kind"], d["fn"])
            if d.get("tag", "-") != "-":
                key += "|" + d["tag"]
            if key not in state["seen"]:
                state["seen"].add(key)
                case = {"kernel": d["ptr"], "variant": d["fn"], "seed": state["seed"], "case": int(d["case"]),
                        "exact": state["exact"].get(tag, False), "flavour": flavour, "args": d.get("args", ""),
                        "replay_cmd": "kdiff --seed %d --only %s --case %s --variant %s%s" % (
                            state["seed"], d["ptr"], d["case"], d["fn"], " --exact" if state["exact"].get(tag) else "")}
                chk.violation(key, "%s vs C reference, case %s (%s): %s; arguments: %s"
                              % (d["fn"], d["case"], tag, d.get("what", ""), d.get("args", "")), case, name=key)
        elif t == "A":
            state["asan_marks"].append(d)
        elif t == "X":
            key = "C07|crash|%s" % d["fn"]
            if key not in state["seen"]:
                state["seen"].add(key)
                case = {"kernel": d["ptr"], "variant": d["fn"], "seed": state["seed"], "case": int(d["case"]),
                        "exact": state["exact"].get(tag, False), "flavour": flavour, "args": d.get("args", "")}
                chk.violation(key, "fatal signal %s in %s (%s), case %s; arguments: %s"
                              % (d.get("sig"), d["fn"], tag, d["case"], d.get("args", "")), case, name=key)
        elif t == "E":
            state["errors"].append(ln[2:])
        elif t == "Z":
            done = True
    if not done and not res.timed_out:
        # died: our signal handler names the kernel (X line); otherwise take the last started one
        if not any(ln.startswith("X ") for ln in res.out.splitlines()):
            last = [ln[6:].strip() for ln in res.out.splitlines() if ln.startswith("B ptr=")]
            asan_fatal = flavour == "asan" and any(k.startswith("asan|") for k, _ in sanlog.collect(prefix))
            if last and not asan_fatal:
                key = "C07|crash|%s" % last[-1]
                if key not in state["seen"]:
                    state["seen"].add(key)
                    chk.violation(key, "kdiff (%s) died with rc=%s while comparing %s: %s"
                                  % (tag, res.rc, last[-1], (res.err or "")[-300:]),
                                  {"kernel": last[-1], "variant": "", "seed": state["seed"], "case": -1,
                                   "exact": state["exact"].get(tag, False), "flavour": flavour}, name=key)
            elif not last:
                state["errors"].append("kdiff (%s) ended with rc=%s without finishing: %s"
                                       % (tag, res.rc, (res.err or "")[-300:]))
    if res.timed_out:
        chk.inconclusive_case("kdiff shard watchdog fired (%s)" % tag, {"tail": res.out[-500:]})
    # sanitizer reports.  The harness prints an "A" line (kernel, variant, case, arguments) from
    # __asan_on_error for every ASan report, so reports are keyed by the kernel that was running;
    # the sanitizer log supplies the report text.  UBSan reports inside kernels are counted only
    # (they are C11's subject).
    if flavour == "asan":
        reports = sanlog.collect(prefix)
        asan_reports = [(k, ex) for k, ex in reports if k.startswith("asan|")]
        chk.bump("ubsan_reports_in_kernels_not_judged_here", sum(1 for k, _ in reports if k.startswith("ubsan|")))
        marks = [m for m in state["asan_marks"] if m.get("inkernel") == "1"]
        if asan_reports and not marks:
            state["errors"].append("ASan report outside a kernel call: %s" % asan_reports[0][0])
        for i, m in enumerate(marks):
            vkey = "C07|asan|%s" % m["fn"]
            if m.get("tag", "-") != "-":
                vkey += "|" + m["tag"]
            if vkey in state["seen"]:
                continue
            state["seen"].add(vkey)
            akey, excerpt = asan_reports[i] if i < len(asan_reports) else (asan_reports[-1] if asan_reports else ("asan|?", ""))
            case = {"kernel": m["ptr"], "variant": m["fn"], "seed": state["seed"], "case": int(m["case"]), "exact": True,
                    "flavour": "asan", "args": m.get("args", ""), "asan_key": akey}
            chk.violation(vkey, "ASan report (%s) while %s ran on exact-size buffers, case %s; arguments: %s\n%s"
                          % (akey, m["fn"], m["case"], m.get("args", ""), excerpt[:500]), case, name=vkey)


def run_replay(chk, replay):
    case = replay["case"]["case"]
    flavour = case.get("flavour", "plain")
    inc, summary = generate()
    exe = build_harness(flavour, inc)
    cmd = [exe, "--seed", str(case["seed"]), "--only", case["kernel"], "--case", str(case["case"]), "--variant", case["variant"]]
    if case.get("exact"):
        cmd.append("--exact")
    prefix = os.path.join(chk.dir, "replay")
    env = sanlog.env_for(flavour, prefix) if flavour == "asan" else None
    res = core.run(cmd, timeout=600, env=env)
    sys.stdout.write(res.out)
    state = {"kernels": {}, "uncovered": {}, "seen": set(), "asan_marks": [], "errors": [], "not_on_host": set(),
             "seed": case["seed"], "exact": {"replay": bool(case.get("exact"))}}
    account(chk, "replay", flavour, res, prefix, state)
    chk.nontrivial_case("replay-a")
    chk.nontrivial_case("replay-b")
    return chk.finish(rule="replay of one (kernel, variant, seed, case) comparison")


def run(chk, tier, replay=None):
    if replay:
        return run_replay(chk, replay)
    quick = tier == "quick"
    scale = getattr(chk, "scale", 1)
    n_plain = max(10, int((200 if quick else 20000) * scale))
    n_asan = max(5, int((30 if quick else 600) * scale))
    inc, summary = generate()
    flavours = [("plain", "plain", n_plain, False), ("asan", "asan-exact", n_asan, True)]
    if build.has_avx512():
        # the ENABLE_AVX512 build (also used by C06) carries the *_avx512 variants; compared in both tiers
        flavours.append(("avx512", "avx512", n_plain, False))
    else:
        chk.extra["avx512"] = "host CPU without AVX-512: *_avx512 variants not compared"
    state = {"kernels": {}, "uncovered": {}, "seen": set(), "asan_marks": [], "errors": [], "not_on_host": set(),
             "seed": chk.seed, "exact": {}}
    workers = max(2, min(6 if quick else 8, core.default_workers()))
    jobs = []
    for flavour, tag, n, exact in flavours:
        exe = build_harness(flavour, inc)
        state["exact"][tag] = exact
        nshards = workers * (3 if quick else 6)
        for s in range(nshards):
            jobs.append((flavour, tag, exe, n, exact, s, nshards))

    def one(job):
        flavour, tag, exe, n, exact, s, nshards = job
        prefix = os.path.join(chk.dir, "%s-%03d" % (tag, s))
        # generous watchdog: only marks "no progress"
        # the avx512 build is only there for the AVX-512 variants (everything else is covered by `plain`)
        return job, run_shard(exe, flavour, chk.seed, n, s, nshards, prefix, exact, timeout=3600 if quick else 6 * 3600,
                              isa="avx512" if flavour == "avx512" else None)

    for job, runs in core.pmap(one, jobs, workers=workers):
        for res, prefix in runs:
            state["asan_marks"] = []
            account(chk, job[1], job[0], res, prefix, state)

    # ---- evidence
    ents = summary["entries"]
    with_simd = [e for e in ents if e["variants"]]
    covered = sorted(p for p, kv in state["kernels"].items() if any(v["compared"] for v in kv["variants"].values()))
    uncovered = {}
    for e in with_simd:
        if e["ptr"] not in covered:
            uncovered[e["ptr"]] = state["uncovered"].get(
                e["ptr"], "no-c-reference" if not e["c"] else "no-handler" if not e["handler"] else "not-run")
    per_isa = {}
    pairs = set()
    for p, kv in state["kernels"].items():
        for fn, v in kv["variants"].items():
            if v["compared"]:
                per_isa[v["isa"]] = per_isa.get(v["isa"], 0) + 1
                pairs.add((p, fn))
    chk.extra["pointers_in_tables"] = summary["pointers"]
    chk.extra["pointers_with_simd_variant"] = len(with_simd)
    chk.extra["signature_classes"] = summary["signature_classes"]
    chk.extra["kernels_covered"] = len(covered)
    chk.extra["kernels_covered_pct"] = round(100.0 * len(covered) / max(1, len(with_simd)), 1)
    chk.extra["variant_pairs_compared"] = len(pairs)
    chk.extra["variants_compared_per_isa"] = per_isa
    chk.extra["cases_per_kernel"] = {"plain": n_plain, "asan-exact": n_asan}
    chk.extra["uncovered_count"] = len(uncovered)
    chk.extra["uncovered"] = {k: uncovered[k] for k in sorted(uncovered)}
    chk.extra["variants_not_runnable_on_host"] = sorted(state["not_on_host"])[:200]
    if state["errors"]:
        chk.extra["harness_errors"] = state["errors"][:20]
        for e in state["errors"][:5]:
            chk.inconclusive_case("harness error: " + e)
    for p in covered[:3]:
        chk.sample({"kernel": p, "variants": state["kernels"][p]["variants"]})
    chk.assumptions = ASSUMPTIONS
    return chk.finish(
        rule="for every dispatch pointer of common_dsp_rtcd.c / aom_dsp_rtcd.c with a SIMD variant and a domain-aware "
             "generator: N seeded argument tuples (fill patterns zero/max/min/alternating/checker/ramp/random/planted "
             "extremes x block sizes x strides x bit depth 8/10 x filter parameters); C reference and every variant the "
             "host supports run on identical copies; outputs, return values compared byte for byte, bytes outside the "
             "declared regions (guards, stride gaps) must stay untouched and carry different junk per run; "
             "distinct_nontrivial = (kernel, variant) pairs compared on at least one non-constant input",
        min_evaluations=1000)


ASSUMPTIONS = [
    "sample domains: 8-bit 0..255, 10-bit 0..1023 (the encoder supports 8/10 bit only); 12-bit is not exercised",
    "argument domains are those of the C reference's asserts, the unit tests under test/*.cc and the encoder's call "
    "sites (block / transform sizes of AV1, strides >= width, documented alignments); tuples outside them are not "
    "generated; each handler states its domain in a comment in harness/kdiff_*.c",
    "inputs that live in padded pictures or fixed-size scratch arrays in the encoder (reference pictures, SB buffers, "
    "intra edge arrays, CONV_BUF, wedge/obmc masks) are given that much readable padding (32..128 bytes, two extra rows "
    "for reference blocks) also in the exact-size ASan run; the padding content differs between the C run and the SIMD "
    "run, so results must not depend on it",
    "output regions a kernel leaves unspecified are excluded from the comparison: N2/N4 forward transforms outside the "
    "top-left quarter/sixteenth (buffer starts zeroed as in the unit test), intra edge filter/upsample scratch elements "
    "inside the edge array, TX_PAD_END bytes of txb_init_levels, self-guided filter columns between width and the next "
    "multiple of 8/16, flt planes of a zero radius, scratch buffers (tmpbuf, local_cache)",
    "transform types per size follow the AV1 ext-tx sets (64: DCT only, 32: DCT/IDTX, <=16: all); inverse-transform "
    "input = forward transform of a residual, re-quantised, zero beyond eob; flat residuals above half amplitude are "
    "not combined with ADST-type transforms (their inverse exceeds the 8+bd-bit intermediate range the AV1 spec "
    "requires, where the 16-bit SSSE3/AVX2 lowbd kernels saturate and differ from C by 1 LSB)",
    "convolve: x/y/2d/copy kernels are called with the sub-pel pattern that selects them; BILINEAR only for both "
    "directions; compound+BILINEAR (decoder-only) and subx!=suby blends (4:2:2) are separate tagged sub-domains",
    "quantised levels of txb_init_levels within +-32767; svt_av1_block_error / full_distortion_kernel32 inputs differ "
    "by at most ~one quantiser step (larger errors form the tagged sub-domain error-beyond-quant-step)",
    "svt_sad_loop_kernel cases in which every candidate SAD exceeds 65535 form the tagged sub-domain "
    "all-sads-above-65535 (16-bit saturating accumulators of the SIMD versions)",
    "float kernels (FFT): -0.0 and +0.0 are treated as equal",
    "kernels without generator are listed under `uncovered` (warp affine, temporal filter, k-means, wiener stats, "
    "pixel-proj error, scaled convolve8, cdef search_one_dual, upsampled_pred, svt_cdef_filter_block_8x8_16 which has "
    "no C reference)",
]
