"""C27 - output and progress do not depend on how the application paces its calls."""
from .. import cfggen
from . import common, equiv

LEVEL = "exploration"


def run(chk, tier, replay=None):
    rng = chk.rng
    quick = tier == "quick"
    t = cfggen.tiny_case
    bases = []
    for n in ([1, 17, 60, 120] if quick else [1, 2, 17, 33, 60, 120, 200]):
        for lp in ([1, 4] if not quick else [rng.choice([1, 4])]):
            for recon in ([1, 0] if not quick else [rng.choice([0, 1])]):
                bases.append(t(rng, frames=n, content=rng.choice(["pan", "rects", "cuts"]),
                               **{"cfg.logical_processors": lp, "cfg.recon_enabled": recon,
                                  "cfg.hierarchical_levels": rng.choice([2, 3, 4])}))
    if quick:
        bases.append(t(rng, frames=40, width=128, height=96, content="mix", **{"cfg.logical_processors": 4,
                                                                            "cfg.enable_overlays": 0, "cfg.look_ahead_distance": 17}))
    # recon and output pools hold ~20 buffers: patterns that leave 25..50 pictures uncollected and then drain
    deep = t(rng, frames=56, content="rects", **{"cfg.logical_processors": 4, "cfg.recon_enabled": 1, "cfg.hierarchical_levels": 3})
    deep["_deep"] = 1
    bases.append(deep)
    groups = []
    for base in bases:
        vs = [equiv.Variant("drain after every send", {"pattern": "drain_each"})]
        vs.append(equiv.Variant("drain every 3 sends", {"pattern": "every_k", "every_k": 3}))
        vs.append(equiv.Variant("drain every 16 sends", {"pattern": "every_k", "every_k": 16}))
        vs.append(equiv.Variant("drain only after EOS", {"pattern": "end_only"}))
        vs.append(equiv.Variant("random polling 50%", {"pattern": "random", "poll_pct": 50, "poll_seed": rng.randrange(1 << 20)}))
        vs.append(equiv.Variant("random polling + sleeps", {"pattern": "random", "poll_pct": 70, "sleep_us": 3000,
                                                            "poll_seed": rng.randrange(1 << 20)}))
        vs.append(equiv.Variant("drain each + sleeps", {"pattern": "drain_each", "sleep_us": 2000}))
        if base.get("_deep"):
            for k in (24, 40, 46):
                vs.append(equiv.Variant("drain every %d sends" % k, {"pattern": "every_k", "every_k": k}))
            vs.append(equiv.Variant("random polling 4%", {"pattern": "random", "poll_pct": 4, "poll_seed": rng.randrange(1 << 20)}))
            # a slow sender lets the pipeline finish pictures while nothing is collected
            vs.append(equiv.Variant("drain every 40 sends, slow sender", {"pattern": "every_k", "every_k": 40, "sleep_us": 80000}))
            vs.append(equiv.Variant("drain every 46 sends, slow sender", {"pattern": "every_k", "every_k": 46, "sleep_us": 50000}))
        if not quick:
            for k in (2, 5, 8, 31):
                vs.append(equiv.Variant("drain every %d sends" % k, {"pattern": "every_k", "every_k": k}))
            vs.append(equiv.Variant("random polling 10%", {"pattern": "random", "poll_pct": 10, "poll_seed": rng.randrange(1 << 20)}))
        groups.append((base, vs))
    key_of = lambda base, v, kind: "C27|%s|%s" % (
        {"differs": "output-depends-on-pacing", "hang": "always-draining-app-stalls", "crash": "encoder-crash"}[kind],
        common.hang_sig(base) if kind == "hang" else common.feature_sig(base))
    # the property promises completion only for the application that drains after each submission
    equiv.run_groups(chk, "C27", groups, key_of, completion_required=lambda v: v.label.startswith("drain after every send")
                     or v.label.startswith("drain each"))
    return chk.finish(
        rule="one (config,input) driven with call patterns built from the allowed moves (fetch everything available or "
             "nothing; drain after EOS): every send / every k / only at the end / random, with and without sleeps; the "
             "always-draining pattern must complete, every pattern that completes must give identical packets and recon. "
             "non-trivial = stream with >= 2 packets where all completed patterns matched")
