"""C26 - reported per-frame distortion statistics are exact."""
import os

from .. import cfggen, core, enc
from . import common

LEVEL = "exploration"


def plane_sse(a, b, n):
    # a, b: bytes of n 8-bit samples
    s = 0
    for x, y in zip(a, b):
        d = x - y
        s += d * d
    return s


def sse_planes(inp, dec, w, h):
    cw, ch = (w + 1) // 2, (h + 1) // 2
    o1 = w * h
    o2 = o1 + cw * ch
    return (plane_sse(inp[:o1], dec[:o1], o1), plane_sse(inp[o1:o2], dec[o1:o2], cw * ch),
            plane_sse(inp[o2:o2 + cw * ch], dec[o2:o2 + cw * ch], cw * ch))


def judge(case, res, prefix):
    out = []
    info = {"packets_checked": 0, "nonzero_sse_packets": 0}
    sig = common.feature_sig(case) + ("+tf%s" % case.get("cfg.tf_level", "d")) + ("" if int(case.get("cfg.recon_enabled", 0)) else "+norecon")
    st_a, ia = enc.ref_decode(prefix + ".ivf", "aom", prefix + ".aom")
    st_d, idv = enc.ref_decode(prefix + ".ivf", "dav1d", prefix + ".dav1d")
    if st_a != "ok" or st_d != "ok":
        return [(None, "reference decode not available (%s/%s)" % (st_a, st_d))], info
    aom = core.read_frames(prefix + ".aom")
    dav = core.read_frames(prefix + ".dav1d")
    inp = core.read_frames(prefix + ".input")
    n = int(case["frames"])
    if len(aom) != n or len(inp) != n or len(res.pkts) != n:
        return [(None, "counts differ: decoded %d input %d packets %d (C03's subject)" % (len(aom), len(inp), len(res.pkts)))], info
    for k in range(n):
        if aom[k][4] != dav[k][4]:
            return [(None, "reference decoders disagree at picture %d" % k)], info
        w, h = aom[k][1], aom[k][2]
        y, cb, cr = sse_planes(inp[k][4], aom[k][4], w, h)
        p = res.pkts[k]
        info["packets_checked"] += 1
        if y or cb or cr:
            info["nonzero_sse_packets"] += 1
        want = (y & 0xFFFFFFFF, cb & 0xFFFFFFFF, cr & 0xFFFFFFFF)
        got = (p["luma_sse"], p["cb_sse"], p["cr_sse"])
        if got != want:
            kind = "show-existing" if p["flags"] & 2 else ("nonref" if p["pic_type"] == 4 else "ref")
            planes = [nm for nm, a, b in zip(("luma", "cb", "cr"), got, want) if a != b]
            out.append(("C26|sse-mismatch|%s|%s|%s" % (kind, "+".join(planes), sig),
                        "packet %d (display position %d, pic_type %d, flags 0x%x): reported luma/cb/cr SSE %s, sum of squared "
                        "differences between submitted and decoded picture %s" % (k, k, p["pic_type"], p["flags"], got, want)))
            break
    return out, info


def gen_cases(rng, tier, scale):
    quick = tier == "quick"
    # width and height remainders modulo 8 differ in several sizes: right and bottom padding are handled by twin code paths
    sizes = [(64, 64), (66, 66), (70, 94), (128, 96), (130, 74), (176, 144), (76, 80), (80, 76), (68, 90), (132, 70), (100, 64), (64, 100)]
    cases = []
    for i in range(int((30 if quick else 400) * scale)):
        w, h = rng.choice(sizes)
        c = cfggen.tiny_case(rng, frames=rng.choice([5, 9, 17, 20]), width=w, height=h,
                             content=rng.choice(["pan", "mix", "noise", "rects", "cuts", "gradient", "zoom", "screen"]),
                             **{"cfg.stat_report": 1, "cfg.enc_mode": rng.choice([8, 8, 7, 6, 5, 4] if i % 5 else [2, 0]),
                                "cfg.tf_level": rng.choice([-1, 0, 1, 2]), "cfg.enable_overlays": rng.choice([0, 0, 0, 1]),
                                "cfg.hierarchical_levels": rng.choice([0, 2, 3, 4]), "cfg.qp": rng.choice([10, 30, 50, 63]),
                                "cfg.logical_processors": 4 if w <= 64 else rng.choice([1, 4]), "cfg.recon_enabled": rng.choice([0, 1]),
                                "cfg.intra_period_length": rng.choice([-1, 7, 8])})
        if int(c["cfg.enc_mode"]) <= 2:
            c["frames"] = 5
        c["dump_input"] = 1
        cases.append(c)
    return cases


def run(chk, tier, replay=None):
    cases = [replay["case"]["case"]] if replay else gen_cases(chk.rng, tier, getattr(chk, "scale", 1))

    def one(ic):
        i, case = ic
        prefix = os.path.join(chk.dir, "c%04d" % i)
        if common.known_hang_region(case):
            return case, [("skip", "")], {}
        res = enc.run_case("plain", case, prefix)
        if res.timed_out or enc.crashed(res) or res.res is None or res.res.get("api_error"):
            kind = "rejected-config" if (res.res and res.res.get("api_error") == 2) else None
            return case, [(kind, "encode did not complete (timeout=%s rc=%s %s): judged by C11/C04, not here"
                           % (res.timed_out, res.rc, (res.res or {}).get("errmsg")))], {}
        v, info = judge(case, res, prefix)
        if not v:
            enc.cleanup(prefix)
        return case, v, info

    for case, v, info in core.pmap(one, list(enumerate(cases))):
        if v and v[0][0] == "skip":
            continue
        chk.count()
        if v and v[0][0] == "rejected-config":
            chk.bump("rejected_config_draws")
            continue
        for k in info:
            chk.bump(k, info[k])
        if not v and info.get("nonzero_sse_packets", 0) >= 1:
            chk.nontrivial_case(core.sha(cfggen.case_ident(case)))
            chk.sample({k: case[k] for k in sorted(case) if k != "out"}, limit=4)
        for key, why in v:
            if key is None:
                chk.inconclusive_case(why, case)
            else:
                chk.violation(key, why, case)
    return chk.finish(
        rule="stat_report=1, 8-bit: for each packet k, reported luma/cb/cr SSE == sum of squared differences (mod 2^32) between "
             "the submitted picture k and libaom's decoded picture k (dav1d must agree), over sizes incl. non multiples of 8, "
             "presets, temporal filtering levels, overlays, reference/non-reference/show-existing packets. non-trivial = "
             "stream with at least one non-zero SSE fully matched")
