"""C14 - API calls in any order return error codes instead of crashing or blocking."""
import os

from .. import build, cfggen, core, enc, sanlog

LEVEL = "exploration"
OKRC = 0

ENC_PREFIX = {  # protocol state -> legal op prefix reaching it
    "S0": [],
    "S1": ["ih"],
    "S2": ["ih", "sp"],
    "S3": ["ih", "sp", "in"],
    "S4": ["ih", "sp", "in", "pp", "pp", "gn"],
    "S5": ["ih", "sp", "in", "pp", "pp", "pp", "eo", "gb"],
}
ENC_SUFFIX = {"S0": [], "S1": ["dh"], "S2": ["dh"], "S3": ["di", "dh"], "S4": ["di", "dh"], "S5": ["di", "dh"]}
# probe -> (description, states in which it is meaningful, needs_error_code)
ENC_PROBES = {
    "n01": ("svt_av1_enc_init_handle(NULL, ..)", ["S0", "S3"], True),
    "n02": ("svt_av1_enc_init_handle(&h, .., NULL config)", ["S0"], True),
    "n03": ("svt_av1_enc_set_parameter(NULL handle, cfg)", ["S0", "S1", "S3"], True),
    "n04": ("svt_av1_enc_set_parameter(h, NULL config)", ["S1", "S2"], True),
    "n05": ("svt_av1_enc_init(NULL)", ["S0", "S2"], True),
    "n06": ("svt_av1_enc_stream_header(NULL, &p)", ["S0", "S3"], True),
    "n07": ("svt_av1_enc_stream_header(h, NULL)", ["S3"], True),
    "n08": ("svt_av1_enc_send_picture(NULL, buf)", ["S0", "S3", "S4"], True),
    "n09": ("svt_av1_enc_send_picture(h, NULL buffer)", ["S3", "S4"], True),
    "n10": ("svt_av1_enc_get_packet(NULL, &p, 0)", ["S0", "S4"], True),
    "n11": ("svt_av1_enc_get_packet(h, NULL, 0)", ["S3", "S4"], True),
    "n12": ("svt_av1_enc_release_out_buffer(NULL)", ["S0", "S4"], False),
    "n13": ("svt_av1_enc_release_out_buffer(&NULL)", ["S0", "S4"], False),
    "n14": ("svt_av1_get_recon(NULL, buf)", ["S0", "S4"], True),
    "n15": ("svt_av1_get_recon(h, NULL)", ["S3", "S4"], True),
    "n16": ("svt_av1_enc_get_stream_info(NULL, id, &info)", ["S0", "S5"], True),
    "n17": ("svt_av1_enc_get_stream_info(h, id, NULL)", ["S3", "S5"], True),
    "n18": ("svt_av1_enc_deinit(NULL)", ["S0", "S3"], True),
    "n19": ("svt_av1_enc_deinit_handle(NULL)", ["S0", "S1"], True),
    "n20": ("svt_av1_enc_stream_header_release(NULL)", ["S0", "S3"], True),
}
DEC_PREFIX = {"S0": [], "S1": ["ih"], "S2": ["ih", "sp"], "S3": ["ih", "sp", "in"], "S4": ["ih", "sp", "in", "fr", "gp", "fr", "gp"]}
DEC_SUFFIX = {"S0": [], "S1": ["dh"], "S2": ["dh"], "S3": ["di", "dh"], "S4": ["di", "dh"]}
DEC_PROBES = {
    "n01": ("svt_av1_dec_init_handle(NULL, ..)", ["S0", "S3"], True),
    "n02": ("svt_av1_dec_init_handle(&h, .., NULL config)", ["S0"], True),
    "n03": ("svt_av1_dec_set_parameter(NULL, cfg)", ["S0", "S1"], True),
    "n04": ("svt_av1_dec_set_parameter(h, NULL)", ["S1", "S2"], True),
    "n05": ("svt_av1_dec_init(NULL)", ["S0", "S2"], True),
    "n06": ("svt_av1_dec_frame(NULL, data, n)", ["S0", "S3"], True),
    "n07": ("svt_av1_dec_frame(h, NULL, 16)", ["S3", "S4"], True),
    "n08": ("svt_av1_dec_get_picture(NULL, ..)", ["S0", "S4"], True),
    "n09": ("svt_av1_dec_get_picture(h, NULL buffer, ..)", ["S3", "S4"], True),
    "n10": ("svt_av1_dec_deinit(NULL)", ["S0", "S3"], True),
    "n11": ("svt_av1_dec_deinit_handle(NULL)", ["S0", "S1"], True),
}


def parse(out):
    """-> list of (idx, op, rc or None if the call never returned), done flag"""
    begun = {}
    ended = {}
    infos = {}
    for ln in out.splitlines():
        p = ln.split()
        if not p:
            continue
        if p[0] == "B":
            begun[int(p[1])] = p[2]
        elif p[0] == "E":
            ended[int(p[1])] = int(p[3], 16)
        elif p[0] == "I":
            infos[int(p[1])] = int(p[3])
    seq = [(i, begun[i], ended.get(i)) for i in sorted(begun)]
    return seq, "DONE" in out, infos


def run(chk, tier, replay=None):
    rng = chk.rng
    quick = tier == "quick"
    flavour = "asan"
    exe = build.harness(flavour, "apiseq", libs=("enc", "dec"))
    # a tiny stream for the decoder states
    ivf = os.path.join(chk.dir, "seed")
    r = enc.run_case("plain", cfggen.tiny_case(rng, frames=4, **{"cfg.recon_enabled": 0, "cfg.logical_processors": 4,
                                                               "cfg.hierarchical_levels": 3, "cfg.intra_period_length": -1}), ivf)
    if not os.path.exists(ivf + ".ivf"):
        raise core.HarnessError("cannot produce the seed stream for the decoder sequences")
    jobs = []
    # (1) NULL-argument probes in every meaningful protocol state
    for side, PRE, SUF, PROBES in (("enc", ENC_PREFIX, ENC_SUFFIX, ENC_PROBES), ("dec", DEC_PREFIX, DEC_SUFFIX, DEC_PROBES)):
        for probe, (desc, states, need_err) in sorted(PROBES.items()):
            for st in states:
                jobs.append({"kind": "null", "side": side, "probe": probe, "desc": desc, "state": st, "need_err": need_err,
                             "ops": PRE[st] + [probe] + SUF[st], "judge_index": len(PRE[st])})
    # (2) a rejected configuration leaves the handle usable
    nretry = 12 if quick else 200
    for i in range(nretry):
        bads = ["sb%d" % rng.randrange(6) for _ in range(rng.choice([1, 1, 2, 3, 5]))]
        ops = ["ih"] + bads + ["sp", "in", "pp", "pp", "eo", "gb", "di", "dh"]
        if rng.random() < 0.3:
            ops = ["ih", "sp"] + bads + ["sp", "in", "pp", "pp", "eo", "gb", "di", "dh"]
        jobs.append({"kind": "retry", "side": "enc", "ops": ops, "bads": bads})
    # (3) legal sequences with varied lengths: no call other than the documented blocking wait blocks
    nlegal = 20 if quick else 400
    for i in range(nlegal):
        body = ["pp"]  # at least one picture: with none the blocking wait has nothing to deliver
        for _ in range(rng.randrange(0, 12)):
            body.append(rng.choice(["pp", "pp", "pp", "gn", "gr", "sh", "gi"]))
        rng.shuffle(body)
        ops = ["ih", "sp", "in"] + body + ["eo", "gb", "gr", "di", "dh"]
        jobs.append({"kind": "legal", "side": "enc", "ops": ops})
    # (3b) "submit everything, then collect": N pictures back to back without fetching a packet, then EOS, then drain
    for n in ([80, 240, 600] if quick else [80, 240, 600, 1000, 3000, 4900, 5100]):
        jobs.append({"kind": "legal", "side": "enc", "ops": ["ih", "sq", "in", "pm%d" % n, "eo", "gb", "di", "dh"], "burst": n})
    for i in range(6 if quick else 60):
        body = [rng.choice(["fr", "gp", "fr"]) for _ in range(rng.randrange(0, 8))]
        jobs.append({"kind": "legal", "side": "dec", "ops": ["ih", "sp", "in"] + body + ["di", "dh"]})
    if replay:
        jobs = [replay["case"]["case"]]

    def one(ij):
        i, job = ij
        prefix = os.path.join(chk.dir, "q%04d" % i)
        env = sanlog.env_for(flavour, prefix)
        to = 60 + int(job.get("burst", 0)) // 8  # the ASan build encodes a few hundred 64x64 pictures per second
        r = core.run([exe, job["side"], (ivf + ".ivf") if job["side"] == "dec" else "-"] + job["ops"], timeout=to, env=env)
        # a burst that stopped beyond the 5000-entry packet pool is the known back-pressure block: no second, longer run
        if r.timed_out and not (job.get("burst") and max([0] + list(parse(r.out)[2].values())) >= 4990):
            r2 = core.run([exe, job["side"], (ivf + ".ivf") if job["side"] == "dec" else "-"] + job["ops"], timeout=150 + 2 * to, env=env)
            if not r2.timed_out:
                r = r2
        seq, done, infos = parse(r.out)
        san = sanlog.collect(prefix)
        for f in os.listdir(chk.dir):
            if f.startswith("q%04d." % i):
                os.unlink(os.path.join(chk.dir, f))
        return job, r, seq, done, infos, san

    for job, r, seq, done, infos, san in core.pmap(one, list(enumerate(jobs)), workers=max(2, core.default_workers() // 2)):
        chk.count()
        ops = job["ops"]
        side = job["side"]
        pending = [(i, op) for (i, op, rc) in seq if rc is None]
        v = []
        if job["kind"] == "null":
            ji = job["judge_index"]
            reached = len(seq) > ji
            prefix_ok = all(rc == OKRC for (i, op, rc) in seq[:ji])
            if not reached or not prefix_ok:
                chk.inconclusive_case("prefix of %s did not reach state %s: %s" % (job["probe"], job["state"], seq[:ji + 1]), job)
                continue
            i, op, rc = seq[ji]
            if rc is None:
                if r.timed_out:
                    v.append(("C14|%s|blocks|%s" % (side, job["desc"]), "%s in state %s never returned" % (job["desc"], job["state"])))
                else:
                    k = san[0][0] if san else "rc%s" % r.rc
                    v.append(("C14|%s|crash|%s" % (side, job["desc"]), "%s in state %s killed the process (%s): %s"
                              % (job["desc"], job["state"], k, (san[0][1][:300] if san else r.err[-200:]))))
            elif job["need_err"] and rc == OKRC:
                v.append(("C14|%s|returns-success|%s" % (side, job["desc"]), "%s in state %s returned EB_ErrorNone"
                          % (job["desc"], job["state"])))
            else:
                # the probe returned an error code; whatever happens in the teardown suffix is judged by the
                # legal-sequence jobs, not attributed to this probe
                chk.nontrivial_case("%s|%s|%s" % (side, job["probe"], job["state"]))
        elif job["kind"] == "retry":
            # every set_parameter must return; the valid one must succeed; two pictures must come out
            d = {i: (op, rc) for (i, op, rc) in seq}
            bad = None
            for i, op in enumerate(ops):
                if i not in d:
                    break
                o, rc = d[i]
                if rc is None:
                    bad = ("C14|enc|blocks|set_parameter after rejected set_parameter" if o in ("sp",) or o.startswith("sb")
                           else "C14|enc|blocks|%s after a rejected configuration" % o,
                           "sequence %s: %s (call %d) never returned%s" % (" ".join(ops), o, i, "" if r.timed_out else " (process died rc=%s)" % r.rc))
                    break
                if o.startswith("sb") and rc == OKRC:
                    bad = ("C14|enc|invalid-config-accepted|%s" % o, "rejected-by-design configuration %s was accepted" % o)
                    break
                if o == "sp" and rc != OKRC:
                    bad = ("C14|enc|valid-config-rejected-after-rejection", "sequence %s: valid set_parameter returned 0x%x" % (" ".join(ops), rc))
                    break
                if o in ("in", "pp", "eo", "di", "dh") and rc != OKRC:
                    bad = ("C14|enc|handle-unusable-after-rejection|%s" % o, "sequence %s: %s returned 0x%x" % (" ".join(ops), o, rc))
                    break
            if bad is None and done:
                npk = sum(infos.values())
                if npk != 2:
                    bad = ("C14|enc|handle-unusable-after-rejection|packets", "sequence %s delivered %d packets, 2 expected" % (" ".join(ops), npk))
            if bad is None and not done:
                bad = ("C14|enc|crash|after rejected configuration", "sequence %s: process ended rc=%s without finishing" % (" ".join(ops), r.rc))
            if bad:
                v.append(bad)
            else:
                chk.nontrivial_case("retry|" + " ".join(ops))
        else:
            if pending:
                i, op = pending[0]
                if op.startswith("pm") and r.timed_out:
                    sent = infos.get(i, 0)
                    v.append(("C14|enc|blocks|send_picture while nothing is fetched|%s"
                              % ("more-than-5000-pending" if sent >= 4990 else "at-most-5000-pending"),
                              "sequence %s: svt_av1_enc_send_picture never returned after about %d pictures had been "
                              "submitted without a get_packet call in between" % (" ".join(ops), sent)))
                elif op != "gb":
                    if r.timed_out:
                        v.append(("C14|%s|blocks|%s in a legal sequence" % (side, op), "legal sequence %s: %s (call %d) never returned"
                                  % (" ".join(ops), op, i)))
                    else:
                        v.append(("C14|%s|crash|%s in a legal sequence|%s" % (side, op, san[0][0] if san else "rc%s" % r.rc),
                                  "legal sequence %s: process died in %s (rc=%s) %s" % (" ".join(ops), op, r.rc, san[0][1][:300] if san else "")))
                else:
                    # the documented blocking wait may block: not judged here (C03/C27 judge delivery of the EOS packet)
                    chk.bump("blocking_wait_did_not_return")
            elif not done:
                v.append(("C14|%s|crash|legal sequence|%s" % (side, san[0][0] if san else "rc%s" % r.rc),
                          "legal sequence %s: process died rc=%s" % (" ".join(ops), r.rc)))
            else:
                chk.nontrivial_case("legal|%s|%s" % (side, " ".join(ops)))
        chk.bump("api_calls_observed", len(seq))
        if not v:
            chk.sample({"kind": job["kind"], "side": side, "ops": ops, "returns": ["%s" % ("never" if rc is None else hex(rc)) for (_, _, rc) in seq]}, limit=5)
        for key, why in v:
            chk.violation(key, why, job)
    return chk.finish(
        rule="one process per call sequence on the ASan build, every call bracketed by begin/end markers: (1) each NULL-handle / "
             "NULL-buffer probe of the 20 encoder and 11 decoder entry points in every protocol state where it is meaningful "
             "must return an error code; (2) sequences with 1..5 rejected set_parameter calls followed by a valid one must "
             "configure, initialise and encode two pictures; (3) random legal sequences: no call other than the documented "
             "blocking packet wait may fail to return. non-trivial = sequence judged completely; distinct = op sequence")
