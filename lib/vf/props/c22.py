"""C22 - arbitrarily long streams stay correct across order-hint and queue wrap-around."""
import os

from .. import cfggen, core, enc
from . import common, c22_reldist
from .c03 import judge as judge_history

LEVEL = "exploration"


def run(chk, tier, replay=None):
    rng = chk.rng
    quick = tier == "quick"
    # (1) exhaustive evaluation of every order-hint distance helper (real code, white-box)
    c22_reldist.run_reldist(chk, tier)
    if "exhaustive" in chk.extra:  # the helper enumeration is exhaustive, the long-stream part is sampled
        chk.extra["reldist_exhaustive"] = chk.extra.pop("exhaustive")
    # (2) long streams: C01 oracle (decodable, recon == decode) + C03 oracle (count, order, pts, EOS)
    lengths = [300] if quick else [300, 2200, 4300]
    cases = []
    for n in lengths:
        shapes = [(0, -1), (3, -1), (4, 63), (2, 31)] if quick else [(0, -1), (3, -1), (4, 63), (5, -1), (2, 31), (4, -1), (3, 127)]
        if n > 2000:
            shapes = shapes[:3]
        for (hl, ip) in shapes:
            cases.append(cfggen.tiny_case(rng, frames=n, tag=1, content=rng.choice(["pan", "rects", "cuts"]),
                                          **{"cfg.hierarchical_levels": hl, "cfg.intra_period_length": ip,
                                             "cfg.logical_processors": 4, "cfg.enable_overlays": 1 if (hl == 3 and not quick) else 0,
                                             "cfg.intra_refresh_type": rng.choice([1, 2])}))
    if replay:
        cases = [replay["case"]["case"]]

    def one(ic):
        i, case = ic
        prefix = os.path.join(chk.dir, "L%03d" % i)
        res = enc.run_case("plain", case, prefix, timeout=max(600, int(case["frames"]) * 2))
        if res.timed_out and not (res.res and res.res.get("api_error") == 1):
            return case, [("C22|encode-hang|%s" % common.hang_sig(case), "long stream did not finish: %s" % common.log_tail(prefix))], 0
        v1 = common.judge_recon_vs_refdec(chk, "C22", case, res, prefix)
        out = []
        if v1["verdict"] == "violated":
            out.append((v1["key"], v1["why"]))
        elif v1["verdict"] == "inconclusive":
            out.append((None, v1["why"]))
        out += [(k.replace("C03|", "C22|") if k else k, w) for k, w in judge_history(case, res, prefix)
                if k != "tags"]
        if not out:
            enc.cleanup(prefix)
        return case, out, v1.get("frames", 0)

    for case, v, frames in core.pmap(one, list(enumerate(cases)), workers=max(2, core.default_workers() // 2)):
        chk.count()
        chk.bump("long_stream_frames_compared", frames)
        if not v:
            chk.nontrivial_case(core.sha(cfggen.case_ident(case)))
            chk.sample({k: case[k] for k in sorted(case) if k.startswith("cfg.") or k == "frames"}, limit=4)
        for key, why in v:
            if key is None:
                chk.inconclusive_case(why, case)
            elif key == "rejected-config":
                chk.bump("rejected_config_draws")
            else:
                chk.violation(key, why, case)
    chk.extra["stream_lengths"] = lengths
    return chk.finish(
        rule="(1) every order-hint distance helper of encoder, common and decoder code evaluated exhaustively over bits 1..8 x a x b "
             "against ((a-b+m) mod 2m)-m; (2) streams longer than the order-hint period (128) and, in the thorough tier, "
             "longer than the 2048-deep reorder queues, judged with the C01 oracle (libaom+dav1d decode == recon) and the C03 "
             "oracle (count, order, pts, EOS, tag order). non-trivial = helper fully enumerated or long stream fully judged")
