"""Encoder case helpers: run encdrv on a case dict, reference-decode, compare."""
import json
import os
import glob

from . import build, core, sanlog


class EncResult:
    pass


def tool(flavour, name, **kw):
    return build.harness(flavour, name, **kw)


def encdrv(flavour):
    return build.harness(flavour, "encdrv")


def refdec():
    return build.harness("plain", "refdec", link="none")


def write_case(path, case):
    with open(path, "w") as f:
        for k, v in case.items():
            if k.startswith("_"):
                continue
            f.write("%s=%s\n" % (k, v))


def case_timeout(case, flavour):
    w = int(case.get("width", 64))
    h = int(case.get("height", 64))
    n = max(1, int(case.get("frames", 8)))
    preset = int(case.get("cfg.enc_mode", 8))
    passes = int(case.get("passes", 1))
    sessions = int(case.get("sessions", 1))
    cost = (w * h / (64.0 * 64)) * n * (1 + (8 - min(8, max(0, preset))) * 1.5) * 0.02 * passes * sessions
    mult = {"plain": 1, "avx512": 1, "asan": 6, "tsan": 12, "fuzz": 6}.get(flavour, 1)
    return max(120.0, 30 * cost * mult)


def run_case(flavour, case, prefix, env=None, timeout=None, sched=None, trace=False, detect_leaks=False):
    """Run one encdrv case.  Returns EncResult with fields:
    rc, timed_out, res (dict or None), pkts (list), paths, san (list of (key, excerpt)), stderr, wall"""
    exe = encdrv(flavour)
    case = dict(case)
    case["out"] = prefix
    cpath = prefix + ".case"
    write_case(cpath, case)
    e = {"SVT_LOG": "1"}
    e.update(sanlog.env_for(flavour, prefix, detect_leaks=detect_leaks))
    if sched:
        e["SVT_VERIF_SCHED"] = sched
    if trace:
        e["SVT_VERIF_TRACE"] = prefix + ".trace"
        if os.path.exists(prefix + ".trace"):
            os.unlink(prefix + ".trace")
    if env:
        e.update(env)
    to = timeout or case_timeout(case, flavour)
    r = core.run([exe, cpath], timeout=to, env=e)
    res = EncResult()
    res.case = case
    res.flavour = flavour
    res.prefix = prefix
    res.rc = r.rc
    res.timed_out = r.timed_out
    res.stderr = r.err
    res.wall = r.wall
    res.res = None
    res.pkts = []
    rp = prefix + ".res"
    if os.path.exists(rp):
        try:
            res.res = json.loads(open(rp).read())
        except ValueError:
            res.res = None
    pp = prefix + ".pkts"
    if os.path.exists(pp):
        for ln in open(pp):
            ln = ln.strip()
            if ln:
                try:
                    res.pkts.append(json.loads(ln))
                except ValueError:
                    pass
    cp = prefix + ".cfg"
    res.cfg = None
    if os.path.exists(cp):
        try:
            res.cfg = json.loads(open(cp).read())
        except ValueError:
            pass
    res.san = sanlog.collect(prefix)
    if flavour != "plain" and not res.san and ("Sanitizer" in r.err or "runtime error" in r.err):
        res.san = sanlog.parse_stderr(flavour, r.err)
    return res


def crashed(res):
    """Process died from a signal or an abnormal exit that is not one of encdrv's own codes."""
    return (not res.timed_out) and res.rc not in (0, 2, 3)


def ref_decode(ivf, which, outframes, extra=()):
    """-> (status, info) status in {'ok','rejected','inconclusive'}"""
    r = core.run([refdec(), which, ivf, outframes] + list(extra), timeout=600)
    info = None
    for ln in r.out.splitlines():
        ln = ln.strip()
        if ln.startswith("{"):
            try:
                info = json.loads(ln)
            except ValueError:
                pass
    if r.timed_out or info is None:
        return "inconclusive", {"error": "refdec %s: no result (rc=%s, timeout=%s) %s" % (which, r.rc, r.timed_out, r.err[-300:])}
    if r.rc == 0 and info.get("ok") == 1:
        return "ok", info
    if r.rc == 1:
        return "rejected", info
    return "inconclusive", info


def cleanup(prefix, keep=()):
    for p in glob.glob(prefix + ".*"):
        if any(p.endswith(k) for k in keep):
            continue
        try:
            os.unlink(p)
        except OSError:
            pass


def read_ivf(path):
    """-> list of (pts, bytes)"""
    d = open(path, "rb").read()
    if d[:4] != b"DKIF":
        raise ValueError("not IVF")
    i = 32
    out = []
    while i + 12 <= len(d):
        sz = int.from_bytes(d[i:i + 4], "little")
        pts = int.from_bytes(d[i + 4:i + 12], "little", signed=True)
        out.append((pts, d[i + 12:i + 12 + sz]))
        i += 12 + sz
    return out


def write_ivf(path, w, h, packets):
    with open(path, "wb") as f:
        f.write(b"DKIF" + (0).to_bytes(2, "little") + (32).to_bytes(2, "little") + b"AV01" +
                int(w).to_bytes(2, "little") + int(h).to_bytes(2, "little") + (30).to_bytes(4, "little") +
                (1).to_bytes(4, "little") + len(packets).to_bytes(4, "little") + (0).to_bytes(4, "little"))
        for pts, data in packets:
            f.write(len(data).to_bytes(4, "little") + int(pts).to_bytes(8, "little", signed=True) + data)
