/* kdiff table TU: binds the generated kernel table (gen/kernels.py -> kdiff_table.inc in the gen
 * dir) to the handlers.  The generated file takes the address of every kernel through an asm
 * label, so no prototype of the kernels is needed here; the dispatch pointers' own declarations
 * (rtcd headers) are used to verify at compile time that each pointer still has the signature its
 * handler was written for. */
#include "aom_dsp_rtcd.h"
#include "kdiff.h"
#include "kdiff_sigs.h"
#include "kdiff_table.inc"
