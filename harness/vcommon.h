/* Shared helpers for the /verif harness programs. Header-only. */
#ifndef VCOMMON_H
#define VCOMMON_H
#include <stdint.h>
#include <stdio.h>
#include <stdlib.h>
#include <string.h>
#include <time.h>
#include <unistd.h>
#include <sys/syscall.h>
#include <sys/prctl.h>
#include <linux/capability.h>

/* ---------------------------------------------------------------- caps */
/* Drop CAP_SYS_NICE so that SCHED_FIFO requests fail with EPERM as for an ordinary user. */
static void v_drop_sys_nice(void) {
    struct __user_cap_header_struct hdr;
    struct __user_cap_data_struct   data[2];
    memset(&hdr, 0, sizeof(hdr));
    memset(data, 0, sizeof(data));
    hdr.version = _LINUX_CAPABILITY_VERSION_3;
    hdr.pid     = 0;
    if (syscall(SYS_capget, &hdr, data) != 0)
        return;
    prctl(PR_CAPBSET_DROP, CAP_SYS_NICE, 0, 0, 0);
    uint32_t bit = 1u << CAP_SYS_NICE;
    data[0].effective &= ~bit;
    data[0].permitted &= ~bit;
    data[0].inheritable &= ~bit;
    syscall(SYS_capset, &hdr, data);
}

/* ---------------------------------------------------------------- rng */
static inline uint64_t v_mix(uint64_t x) {
    x ^= x >> 33;
    x *= 0xff51afd7ed558ccdull;
    x ^= x >> 33;
    x *= 0xc4ceb9fe1a85ec53ull;
    x ^= x >> 33;
    return x;
}
typedef struct {
    uint64_t s;
} VRng;
static inline void     v_rng_seed(VRng *r, uint64_t seed) { r->s = v_mix(seed + 0x9E3779B97F4A7C15ull) | 1; }
static inline uint64_t v_rng_next(VRng *r) {
    r->s ^= r->s << 13;
    r->s ^= r->s >> 7;
    r->s ^= r->s << 17;
    return r->s * 0x2545F4914F6CDD1Dull;
}
static inline uint32_t v_rng_below(VRng *r, uint32_t n) { return n ? (uint32_t)((v_rng_next(r) >> 16) % n) : 0; }

static inline uint64_t v_now_us(void) {
    struct timespec ts;
    clock_gettime(CLOCK_MONOTONIC, &ts);
    return (uint64_t)ts.tv_sec * 1000000ull + (uint64_t)ts.tv_nsec / 1000;
}

/* ---------------------------------------------------------------- content */
/* Pictures are generated into three tight uint16 planes (values within the bit depth). */
typedef struct {
    int       w, h, cw, ch, bd;
    uint16_t *p[3];
} VPic;

static int v_pic_alloc(VPic *pic, int w, int h, int bd) {
    pic->w  = w;
    pic->h  = h;
    pic->cw = (w + 1) / 2;
    pic->ch = (h + 1) / 2;
    pic->bd = bd;
    pic->p[0] = (uint16_t *)malloc(sizeof(uint16_t) * (size_t)w * h);
    pic->p[1] = (uint16_t *)malloc(sizeof(uint16_t) * (size_t)pic->cw * pic->ch);
    pic->p[2] = (uint16_t *)malloc(sizeof(uint16_t) * (size_t)pic->cw * pic->ch);
    return pic->p[0] && pic->p[1] && pic->p[2] ? 0 : -1;
}
static void v_pic_free(VPic *pic) {
    for (int i = 0; i < 3; i++) {
        free(pic->p[i]);
        pic->p[i] = NULL;
    }
}

enum {
    VC_FLAT = 0,
    VC_EXTREME,
    VC_GRADIENT,
    VC_NOISE,
    VC_PAN,
    VC_RECTS,
    VC_SCREEN,
    VC_CUTS,
    VC_MIX,
    VC_ZOOM,
    VC_SPLITV, /* top half incompressible noise, bottom half flat: tiles of very different sizes */
    VC_SPLITH, /* left half noise, right half flat */
    VC_STILL, /* one noisy textured picture repeated unchanged (static scenes: parameters inherited from references) */
    VC_KINDS
};
static const char *const v_content_names[VC_KINDS] = {
    "flat", "extreme", "gradient", "noise", "pan", "rects", "screen", "cuts", "mix", "zoom", "splitv", "splith", "still"};

static int v_content_kind(const char *name) {
    for (int i = 0; i < VC_KINDS; i++)
        if (!strcmp(name, v_content_names[i]))
            return i;
    return -1;
}

static inline uint32_t v_tex(uint64_t seed, int x, int y) {
    /* smooth-ish value texture: bilinear blend of a hashed 8x8 lattice, 0..255 */
    int      gx = x >> 3, gy = y >> 3, fx = x & 7, fy = y & 7;
    uint32_t a = (uint32_t)(v_mix(seed ^ ((uint64_t)(uint32_t)gx << 32 | (uint32_t)gy)) & 255);
    uint32_t b = (uint32_t)(v_mix(seed ^ ((uint64_t)(uint32_t)(gx + 1) << 32 | (uint32_t)gy)) & 255);
    uint32_t c = (uint32_t)(v_mix(seed ^ ((uint64_t)(uint32_t)gx << 32 | (uint32_t)(gy + 1))) & 255);
    uint32_t d = (uint32_t)(v_mix(seed ^ ((uint64_t)(uint32_t)(gx + 1) << 32 | (uint32_t)(gy + 1))) & 255);
    uint32_t top = a * (8 - fx) + b * fx, bot = c * (8 - fx) + d * fx;
    return (top * (8 - fy) + bot * fy) >> 6;
}

static inline uint16_t v_scale(uint32_t v8, int bd) { /* 0..255 -> 0..max */
    uint32_t maxv = (1u << bd) - 1;
    uint32_t v    = bd > 8 ? (v8 << (bd - 8)) | (v8 >> (16 - bd)) : v8;
    return (uint16_t)(v > maxv ? maxv : v);
}

static uint32_t v_sample(int kind, uint64_t seed, int plane, int x, int y, int idx, int w, int h) {
    /* returns 0..255 (8-bit domain); x,y in luma coordinates */
    switch (kind) {
    case VC_FLAT: return plane == 0 ? 128 : (plane == 1 ? 110 : 140);
    case VC_EXTREME: {
        int m = (int)((seed + (uint64_t)idx) % 4);
        if (m == 0) return 0;
        if (m == 1) return 255;
        if (m == 2) return ((x >> 2) + (y >> 2)) & 1 ? 255 : 0;
        return ((x >> 4) & 1) ? 255 : 0;
    }
    case VC_GRADIENT: return (uint32_t)((x * 255 / (w > 1 ? w - 1 : 1) + y * 3 + idx * 2 + plane * 40) & 255);
    case VC_NOISE:
        return (uint32_t)(v_mix(seed ^ ((uint64_t)idx << 40) ^ ((uint64_t)plane << 36) ^ ((uint64_t)(uint32_t)y << 16) ^
                                (uint32_t)x) &
                          255);
    case VC_PAN: return v_tex(seed + (uint64_t)plane * 77, x + idx * 3, y + idx);
    case VC_ZOOM: {
        /* slow zoom + rotation-ish warp around the centre: exercises global/warped motion */
        int cx = x - w / 2, cy = y - h / 2;
        int sx = cx * (256 + idx * 4) / 256 + cy * idx / 64;
        int sy = cy * (256 + idx * 4) / 256 - cx * idx / 64;
        return v_tex(seed + (uint64_t)plane * 77, sx + 4096, sy + 4096);
    }
    case VC_RECTS: {
        uint32_t bg = (uint32_t)((x + y * 2 + plane * 50) & 255);
        for (int r = 0; r < 3; r++) {
            uint64_t hs = v_mix(seed + (uint64_t)r * 1315423911ull);
            int      rw = 12 + (int)(hs & 31), rh = 10 + (int)((hs >> 8) & 31);
            int      vx = (int)((hs >> 16) & 7) - 3, vy = (int)((hs >> 20) & 7) - 3;
            int      x0 = (int)((hs >> 24) % (uint32_t)(w > 8 ? w : 8)) + vx * idx;
            int      y0 = (int)((hs >> 40) % (uint32_t)(h > 8 ? h : 8)) + vy * idx;
            x0          = ((x0 % w) + w) % w;
            y0          = ((y0 % h) + h) % h;
            if (x >= x0 && x < x0 + rw && y >= y0 && y < y0 + rh)
                return (uint32_t)((hs >> 48) & 255) ^ (uint32_t)(plane * 60);
        }
        return bg;
    }
    case VC_SCREEN: {
        /* few colours, sharp edges, repeated glyph-like tiles; a cursor block moves with idx */
        static const uint8_t pal[3][6] = {{16, 235, 128, 60, 200, 90}, {128, 128, 90, 160, 110, 200}, {128, 128, 200, 100, 150, 60}};
        int      tx = x >> 3, ty = y >> 3;
        uint64_t g  = v_mix(seed ^ (uint64_t)((tx % 6) * 131 + (ty % 4) * 17));
        int      bit = (int)((g >> (((y & 7) * 8 + (x & 7)) & 63)) & 1);
        int      ci  = bit ? (int)((g >> 3) % 5) + 1 : 0;
        int      cxp = (idx * 5) % (w > 16 ? w - 16 : 1), cyp = (idx * 3) % (h > 16 ? h - 16 : 1);
        if (x >= cxp && x < cxp + 16 && y >= cyp && y < cyp + 16)
            ci = 4;
        return pal[plane][ci];
    }
    case VC_CUTS: {
        int scene = idx / 7;
        int sub   = (int)(v_mix(seed + (uint64_t)scene) % 4);
        static const int kinds[4] = {VC_PAN, VC_RECTS, VC_GRADIENT, VC_SCREEN};
        return v_sample(kinds[sub], seed + (uint64_t)scene * 7919, plane, x, y, idx, w, h);
    }
    case VC_STILL: {
        uint32_t t = v_tex(seed + (uint64_t)plane * 77, x, y);
        uint32_t n = (uint32_t)(v_mix(seed ^ ((uint64_t)plane << 36) ^ ((uint64_t)(uint32_t)y << 16) ^ (uint32_t)x) & 31);
        return (t * 7 / 8 + n) & 255;
    }
    case VC_SPLITV: return y < h / 2 ? v_sample(VC_NOISE, seed, plane, x, y, idx, w, h) : 128;
    case VC_SPLITH: return x < w / 2 ? v_sample(VC_NOISE, seed, plane, x, y, idx, w, h) : 128;
    case VC_MIX:
    default: {
        if (x < w / 2 && y < h / 2) return v_sample(VC_PAN, seed, plane, x, y, idx, w, h);
        if (x >= w / 2 && y < h / 2) return v_sample(VC_NOISE, seed, plane, x, y, idx, w, h);
        if (x < w / 2) return v_sample(VC_SCREEN, seed, plane, x, y, idx, w, h);
        return v_sample(VC_RECTS, seed, plane, x, y, idx, w, h);
    }
    }
}

/* tag: two 16x16 luma patches at (0,0) and (16,0), each one of 8 levels -> idx mod 64 */
#define V_TAG_LEVELS 8
static inline uint32_t v_tag_level8(int digit) { return (uint32_t)(20 + digit * 30); }

static void v_gen_picture(VPic *pic, int kind, uint64_t seed, int idx, int tag) {
    const int w = pic->w, h = pic->h, bd = pic->bd;
    for (int y = 0; y < h; y++)
        for (int x = 0; x < w; x++) pic->p[0][(size_t)y * w + x] = v_scale(v_sample(kind, seed, 0, x, y, idx, w, h), bd);
    for (int pl = 1; pl < 3; pl++)
        for (int y = 0; y < pic->ch; y++)
            for (int x = 0; x < pic->cw; x++)
                pic->p[pl][(size_t)y * pic->cw + x] = v_scale(v_sample(kind, seed, pl, x * 2, y * 2, idx, w, h), bd);
    if (tag && w >= 32 && h >= 16) {
        int d0 = idx % V_TAG_LEVELS, d1 = (idx / V_TAG_LEVELS) % V_TAG_LEVELS;
        for (int y = 0; y < 16; y++)
            for (int x = 0; x < 32; x++)
                pic->p[0][(size_t)y * w + x] = v_scale(v_tag_level8(x < 16 ? d0 : d1), bd);
        for (int pl = 1; pl < 3; pl++)
            for (int y = 0; y < 8; y++)
                for (int x = 0; x < 16; x++) pic->p[pl][(size_t)y * pic->cw + x] = v_scale(128, bd);
    }
}

/* ---------------------------------------------------------------- frames file
 * "VFRM" records: header line `FRAME <key> <w> <h> <bd> <nbytes>\n` followed by nbytes of
 * tightly packed planes Y,U,V (1 byte/sample when bd==8, else 2 bytes LE). */
static void v_write_frame_hdr(FILE *f, long long key, int w, int h, int bd, size_t nbytes) {
    fprintf(f, "FRAME %lld %d %d %d %zu\n", key, w, h, bd, nbytes);
}

/* ---------------------------------------------------------------- case file (key=value) */
typedef struct {
    char *key;
    char *val;
} VKv;
typedef struct {
    VKv *kv;
    int  n;
} VCase;

static int v_case_load(VCase *c, const char *path) {
    FILE *f = fopen(path, "r");
    if (!f)
        return -1;
    c->kv = NULL;
    c->n  = 0;
    char *line = NULL;
    size_t cap = 0;
    ssize_t len;
    while ((len = getline(&line, &cap, f)) > 0) {
        while (len > 0 && (line[len - 1] == '\n' || line[len - 1] == '\r')) line[--len] = 0;
        if (!len || line[0] == '#')
            continue;
        char *eq = strchr(line, '=');
        if (!eq)
            continue;
        *eq   = 0;
        c->kv = (VKv *)realloc(c->kv, sizeof(VKv) * (size_t)(c->n + 1));
        c->kv[c->n].key = strdup(line);
        c->kv[c->n].val = strdup(eq + 1);
        c->n++;
    }
    free(line);
    fclose(f);
    return 0;
}
static const char *v_case_get(const VCase *c, const char *key, const char *dflt) {
    for (int i = c->n - 1; i >= 0; i--)
        if (!strcmp(c->kv[i].key, key))
            return c->kv[i].val;
    return dflt;
}
static long long v_case_int(const VCase *c, const char *key, long long dflt) {
    const char *v = v_case_get(c, key, NULL);
    return v ? strtoll(v, NULL, 0) : dflt;
}

#endif
