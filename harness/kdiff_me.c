/* kdiff handlers: motion-estimation SAD kernels (search loops and the 8x8..64x64 SAD pyramids).
 *
 * Domains (EbMotionEstimation.c, test/SadTest.cc): 8-bit samples; src = SB buffer (64-byte rows) or
 * its 1/4, 1/16 versions, optionally with doubled stride (row sub-sampling); ref = padded
 * reference picture; best-SAD arrays start at values <= MAX_SAD_VALUE (128*128*255; the SIMD
 * kernels use signed 32-bit compares); mv = (y << 16) | (x & 0xffff) in quarter-pel units. */
#include "kdiff.h"
#include "kdiff_sigs.h"

#define KD_MAX_SAD (128 * 128 * 255)

static uint8_t *mepic(KdCtx *k, int w, int h, int *stride, int minstride) {
    *stride = kstride(k, w < minstride ? minstride : w, 1);
    kpad(k, 64, 128);
    uint8_t *p = (uint8_t *)kb2(k, w, h, *stride, 1, 64, kr_range(k, 0, 3) ? kr_range(k, 0, 31) : 0, 0);
    kfill2(k, p, w, h, *stride, 1, 0, 255);
    return p;
}

/* svt_sad_loop_kernel: full search over search_area_width x search_area_height positions; result =
 * first best position in raster order */
KDH(sad_loop) {
    static const int bw_l[] = {4, 8, 16, 24, 32, 48, 64}, bh_l[] = {4, 8, 16, 32, 64, 2, 12, 24};
    int              bw = KR_PICK(k, bw_l), bh = KR_PICK(k, bh_l);
    int              saw = kr_range(k, 0, 3) ? kr_range(k, 1, 24) : kr_range(k, 1, 70), sah = kr_range(k, 1, 9);
    int              sub = bh >= 4 && kr_bool(k); /* half the rows, doubled strides */
    int              ss, rs;
    uint8_t         *src = mepic(k, bw, bh, &ss, 0);
    int              rw = bw + saw - 1, rh = bh + sah - 1;
    uint8_t         *ref = mepic(k, rw, rh, &rs, 0);
    /* near-duplicates of the source inside the reference make ties and small minima likely */
    if (kr_bool(k)) {
        int px = kr_range(k, 0, saw - 1), py = kr_range(k, 0, sah - 1);
        for (int y = 0; y < bh; y++)
            for (int x = 0; x < bw; x++) ref[(py + y) * rs + px + x] = src[y * ss + x];
        if (kr_bool(k) && px + 1 < saw)
            for (int y = 0; y < bh; y++)
                for (int x = 0; x < bw; x++) ref[(py + y) * rs + px + 1 + x] = src[y * ss + x];
    }
    /* The SSE4.1/AVX2 loops accumulate in saturating 16-bit lanes (mpsadbw + adds_epu16) and only
     * some shapes widen in time, so when every candidate's SAD exceeds 65535 (e.g. a 24x64 edge SB
     * with no usable match) they may return another position / a clipped SAD than C.  Such cases
     * are a sub-domain of their own (tag), so that this limitation cannot hide other mismatches. */
    {
        uint32_t mn = 0xffffffffu;
        for (int sy = 0; sy < sah && mn > 65535; sy++)
            for (int sx = 0; sx < saw && mn > 65535; sx++) {
                uint32_t sad = 0;
                for (int y = 0; y < bh; y += sub ? 2 : 1)
                    for (int x = 0; x < bw; x++) {
                        int d = src[y * ss + x] - ref[(sy + y) * rs + sx + x];
                        sad += (uint32_t)(d < 0 ? -d : d);
                    }
                if (sad < mn) mn = sad;
            }
        if (mn > 65535) ktag(k, "all-sads-above-65535");
    }
    uint64_t *best = (uint64_t *)kb(k, 1, 8, 8);
    int16_t  *xc = (int16_t *)kb(k, 1, 2, 2), *yc = (int16_t *)kb(k, 1, 2, 2);
    ka(k, "block_width", bw), ka(k, "block_height", bh), ka(k, "search_area_width", saw), ka(k, "search_area_height", sah), ka(k, "sub", sub),
        ka(k, "src_stride", ss), ka(k, "ref_stride", rs);
    kcall(k);
    if (sub) KFN(k, sad_loop)(src, (uint32_t)ss * 2, ref, (uint32_t)rs * 2, (uint32_t)bh / 2, (uint32_t)bw, best, xc, yc, (uint32_t)rs, (int16_t)saw, (int16_t)sah);
    else KFN(k, sad_loop)(src, (uint32_t)ss, ref, (uint32_t)rs, (uint32_t)bh, (uint32_t)bw, best, xc, yc, (uint32_t)rs, (int16_t)saw, (int16_t)sah);
}

static uint32_t *best_arr(KdCtx *k, int n, uint32_t hi) {
    uint32_t *a = (uint32_t *)kb(k, (size_t)n, 4, 32);
    kfill(k, a, (size_t)n, 4, 0, hi);
    return a;
}
static uint32_t *mv_arr(KdCtx *k, int n) {
    uint32_t *a = (uint32_t *)kb(k, (size_t)n, 4, 32);
    for (int i = 0; i < n; i++) a[i] = kr(k);
    return a;
}
static uint32_t pick_mv(KdCtx *k) {
    int x = 4 * kr_range(k, -2048, 2047), y = 4 * kr_range(k, -2048, 2047);
    return ((uint32_t)(uint16_t)y << 16) | (uint16_t)x;
}

/* one 16x16 block: four 8x8 SADs + their sum, against running bests */
KDH(ext_sad_8x8_16x16) {
    int      ss, rs, sub = kr_bool(k);
    uint8_t *src = mepic(k, 16, 16, &ss, 64), *ref = mepic(k, 16, 16, &rs, 64);
    if (kr_range(k, 0, 3) == 0)
        for (int y = 0; y < 16; y++)
            for (int x = 0; x < 16; x++) ref[y * rs + x] = (uint8_t)(src[y * ss + x] + kr_range(k, -2, 2));
    uint32_t *b8 = best_arr(k, 4, 64 * 255), *b16 = best_arr(k, 1, 256 * 255), *m8 = mv_arr(k, 4), *m16 = mv_arr(k, 1);
    uint32_t *s16 = (uint32_t *)kb(k, 1, 4, 4), *s8 = (uint32_t *)kb(k, 4, 4, 16);
    uint32_t  mv = pick_mv(k);
    ka(k, "src_stride", ss), ka(k, "ref_stride", rs), ka(k, "mv", mv), ka(k, "sub_sad", sub);
    kcall(k);
    KFN(k, ext_sad_8x8_16x16)(src, (uint32_t)ss, ref, (uint32_t)rs, b8, b16, m8, m16, mv, s16, s8, (EbBool)sub);
}
KDH(ext_sad_32x32_64x64) {
    uint32_t *s16 = best_arr(k, 16, 256 * 255);
    uint32_t *b32 = best_arr(k, 4, 1024 * 255), *b64 = best_arr(k, 1, 4096 * 255), *m32 = mv_arr(k, 4), *m64 = mv_arr(k, 1);
    uint32_t *s32 = (uint32_t *)kb(k, 4, 4, 16);
    uint32_t  mv = pick_mv(k);
    ka(k, "mv", mv);
    kcall(k);
    KFN(k, ext_sad_32x32_64x64)(s16, b32, b64, m32, m64, mv, s32);
}
/* whole 64x64 SB against 8 horizontally adjacent reference positions */
KDH(ext_all_sad) {
    int      ss, rs, sub = kr_bool(k);
    uint8_t *src = mepic(k, 64, 64, &ss, 64), *ref = mepic(k, 64 + 7, 64, &rs, 71);
    if (kr_range(k, 0, 3) == 0) {
        int dx = kr_range(k, 0, 7);
        for (int y = 0; y < 64; y++)
            for (int x = 0; x < 64; x++) ref[y * rs + x + dx] = (uint8_t)(src[y * ss + x] ^ (kr_range(k, 0, 15) == 0));
    }
    uint32_t *b8 = best_arr(k, 64, 64 * 255), *b16 = best_arr(k, 16, 256 * 255), *m8 = mv_arr(k, 64), *m16 = mv_arr(k, 16);
    uint32_t(*e16)[8] = (uint32_t(*)[8])kb(k, 16 * 8, 4, 32);
    uint32_t(*e8)[8]  = (uint32_t(*)[8])kb(k, 64 * 8, 4, 32);
    uint32_t mv       = pick_mv(k);
    ka(k, "src_stride", ss), ka(k, "ref_stride", rs), ka(k, "mv", mv), ka(k, "sub_sad", sub);
    kcall(k);
    KFN(k, ext_all_sad)(src, (uint32_t)ss, ref, (uint32_t)rs, mv, b8, b16, m8, m16, e16, e8, (EbBool)sub);
}
KDH(ext_eight_sad) {
    uint32_t(*s16)[8] = (uint32_t(*)[8])kb(k, 16 * 8, 4, 32);
    kfill(k, s16, 16 * 8, 4, 0, 256 * 255);
    uint32_t *b32 = best_arr(k, 4, 1024 * 255), *b64 = best_arr(k, 1, 4096 * 255), *m32 = mv_arr(k, 4), *m64 = mv_arr(k, 1);
    uint32_t(*s32)[8] = (uint32_t(*)[8])kb(k, 4 * 8, 4, 32);
    uint32_t mv       = pick_mv(k);
    ka(k, "mv", mv);
    kcall(k);
    KFN(k, ext_eight_sad)(s16, b32, b64, m32, m64, mv, s32);
}
