/* kdiff handlers: deblocking filters (lpf_horizontal/vertical 4/6/8/14, 8-bit and 16-bit) and CDEF
 * (find_dir, filter_block, distortion, rect copy).
 *
 * LPF domain (test/DeblockTest.cc, spec 7.14): blimit/limit/thresh are 16-byte aligned arrays holding
 * one value replicated 16 times; blimit in [0, 3*63+4], limit in [0, 63], thresh in [0, 3];
 * one call filters a 4-sample long edge: horizontal = 4 columns x (N rows above + N rows below),
 * vertical = 4 rows x (N left + N right), N = 2/3/4/7 for filter 4/6/8/14.  Content: flat-ish
 * areas with a step at the edge as well as noise, otherwise the filter masks are almost never true.
 * CDEF domain (test/CdefTest.cc, svt_cdef_filter_fb): in = CDEF_BSTRIDE-strided uint16 buffer with
 * CDEF_VERY_LARGE marking unavailable samples; strengths pri 0..15 (after adjust_strength), sec in
 * {0,1,2,4}, both << (bd-8); damping 3..6 (luma) / 2..5 (chroma) + (bd-8); dir 0..7; block
 * 4x4/4x8/8x4/8x8; dst8 for 8-bit output (coeff_shift 0), dst16 otherwise. */
#include "EbCdef.h"
#include "kdiff.h"
#include "kdiff_sigs.h"

static const uint8_t *mk_thr(KdCtx *k, int v) {
    uint8_t *t = (uint8_t *)kb(k, 16, 1, 16);
    memset(t, v, 16);
    return t;
}

/* picture area around an edge: rows x cols payload, s points at (r0, c0) */
static void *mk_edge_area(KdCtx *k, int rows, int cols, int r0, int c0, int es, int maxv, int vertical_edge, int *pitch) {
    /* a picture row is never shorter than the vector footprint of the kernels (the 16-bit vertical
     * filters load and store back 8 samples per row around the edge, the 14-tap ones 16) */
    *pitch = kstride(k, cols < 32 ? 32 : cols, 1);
    kpad(k, 64, 64);
    uint8_t *b = (uint8_t *)kb2(k, cols, rows, *pitch, es, 64, kr_range(k, 0, 15), 0);
    /* two plateaus + noise of amplitude d */
    int style = kr_range(k, 0, 3);
    if (style == 0 || k->mode < 9) kfill2(k, b, cols, rows, *pitch, es, 0, maxv);
    else {
        int a = kr_range(k, 0, maxv), step = kr_range(k, -(maxv / (style == 1 ? 64 : 8)) - 1, maxv / (style == 1 ? 64 : 8) + 1);
        int d = style == 3 ? kr_range(k, 0, maxv / 32 + 1) : kr_range(k, 0, 2);
        for (int y = 0; y < rows; y++)
            for (int x = 0; x < cols; x++) {
                int side = vertical_edge ? (x >= c0) : (y >= r0);
                int v    = a + (side ? step : 0) + kr_range(k, -d, d);
                v        = v < 0 ? 0 : v > maxv ? maxv : v;
                if (es == 1) b[y * *pitch + x] = (uint8_t)v;
                else ((uint16_t *)b)[y * *pitch + x] = (uint16_t)v;
            }
        k->nonconst = 1;
    }
    return b + (size_t)(r0 * *pitch + c0) * (size_t)es;
}

static int lpf_taps(int n) { return n == 4 ? 2 : n == 6 ? 3 : n == 8 ? 4 : 7; }

static void lpf_thr(KdCtx *k, int *bl, int *li, int *th) {
    *bl = kr_range(k, 0, 3 * 63 + 4);
    *li = kr_range(k, 0, 63);
    *th = kr_range(k, 0, 3);
    if (kr_bool(k)) { /* coherent triple as built by update_sharpness(): lvl, lim */
        int lvl = kr_range(k, 1, 63), lim = kr_range(k, 1, 63);
        *bl = 2 * (lvl + 2) + lim, *li = lim, *th = lvl >> 4;
    }
    ka(k, "blimit", *bl), ka(k, "limit", *li), ka(k, "thresh", *th);
}

KDH(lpf) {
    int vertical = P(0), n = lpf_taps(P(1)), bl, li, th, pitch;
    lpf_thr(k, &bl, &li, &th);
    uint8_t *s = (uint8_t *)(vertical ? mk_edge_area(k, 4, 2 * n, 0, n, 1, 255, 1, &pitch) : mk_edge_area(k, 2 * n, 4, n, 0, 1, 255, 0, &pitch));
    const uint8_t *b = mk_thr(k, bl), *l = mk_thr(k, li), *t = mk_thr(k, th);
    ka(k, "pitch", pitch);
    kcall(k);
    KFN(k, lpf)(s, pitch, b, l, t);
}
KDH(lpf_hbd) {
    int vertical = P(0), n = lpf_taps(P(1)), bl, li, th, pitch, bd = kr_bool(k) ? 10 : 8;
    lpf_thr(k, &bl, &li, &th);
    uint16_t *s = (uint16_t *)(vertical ? mk_edge_area(k, 4, 2 * n, 0, n, 2, (1 << bd) - 1, 1, &pitch)
                                        : mk_edge_area(k, 2 * n, 4, n, 0, 2, (1 << bd) - 1, 0, &pitch));
    const uint8_t *b = mk_thr(k, bl), *l = mk_thr(k, li), *t = mk_thr(k, th);
    ka(k, "pitch", pitch), ka(k, "bd", bd);
    kcall(k);
    KFN(k, lpf_hbd)(s, pitch, b, l, t, bd);
}

/* ------------------------------------------------------------------ CDEF */
KDH(cdef_dir) {
    int bd = k->icase % 3 == 0 ? 10 : 8, stride = kr_bool(k) ? CDEF_BSTRIDE : kstride(k, 8, 8);
    uint16_t *img = (uint16_t *)kb2(k, 8, 8, stride, 2, 16, 0, 0);
    /* level + a few noise bits, as the unit test does, or plain patterns */
    if (kr_bool(k)) kfill2(k, img, 8, 8, stride, 2, 0, (1 << bd) - 1);
    else {
        int bits = kr_range(k, 1, bd), level = kr_range(k, 0, (1 << bd) - 1);
        for (int y = 0; y < 8; y++)
            for (int x = 0; x < 8; x++) {
                int v = level + (int)(kr(k) & ((1u << bits) - 1));
                img[y * stride + x] = (uint16_t)(v > (1 << bd) - 1 ? (1 << bd) - 1 : v);
            }
        k->nonconst = 1;
    }
    int32_t *var = (int32_t *)kb(k, 1, 4, 4);
    ka(k, "bd", bd), ka(k, "stride", stride);
    kcall(k);
    kret(k, (uint64_t)(int64_t)KFN(k, cdef_dir)(img, stride, var, bd - 8));
}

KDH(cdef_filter) {
    static const int bs[4] = {BLOCK_4X4, BLOCK_4X8, BLOCK_8X4, BLOCK_8X8};
    static const int sec_s[4] = {0, 1, 2, 4};
    int              bi = k->icase % 4, bsize = bs[bi];
    int              bw = (bsize == BLOCK_4X4 || bsize == BLOCK_4X8) ? 4 : 8, bh = (bsize == BLOCK_4X4 || bsize == BLOCK_8X4) ? 4 : 8;
    int              out8 = kr_bool(k), bd = out8 ? 8 : (kr_bool(k) ? 10 : 8), shift = bd - 8;
    int              chroma = bsize != BLOCK_8X8 ? 1 : kr_bool(k);
    int              pri = kr_range(k, 0, 15) << shift, sec = sec_s[kr_range(k, 0, 3)] << shift, dir = kr_range(k, 0, 7);
    int              pd = kr_range(k, 3, 6) + shift - chroma, sd = kr_range(k, 3, 6) + shift - chroma;
    if (pri == 0) dir = 0;
    /* input: rows -3..bh+2, cols -8..bw+7 exist; -2..b+1 are read by the filter */
    int       rows = bh + 2 * CDEF_VBORDER;
    uint16_t *buf  = (uint16_t *)kb(k, (size_t)rows * CDEF_BSTRIDE, 2, 16);
    uint16_t *in   = buf + CDEF_VBORDER * CDEF_BSTRIDE + CDEF_HBORDER;
    int       bits = kr_range(k, 1, bd), level = kr_range(k, 0, (1 << bd) - 1), plain = kr_bool(k);
    uint16_t  tmp[14 * 12];
    if (plain) kfill(k, tmp, (size_t)(bh + 4) * (size_t)(bw + 4), 2, 0, (1 << bd) - 1);
    for (int y = -2; y < bh + 2; y++)
        for (int x = -2; x < bw + 2; x++) {
            int v = plain ? tmp[(y + 2) * (bw + 4) + (x + 2)] : level + (int)(kr(k) & ((1u << bits) - 1));
            in[y * CDEF_BSTRIDE + x] = (uint16_t)(v > (1 << bd) - 1 ? (1 << bd) - 1 : v);
        }
    k->nonconst = 1;
    int boundary = kr_range(k, 0, 3) == 0 ? kr_range(k, 1, 15) : 0;
    for (int y = -2; y < bh + 2; y++)
        for (int x = -2; x < bw + 2; x++)
            if (((boundary & 1) && x < 0) || ((boundary & 2) && x >= bw) || ((boundary & 4) && y < 0) || ((boundary & 8) && y >= bh))
                in[y * CDEF_BSTRIDE + x] = CDEF_VERY_LARGE;
    /* everything else in the buffer is junk */
    for (int y = 0; y < rows; y++) {
        int yy = y - CDEF_VBORDER;
        if (yy < -2 || yy >= bh + 2) kjunk(k, buf + y * CDEF_BSTRIDE, CDEF_BSTRIDE * 2);
        else {
            kjunk(k, buf + y * CDEF_BSTRIDE, (CDEF_HBORDER - 2) * 2);
            kjunk(k, buf + y * CDEF_BSTRIDE + CDEF_HBORDER + bw + 2, (size_t)(CDEF_BSTRIDE - CDEF_HBORDER - bw - 2) * 2);
        }
    }
    int      dstride = kr_bool(k) ? bw : kstride(k, bw, 1);
    uint8_t *d8 = NULL;
    uint16_t *d16 = NULL;
    if (out8) {
        d8 = (uint8_t *)kb2(k, bw, bh, dstride, 1, 16, 0, 0);
        kprefill2(k, d8, bw, bh, dstride, 1);
    } else {
        d16 = (uint16_t *)kb2(k, bw, bh, dstride, 2, 16, 0, 0);
        kprefill2(k, d16, bw, bh, dstride, 2);
    }
    ka(k, "bsize", bsize), ka(k, "out8", out8), ka(k, "bd", bd), ka(k, "pri", pri), ka(k, "sec", sec), ka(k, "dir", dir), ka(k, "pri_damping", pd),
        ka(k, "sec_damping", sd), ka(k, "dstride", dstride), ka(k, "boundary", boundary);
    kcall(k);
    KFN(k, cdef_filter)(d8, d16, dstride, in, pri, sec, dir, pd, sd, bsize, shift);
}

/* compute_cdef_dist: dst = 64x64-ish picture area, src = blocks packed one after the other */
static int mk_dlist(KdCtx *k, CdefList *dl, int nbx, int nby) {
    int n = 0;
    for (int by = 0; by < nby; by++)
        for (int bx = 0; bx < nbx; bx++)
            if (kr_range(k, 0, 2)) {
                dl[n].by = (uint8_t)by, dl[n].bx = (uint8_t)bx, dl[n].skip = 0;
                n++;
            }
    if (n == 0) dl[0].by = dl[0].bx = dl[0].skip = 0, n = 1;
    return n;
}
static void cdef_dist_geo(KdCtx *k, int *bsize, int *bw, int *bh, int *pli) {
    static const int bs[4] = {BLOCK_8X8, BLOCK_4X4, BLOCK_4X8, BLOCK_8X4};
    int              i     = kr_range(k, 0, 5);
    i                      = i > 3 ? 0 : i;
    *bsize                 = bs[i];
    *bw = (i == 0 || i == 3) ? 8 : 4, *bh = (i == 0 || i == 2) ? 8 : 4;
    *pli = i == 0 ? kr_range(k, 0, 2) : kr_range(k, 1, 2);
}
KDH(cdef_dist16) {
    int bsize, bw, bh, pli, bd = kr_bool(k) ? 10 : 8;
    cdef_dist_geo(k, &bsize, &bw, &bh, &pli);
    int       nbx = kr_range(k, 1, 8), nby = kr_range(k, 1, 8), W = nbx * bw, H = nby * bh;
    int       ds = kstride(k, W, 1);
    uint16_t *dst = (uint16_t *)kb2(k, W, H, ds, 2, 16, 0, 0);
    kfill2(k, dst, W, H, ds, 2, 0, (1 << bd) - 1);
    CdefList *dl = (CdefList *)kb(k, 64 * sizeof(CdefList), 1, 8);
    int       n  = mk_dlist(k, dl, nbx, nby);
    uint16_t *src = (uint16_t *)kb(k, (size_t)n * (size_t)bw * (size_t)bh, 2, 32);
    kfill(k, src, (size_t)n * (size_t)bw * (size_t)bh, 2, 0, (1 << bd) - 1);
    ka(k, "bsize", bsize), ka(k, "pli", pli), ka(k, "bd", bd), ka(k, "cdef_count", n), ka(k, "dstride", ds);
    kcall(k);
    kret(k, KFN(k, cdef_dist16)(dst, ds, src, dl, n, (BlockSize)bsize, bd - 8, pli));
}
KDH(cdef_dist8) {
    int bsize, bw, bh, pli;
    cdef_dist_geo(k, &bsize, &bw, &bh, &pli);
    int      nbx = kr_range(k, 1, 8), nby = kr_range(k, 1, 8), W = nbx * bw, H = nby * bh;
    int      ds = kstride(k, W, 1);
    uint8_t *dst = (uint8_t *)kb2(k, W, H, ds, 1, 16, 0, 0);
    kfill2(k, dst, W, H, ds, 1, 0, 255);
    CdefList *dl = (CdefList *)kb(k, 64 * sizeof(CdefList), 1, 8);
    int       n  = mk_dlist(k, dl, nbx, nby);
    uint8_t  *src = (uint8_t *)kb(k, (size_t)n * (size_t)bw * (size_t)bh, 1, 32);
    kfill(k, src, (size_t)n * (size_t)bw * (size_t)bh, 1, 0, 255);
    ka(k, "bsize", bsize), ka(k, "pli", pli), ka(k, "cdef_count", n), ka(k, "dstride", ds);
    kcall(k);
    kret(k, KFN(k, cdef_dist8)(dst, ds, src, dl, n, (BlockSize)bsize, 0, pli));
}

/* copy_rect8_8bit_to_16bit(dst, dstride, src, sstride, v, h): CDEF input preparation, v/h = rows /
 * columns of a filter block (multiples of 4 up to 64 + borders) */
KDH(copy_rect8to16) {
    int      v = 4 * kr_range(k, 1, 18), h = 4 * kr_range(k, 1, 20);
    if (kr_bool(k)) h = kr_range(k, 1, 80), v = kr_range(k, 1, 70);
    int      ss = kstride(k, h, 1), ds = kr_bool(k) ? CDEF_BSTRIDE : kstride(k, h, 1);
    uint8_t *src = (uint8_t *)kb2(k, h, v, ss, 1, 64, kr_range(k, 0, 15), 0);
    kfill2(k, src, h, v, ss, 1, 0, 255);
    uint16_t *dst = (uint16_t *)kb2(k, h, v, ds, 2, 16, kr_range(k, 0, 7), 0);
    kprefill2(k, dst, h, v, ds, 2);
    ka(k, "v", v), ka(k, "h", h), ka(k, "sstride", ss), ka(k, "dstride", ds);
    kcall(k);
    KFN(k, copy_rect8to16)(dst, ds, src, ss, v, h);
}
