/* decdrv: drives the SVT-AV1 decoder through its public API from a key=value case file and
 * records everything observable at the API boundary.
 *
 * usage: decdrv <case-file>
 * case keys (all optional except in/out):
 *   in=<file.ivf>            input stream (IVF container, one temporal unit per IVF frame)
 *   out=<prefix>             output prefix
 *   cfg.<field>=<int>        EbSvtAv1DecConfiguration field applied on top of what svt_av1_dec_init_handle
 *                            returned: threads, num_p_frames, is_16bit_pipeline, skip_film_grain,
 *                            operating_point, output_all_layers, eight_bit_output, skip_frames,
 *                            frames_to_be_decoded, max_picture_width, max_picture_height, max_bit_depth,
 *                            max_color_format, compressed_ten_bit_format, channel_id, active_channel_count,
 *                            stat_report
 *   annexb=0|1               value of the is_annexb argument
 *   feed=tu|concat           one svt_av1_dec_frame call per temporal unit (default) or one call on all bytes
 *   exact_buffers=1|0        1 (default): every call gets its own malloc'ed buffer of exactly data_size bytes
 *                            (freed right after the call) - the way an application owning packets calls it;
 *                            0: one large reused buffer with slack behind the data (what SvtAv1DecApp does)
 *   get_calls=N              svt_av1_dec_get_picture calls after each svt_av1_dec_frame (default 1, as in
 *                            SvtAv1DecApp; the library re-delivers the same picture when asked again)
 *   stop_after=N             feed only the first N temporal units (teardown point), default all
 *   continue_on_error=0|1    keep feeding after svt_av1_dec_frame returned an error (default 0)
 *   teardown=full|no_deinit|none   full = svt_av1_dec_deinit + svt_av1_dec_deinit_handle (default)
 *   sessions=N               run N complete sessions one after the other in this process (default 1)
 *   write_frames=1|0
 * outputs:
 *   <out>.frames  VFRM records (same format refdec writes): key = output index, visible area only,
 *                 1 byte/sample when bit depth is 8 else 2 bytes little endian
 *   <out>.res     one JSON object: result summary
 *   <out>.log     boundary log: `<seq> C|R <api> ...`
 * exit status: 0 = ran to the requested end; 3 = the API reported an error; 2 = harness error
 */
#include "vcommon.h"
#include <errno.h>
#include <dirent.h>
#include <stddef.h>
#include "EbSvtAv1Dec.h"
#include "EbSvtAv1ErrorCodes.h"

/* hooks exported by the library when built with SVT_AV1_VERIF (weak: absent otherwise) */
extern uint64_t svt_verif_sched_count(void) __attribute__((weak));
extern uint64_t svt_verif_hb_count(void) __attribute__((weak));
extern uint64_t svt_verif_trace_count(void) __attribute__((weak));
extern void     svt_verif_trace_flush(void) __attribute__((weak));

typedef EbSvtAv1DecConfiguration DCfg;

/* ------------------------------------------------------------ boundary log */
static FILE *   g_log;
static uint64_t g_seq;
#define BLOG(...)                                                 \
    do {                                                          \
        if (g_log) {                                              \
            fprintf(g_log, "%llu ", (unsigned long long)++g_seq); \
            fprintf(g_log, __VA_ARGS__);                          \
            fputc('\n', g_log);                                   \
            fflush(g_log);                                        \
        }                                                         \
    } while (0)

static int count_threads(void) {
    DIR *d = opendir("/proc/self/task");
    if (!d)
        return -1;
    int            n = 0;
    struct dirent *e;
    while ((e = readdir(d)))
        if (e->d_name[0] != '.')
            n++;
    closedir(d);
    return n;
}

/* ------------------------------------------------------------ config */
#define DF(n)                                      \
    if (!strcmp(key, #n)) {                        \
        cfg->n = (__typeof__(cfg->n))strtoll(val, NULL, 0); \
        return 0;                                  \
    }
static int set_dec_field(DCfg *cfg, const char *key, const char *val) {
    DF(operating_point)
    DF(output_all_layers)
    DF(skip_film_grain)
    DF(skip_frames)
    DF(frames_to_be_decoded)
    DF(compressed_ten_bit_format)
    DF(eight_bit_output)
    DF(max_picture_width)
    DF(max_picture_height)
    DF(max_bit_depth)
    DF(max_color_format)
    DF(threads)
    DF(num_p_frames)
    DF(channel_id)
    DF(active_channel_count)
    DF(stat_report)
    DF(is_16bit_pipeline)
    return -1;
}

static void dump_dec_cfg(FILE *f, const DCfg *c) {
    fprintf(f,
            "{\"operating_point\":%d,\"output_all_layers\":%u,\"skip_film_grain\":%u,\"skip_frames\":%llu,"
            "\"frames_to_be_decoded\":%llu,\"compressed_ten_bit_format\":%u,\"eight_bit_output\":%u,"
            "\"max_picture_width\":%u,\"max_picture_height\":%u,\"max_bit_depth\":%d,\"max_color_format\":%d,"
            "\"threads\":%u,\"num_p_frames\":%u,\"channel_id\":%u,\"active_channel_count\":%u,\"stat_report\":%u,"
            "\"is_16bit_pipeline\":%u}",
            c->operating_point, c->output_all_layers, (unsigned)c->skip_film_grain,
            (unsigned long long)c->skip_frames, (unsigned long long)c->frames_to_be_decoded,
            c->compressed_ten_bit_format, (unsigned)c->eight_bit_output, c->max_picture_width, c->max_picture_height,
            (int)c->max_bit_depth, (int)c->max_color_format, c->threads, c->num_p_frames, c->channel_id,
            c->active_channel_count, c->stat_report, (unsigned)c->is_16bit_pipeline);
}

/* ------------------------------------------------------------ input */
typedef struct {
    uint8_t *data;
    size_t   size;
    int64_t  pts;
} Tu;
typedef struct {
    Tu *   tu;
    int    n;
    size_t total;
    int    ivf_w, ivf_h;
} Stream;

static int load_ivf(Stream *s, const char *path) {
    FILE *f = fopen(path, "rb");
    if (!f)
        return -1;
    uint8_t hdr[32];
    if (fread(hdr, 1, 32, f) != 32 || memcmp(hdr, "DKIF", 4)) {
        fclose(f);
        return -2;
    }
    s->ivf_w = hdr[12] | hdr[13] << 8;
    s->ivf_h = hdr[14] | hdr[15] << 8;
    s->tu    = NULL;
    s->n     = 0;
    s->total = 0;
    int cap  = 0;
    for (;;) {
        uint8_t fh[12];
        if (fread(fh, 1, 12, f) != 12)
            break;
        uint32_t sz = fh[0] | fh[1] << 8 | fh[2] << 16 | (uint32_t)fh[3] << 24;
        int64_t  pts = 0;
        for (int i = 0; i < 8; i++) pts |= (int64_t)fh[4 + i] << (8 * i);
        uint8_t *b = (uint8_t *)malloc(sz ? sz : 1);
        if (!b || fread(b, 1, sz, f) != sz) {
            free(b);
            break; /* truncated tail: ignore the partial frame */
        }
        if (s->n >= cap) {
            cap   = cap ? cap * 2 : 64;
            s->tu = (Tu *)realloc(s->tu, sizeof(Tu) * (size_t)cap);
        }
        s->tu[s->n].data = b;
        s->tu[s->n].size = sz;
        s->tu[s->n].pts  = pts;
        s->n++;
        s->total += sz;
    }
    fclose(f);
    return 0;
}

/* ------------------------------------------------------------ session */
typedef struct {
    const VCase *c;
    const char * out;
    DCfg         cfg, cfg_default;
    FILE *       fframes;
    int          n_out, n_calls, api_error, harness_error, unsupported;
    int          first_error_call;
    unsigned     first_error_rc;
    char         errmsg[256];
    int          w, h, bd, dims_changed;
    int *        per_call; /* pictures delivered after each svt_av1_dec_frame call */
    unsigned *   rc_call; /* return code of each svt_av1_dec_frame call */
    unsigned     init_handle_rc, set_param_rc, init_rc, deinit_rc, deinit_handle_rc;
    int          deinit_called, deinit_returned, deinit_handle_returned;
    int          threads_before, threads_during, threads_after;
    uint64_t     t_decode_us;
} DSess;

static void emit_picture(DSess *s, const EbSvtIOFormat *img) {
    int w = (int)img->width, h = (int)img->height, bd = (int)img->bit_depth;
    if (w <= 0 || h <= 0 || w > 16384 || h > 16384 || (bd != 8 && bd != 10 && bd != 12) || !img->luma ||
        img->y_stride < (uint32_t)w) {
        s->harness_error = 1;
        snprintf(s->errmsg, sizeof(s->errmsg), "implausible output picture w=%d h=%d bd=%d y_stride=%u luma=%p", w, h, bd,
                 img->y_stride, (void *)img->luma);
        return;
    }
    if (img->color_fmt != EB_YUV420) {
        s->harness_error = 1;
        snprintf(s->errmsg, sizeof(s->errmsg), "output colour format %d not handled by the harness", (int)img->color_fmt);
        return;
    }
    if (!s->n_out) {
        s->w  = w;
        s->h  = h;
        s->bd = bd;
    } else if (w != s->w || h != s->h || bd != s->bd)
        s->dims_changed = 1;
    if (s->fframes) {
        int    bps = bd > 8 ? 2 : 1;
        int    cw = (w + 1) / 2, ch = (h + 1) / 2;
        size_t n  = ((size_t)w * h + 2 * (size_t)cw * ch) * bps;
        v_write_frame_hdr(s->fframes, s->n_out, w, h, bd, n);
        const uint8_t *pl[3] = {img->luma, img->cb, img->cr};
        uint32_t       st[3] = {img->y_stride, img->cb_stride, img->cr_stride};
        for (int p = 0; p < 3; p++) {
            int pw = p ? cw : w, ph = p ? ch : h;
            for (int y = 0; y < ph; y++) fwrite(pl[p] + (size_t)y * st[p] * bps, bps, pw, s->fframes);
        }
    }
    s->n_out++;
    if (s->fframes)
        fflush(s->fframes); /* pictures already delivered survive a crash in a later call */
}

static void json_str(FILE *f, const char *s) {
    fputc('"', f);
    for (; *s; s++) {
        if (*s == '"' || *s == '\\')
            fputc('\\', f);
        if ((unsigned char)*s >= 32)
            fputc(*s, f);
    }
    fputc('"', f);
}

static void write_res(DSess *s, const Stream *st, const char *stage) {
    char path[4096], tmp[4112];
    snprintf(path, sizeof(path), "%s.res", s->out);
    snprintf(tmp, sizeof(tmp), "%s.tmp", path);
    FILE *f = fopen(tmp, "w");
    if (!f)
        return;
    fprintf(f, "{\"stage\":\"%s\",\"ok\":%d,\"api_error\":%d,\"harness_error\":%d,\"unsupported\":%d,\"errmsg\":", stage, !s->api_error && !s->harness_error,
            s->api_error, s->harness_error, s->unsupported);
    json_str(f, s->errmsg);
    fprintf(f,
            ",\"frames\":%d,\"packets\":%d,\"calls\":%d,\"w\":%d,\"h\":%d,\"bd\":%d,\"dims_changed\":%d,\"ivf_w\":%d,\"ivf_h\":%d,"
            "\"first_error_call\":%d,\"first_error_rc\":%u,\"init_handle_rc\":%u,\"set_param_rc\":%u,\"init_rc\":%u,"
            "\"deinit_called\":%d,\"deinit_returned\":%d,\"deinit_rc\":%u,\"deinit_handle_returned\":%d,\"deinit_handle_rc\":%u,"
            "\"threads_before\":%d,\"threads_during\":%d,\"threads_after\":%d,\"decode_us\":%llu,"
            "\"sched_points\":%llu,\"hb_count\":%llu,\"trace_records\":%llu,\"per_packet\":[",
            s->n_out, st->n, s->n_calls, s->w, s->h, s->bd, s->dims_changed, st->ivf_w, st->ivf_h, s->first_error_call, s->first_error_rc,
            s->init_handle_rc, s->set_param_rc, s->init_rc, s->deinit_called, s->deinit_returned, s->deinit_rc,
            s->deinit_handle_returned, s->deinit_handle_rc, s->threads_before, s->threads_during, s->threads_after,
            (unsigned long long)s->t_decode_us, (unsigned long long)(svt_verif_sched_count ? svt_verif_sched_count() : 0),
            (unsigned long long)(svt_verif_hb_count ? svt_verif_hb_count() : 0),
            (unsigned long long)(svt_verif_trace_count ? svt_verif_trace_count() : 0));
    for (int i = 0; i < s->n_calls; i++) fprintf(f, "%s%d", i ? "," : "", s->per_call ? s->per_call[i] : 0);
    fprintf(f, "],\"rc\":[");
    for (int i = 0; i < s->n_calls; i++) fprintf(f, "%s%u", i ? "," : "", s->rc_call ? s->rc_call[i] : 0);
    fprintf(f, "],\"cfg\":");
    dump_dec_cfg(f, &s->cfg);
    fprintf(f, ",\"cfg_default\":");
    dump_dec_cfg(f, &s->cfg_default);
    fprintf(f, "}\n");
    fclose(f);
    rename(tmp, path);
}


static int run_session(DSess *s, const Stream *st, int sess_idx) {
    const VCase *c = s->c;
    EbComponentType *h = NULL;
    memset(&s->cfg, 0xA5, sizeof(s->cfg)); /* anything the library leaves untouched stays recognisable */
    s->threads_before = count_threads();
    BLOG("C dec_init_handle session=%d", sess_idx);
    EbErrorType rc = svt_av1_dec_init_handle(&h, NULL, &s->cfg);
    BLOG("R dec_init_handle rc=0x%x", (unsigned)rc);
    s->init_handle_rc = (unsigned)rc;
    if (rc != EB_ErrorNone || !h) {
        s->api_error = 1;
        snprintf(s->errmsg, sizeof(s->errmsg), "dec_init_handle rc=0x%x", (unsigned)rc);
        return -1;
    }
    s->cfg_default = s->cfg;
    for (int i = 0; i < c->n; i++) {
        if (strncmp(c->kv[i].key, "cfg.", 4))
            continue;
        if (set_dec_field(&s->cfg, c->kv[i].key + 4, c->kv[i].val)) {
            s->harness_error = 1;
            snprintf(s->errmsg, sizeof(s->errmsg), "unknown decoder configuration field %s", c->kv[i].key);
            svt_av1_dec_deinit_handle(h);
            return -1;
        }
    }
    BLOG("C dec_set_parameter threads=%u is_16bit_pipeline=%u skip_film_grain=%u", s->cfg.threads,
         (unsigned)s->cfg.is_16bit_pipeline, (unsigned)s->cfg.skip_film_grain);
    rc = svt_av1_dec_set_parameter(h, &s->cfg);
    BLOG("R dec_set_parameter rc=0x%x", (unsigned)rc);
    s->set_param_rc = (unsigned)rc;
    if (rc != EB_ErrorNone) {
        s->api_error = 1;
        snprintf(s->errmsg, sizeof(s->errmsg), "dec_set_parameter rc=0x%x", (unsigned)rc);
        BLOG("C dec_deinit_handle");
        svt_av1_dec_deinit_handle(h);
        BLOG("R dec_deinit_handle");
        return -1;
    }
    BLOG("C dec_init");
    rc = svt_av1_dec_init(h);
    BLOG("R dec_init rc=0x%x", (unsigned)rc);
    s->init_rc = (unsigned)rc;
    if (rc != EB_ErrorNone) {
        s->api_error = 1;
        snprintf(s->errmsg, sizeof(s->errmsg), "dec_init rc=0x%x", (unsigned)rc);
        BLOG("C dec_deinit_handle");
        svt_av1_dec_deinit_handle(h);
        BLOG("R dec_deinit_handle");
        return -1;
    }

    /* output picture: the library (re)allocates the planes with malloc when the geometry differs */
    EbBufferHeaderType obuf;
    EbSvtIOFormat      img;
    EbAV1StreamInfo    sinfo;
    EbAV1FrameInfo     finfo;
    memset(&obuf, 0, sizeof(obuf));
    memset(&img, 0, sizeof(img));
    memset(&sinfo, 0, sizeof(sinfo));
    memset(&finfo, 0, sizeof(finfo));
    obuf.size      = sizeof(obuf);
    obuf.p_buffer  = (uint8_t *)&img;
    img.color_fmt  = EB_YUV420;
    img.bit_depth  = EB_EIGHT_BIT;

    int       annexb    = (int)v_case_int(c, "annexb", 0);
    int       exact     = (int)v_case_int(c, "exact_buffers", 1);
    int       get_calls = (int)v_case_int(c, "get_calls", 1);
    int       cont      = (int)v_case_int(c, "continue_on_error", 0);
    long long stop      = v_case_int(c, "stop_after", -1);
    int       concat    = !strcmp(v_case_get(c, "feed", "tu"), "concat");
    int       ntu       = st->n;
    if (stop >= 0 && stop < ntu)
        ntu = (int)stop;
    int ncalls = concat ? (ntu ? 1 : 0) : ntu;

    uint8_t *big = NULL;
    if (!exact || concat) {
        size_t tot = 0;
        for (int i = 0; i < ntu; i++) tot += st->tu[i].size;
        big = (uint8_t *)malloc((concat ? tot : st->total) + 64);
        if (!big) {
            s->harness_error = 1;
            snprintf(s->errmsg, sizeof(s->errmsg), "out of memory");
            ncalls = 0;
        }
    }
    s->per_call = (int *)calloc((size_t)ncalls + 1, sizeof(int));
    s->rc_call  = (unsigned *)calloc((size_t)ncalls + 1, sizeof(unsigned));
    uint64_t t0 = v_now_us();
    for (int k = 0; k < ncalls; k++) {
        const uint8_t *data;
        size_t         size;
        uint8_t *      own = NULL;
        if (concat) {
            size_t off = 0;
            for (int i = 0; i < ntu; i++) {
                memcpy(big + off, st->tu[i].data, st->tu[i].size);
                off += st->tu[i].size;
            }
            size = off;
            if (exact) {
                own = (uint8_t *)malloc(size ? size : 1);
                memcpy(own, big, size);
                data = own;
            } else
                data = big;
        } else {
            size = st->tu[k].size;
            if (exact) {
                own = (uint8_t *)malloc(size ? size : 1);
                if (!own) {
                    s->harness_error = 1;
                    break;
                }
                memcpy(own, st->tu[k].data, size);
                data = own;
            } else {
                memcpy(big, st->tu[k].data, size);
                memset(big + size, 0, 64);
                data = big;
            }
        }
        BLOG("C dec_frame call=%d size=%zu annexb=%d", k, size, annexb);
        rc = svt_av1_dec_frame(h, data, size, (uint32_t)annexb);
        BLOG("R dec_frame rc=0x%x", (unsigned)rc);
        s->rc_call[k] = (unsigned)rc;
        s->n_calls    = k + 1;
        if (k == 0)
            s->threads_during = count_threads();
        int before = s->n_out;
        if (rc == EB_ErrorNone) {
            for (int g = 0; g < get_calls; g++) {
                BLOG("C dec_get_picture");
                EbErrorType grc = svt_av1_dec_get_picture(h, &obuf, &sinfo, &finfo);
                BLOG("R dec_get_picture rc=0x%x w=%u h=%u bd=%d", (unsigned)grc, img.width, img.height, (int)img.bit_depth);
                if (grc == EB_DecNoOutputPicture)
                    break;
                if (grc != EB_ErrorNone) {
                    s->api_error = 1;
                    snprintf(s->errmsg, sizeof(s->errmsg), "dec_get_picture rc=0x%x at call %d", (unsigned)grc, k);
                    break;
                }
                emit_picture(s, &img);
                if (s->harness_error)
                    break;
            }
        }
        s->per_call[k] = s->n_out - before;
        free(own);
        if (rc != EB_ErrorNone) {
            if (s->first_error_call < 0) {
                s->first_error_call = k;
                s->first_error_rc   = (unsigned)rc;
            }
            if (rc == EB_DecUnsupportedBitstream)
                s->unsupported = 1;
            else {
                s->api_error = 1;
                snprintf(s->errmsg, sizeof(s->errmsg), "dec_frame rc=0x%x at call %d", (unsigned)rc, k);
            }
            if (!cont)
                break;
        }
        if (s->api_error && !cont)
            break;
        if (s->harness_error)
            break;
    }
    s->t_decode_us += v_now_us() - t0;
    free(big);
    if (svt_verif_trace_flush)
        svt_verif_trace_flush(); /* keep the hand-off trace even if teardown crashes */
    write_res(s, st, "decoded"); /* rewritten with stage "done" after teardown */

    const char *td = v_case_get(c, "teardown", "full");
    if (strcmp(td, "none")) {
        if (strcmp(td, "no_deinit")) {
            s->deinit_called = 1;
            BLOG("C dec_deinit");
            rc = svt_av1_dec_deinit(h);
            BLOG("R dec_deinit rc=0x%x", (unsigned)rc);
            s->deinit_rc       = (unsigned)rc;
            s->deinit_returned = 1;
            if (rc != EB_ErrorNone) {
                s->api_error = 1;
                snprintf(s->errmsg, sizeof(s->errmsg), "dec_deinit rc=0x%x", (unsigned)rc);
            }
        }
        BLOG("C dec_deinit_handle");
        rc = svt_av1_dec_deinit_handle(h);
        BLOG("R dec_deinit_handle rc=0x%x", (unsigned)rc);
        s->deinit_handle_rc       = (unsigned)rc;
        s->deinit_handle_returned = 1;
        if (rc != EB_ErrorNone) {
            s->api_error = 1;
            snprintf(s->errmsg, sizeof(s->errmsg), "dec_deinit_handle rc=0x%x", (unsigned)rc);
        }
    }
    /* the output planes were allocated by the library with malloc on the caller's behalf */
    free(img.luma);
    free(img.cb);
    free(img.cr);
    s->threads_after = count_threads();
    return 0;
}

int main(int argc, char **argv) {
    v_drop_sys_nice();
    if (argc < 2) {
        fprintf(stderr, "usage: decdrv <case-file>\n");
        return 2;
    }
    VCase c;
    if (v_case_load(&c, argv[1])) {
        fprintf(stderr, "decdrv: cannot read case %s\n", argv[1]);
        return 2;
    }
    const char *in  = v_case_get(&c, "in", NULL);
    const char *out = v_case_get(&c, "out", NULL);
    if (!in || !out) {
        fprintf(stderr, "decdrv: case needs in= and out=\n");
        return 2;
    }
    char path[4096];
    snprintf(path, sizeof(path), "%s.log", out);
    g_log = fopen(path, "w");
    Stream st;
    memset(&st, 0, sizeof(st));
    int lr = load_ivf(&st, in);
    DSess  s;
    memset(&s, 0, sizeof(s));
    s.c                = &c;
    s.out              = out;
    s.first_error_call = -1;
    if (lr) {
        s.harness_error = 1;
        snprintf(s.errmsg, sizeof(s.errmsg), "cannot read IVF %s (%d)", in, lr);
    } else {
        if (v_case_int(&c, "write_frames", 1)) {
            snprintf(path, sizeof(path), "%s.frames", out);
            s.fframes = fopen(path, "wb");
        }
        int sessions = (int)v_case_int(&c, "sessions", 1);
        for (int k = 0; k < sessions && !s.harness_error; k++) {
            if (k > 0) { /* only the last session's pictures are kept */
                if (s.fframes) {
                    fclose(s.fframes);
                    snprintf(path, sizeof(path), "%s.frames", out);
                    s.fframes = fopen(path, "wb");
                }
                s.n_out = 0;
                free(s.per_call);
                free(s.rc_call);
                s.per_call = NULL;
                s.rc_call  = NULL;
            }
            run_session(&s, &st, k);
            if (s.api_error)
                break;
        }
        if (s.fframes)
            fclose(s.fframes);
    }
    if (svt_verif_trace_flush)
        svt_verif_trace_flush();
    write_res(&s, &st, "done");
    if (g_log)
        fclose(g_log);
    if (s.harness_error)
        return 2;
    return s.api_error ? 3 : 0;
}
