/* kdiff handlers: blend_a64 masks (2-D, h/v 1-D, d16), diff-weighted compound masks, wedge helpers,
 * subtract block, sum of squares.
 *
 * Domains (test/EbBlend_a64_mask_test.cc, EbBlend_a64_mask_1d_test.cc, CompoundUtilTest.cc,
 * WedgeUtilTest.cc; EbBlend_a64_mask.c asserts): mask values 0..64; w, h powers of two (d16 8-bit:
 * >= 4); src0 or src1 may alias dst (then with dst's stride); subx/suby in {0,1} with the mask
 * (w << subx) x (h << suby); highbd flavours take uint16_t buffers cast to uint8_t* (no
 * CONVERT_TO_BYTEPTR in this code base); d16 sources are compound-convolve intermediates
 * (14 significant bits for bd 8, 16 for bd 10). */
#include "convolve.h"
#include "kdiff.h"
#include "kdiff_sigs.h"

static const int pw2[] = {2, 4, 8, 16, 32, 64, 128};

static void blk(KdCtx *k, int minsz, int *w, int *h) {
    int i = k->icase < 9 ? kr_range(k, 0, 21) : (k->icase % 22);
    int c = minsz <= 2 && kr_range(k, 0, 2) == 0;
    *w    = kd_bsizes[i][0] >> c;
    *h    = kd_bsizes[i][1] >> c;
}

/* dst + two sources, one of which may alias dst */
typedef struct {
    void *dst, *s0, *s1;
    int   ds, s0s, s1s;
} Blend3;

static Blend3 mk3(KdCtx *k, int w, int h, int es, long long maxv, int src_es, long long src_max) {
    Blend3 b;
    int    alias = (es == src_es) ? kr_range(k, 0, 2) : 0; /* 0 separate, 1 src0 == dst, 2 src1 == dst */
    b.ds         = kstride(k, w, 1);
    kpad(k, 0, 32);
    b.dst        = kb2(k, w, h, b.ds, es, 64, kr_range(k, 0, 32), 0);
    if (alias) kfill2(k, b.dst, w, h, b.ds, es, 0, maxv);
    else kprefill2(k, b.dst, w, h, b.ds, es);
    if (alias == 1) b.s0 = b.dst, b.s0s = b.ds;
    else {
        b.s0s = kstride(k, w, 1);
        kpad(k, 0, 32); /* predictions live in SB-sized (or picture) buffers */
        b.s0  = kb2(k, w, h, b.s0s, src_es, 64, kr_range(k, 0, 32), 0);
        kfill2(k, b.s0, w, h, b.s0s, src_es, 0, src_max);
    }
    if (alias == 2) b.s1 = b.dst, b.s1s = b.ds;
    else {
        b.s1s = kstride(k, w, 1);
        kpad(k, 0, 32);
        b.s1  = kb2(k, w, h, b.s1s, src_es, 64, kr_range(k, 0, 32), 0);
        kfill2(k, b.s1, w, h, b.s1s, src_es, 0, src_max);
    }
    ka(k, "w", w), ka(k, "h", h), ka(k, "dst_stride", b.ds), ka(k, "src0_stride", b.s0s), ka(k, "src1_stride", b.s1s), ka(k, "alias", alias);
    return b;
}

static const uint8_t *mk_mask2d(KdCtx *k, int w, int h, int subx, int suby, int *ms) {
    int mw = w << subx, mh = h << suby;
    *ms        = kstride(k, mw, 1);
    /* masks come from the wedge / smooth-interintra / seg_mask arrays (MAX_SB_SQUARE or larger): a
     * vector load that covers a few bytes more than the last mask row stays inside them */
    kpad(k, 0, 32);
    uint8_t *m = (uint8_t *)kb2(k, mw, mh, *ms, 1, 64, kr_range(k, 0, 15), 0);
    kfill2(k, m, mw, mh, *ms, 1, 0, 64);
    ka(k, "subx", subx), ka(k, "suby", suby), ka(k, "mask_stride", *ms);
    return m;
}

KDH(blend_mask) {
    int w, h, ms, subx = kr_bool(k), suby = kr_bool(k);
    blk(k, 2, &w, &h);
    Blend3         b = mk3(k, w, h, 1, 255, 1, 255);
    const uint8_t *m = mk_mask2d(k, w, h, subx, suby, &ms);
    if (subx != suby) ktag(k, "subx!=suby"); /* 4:2:2 / 4:4:0 shapes: not produced by the 4:2:0-only encoder */
    kcall(k);
    KFN(k, blend_mask)((uint8_t *)b.dst, (uint32_t)b.ds, (const uint8_t *)b.s0, (uint32_t)b.s0s, (const uint8_t *)b.s1, (uint32_t)b.s1s, m,
                       (uint32_t)ms, w, h, subx, suby);
}
KDH(blend_mask_hbd) {
    int w, h, ms, subx = kr_bool(k), suby = kr_bool(k), bd = kr_bool(k) ? 10 : 8;
    blk(k, 2, &w, &h);
    Blend3         b = mk3(k, w, h, 2, (1 << bd) - 1, 2, (1 << bd) - 1);
    const uint8_t *m = mk_mask2d(k, w, h, subx, suby, &ms);
    ka(k, "bd", bd);
    if (subx != suby) ktag(k, "subx!=suby");
    kcall(k);
    KFN(k, blend_mask_hbd)((uint8_t *)b.dst, (uint32_t)b.ds, (const uint8_t *)b.s0, (uint32_t)b.s0s, (const uint8_t *)b.s1, (uint32_t)b.s1s, m,
                           (uint32_t)ms, w, h, subx, suby, bd);
}

/* 1-D masks (OBMC): hmask has w entries, vmask h entries */
static const uint8_t *mk_mask1d(KdCtx *k, int n) {
    kpad(k, 0, 32);
    uint8_t *m = (uint8_t *)kb(k, (size_t)n, 1, 16);
    kfill(k, m, (size_t)n, 1, 0, 64);
    return m;
}
KDH(blend_hv) {
    int            vert = P(0), w = KR_PICK(k, pw2), h = KR_PICK(k, pw2);
    Blend3         b = mk3(k, w, h, 1, 255, 1, 255);
    const uint8_t *m = mk_mask1d(k, vert ? h : w);
    kcall(k);
    KFN(k, blend_hv)((uint8_t *)b.dst, (uint32_t)b.ds, (const uint8_t *)b.s0, (uint32_t)b.s0s, (const uint8_t *)b.s1, (uint32_t)b.s1s, m, w, h);
}
KDH(blend_hv_hbd) {
    int            vert = P(0), w = KR_PICK(k, pw2), h = KR_PICK(k, pw2), bd = kr_bool(k) ? 10 : 8;
    Blend3         b = mk3(k, w, h, 2, (1 << bd) - 1, 2, (1 << bd) - 1);
    const uint8_t *m = mk_mask1d(k, vert ? h : w);
    ka(k, "bd", bd);
    kcall(k);
    KFN(k, blend_hv_hbd)((uint8_t *)b.dst, (uint32_t)b.ds, (const uint8_t *)b.s0, (uint32_t)b.s0s, (const uint8_t *)b.s1, (uint32_t)b.s1s, m, w,
                         h, bd);
}
KDH(blend_hv_hbd16) {
    int            vert = P(0), w = KR_PICK(k, pw2), h = KR_PICK(k, pw2), bd = kr_bool(k) ? 10 : 8;
    Blend3         b = mk3(k, w, h, 2, (1 << bd) - 1, 2, (1 << bd) - 1);
    const uint8_t *m = mk_mask1d(k, vert ? h : w);
    ka(k, "bd", bd);
    kcall(k);
    KFN(k, blend_hv_hbd16)((uint16_t *)b.dst, (uint32_t)b.ds, (const uint16_t *)b.s0, (uint32_t)b.s0s, (const uint16_t *)b.s1, (uint32_t)b.s1s, m,
                           w, h, bd);
}

static ConvolveParams *mk_cp_compound(KdCtx *k, int bd) {
    ConvolveParams  c  = get_conv_params_no_round(0, 0, 0, NULL, 0, 1, bd);
    ConvolveParams *cp = (ConvolveParams *)kb(k, sizeof(ConvolveParams), 1, 8);
    cp->round_0 = c.round_0, cp->round_1 = c.round_1, cp->is_compound = 1;
    return cp;
}
KDH(blend_d16) {
    int w, h, ms, subx = kr_bool(k), suby = kr_bool(k);
    blk(k, 4, &w, &h);
    Blend3          b  = mk3(k, w, h, 1, 255, 2, 0x3fff);
    const uint8_t  *m  = mk_mask2d(k, w, h, subx, suby, &ms);
    ConvolveParams *cp = mk_cp_compound(k, 8);
    if (subx != suby) ktag(k, "subx!=suby");
    kcall(k);
    KFN(k, blend_d16)((uint8_t *)b.dst, (uint32_t)b.ds, (const CONV_BUF_TYPE *)b.s0, (uint32_t)b.s0s, (const CONV_BUF_TYPE *)b.s1, (uint32_t)b.s1s,
                      m, (uint32_t)ms, w, h, subx, suby, cp);
}
KDH(blend_d16_hbd) {
    int w, h, ms, subx = kr_bool(k), suby = kr_bool(k), bd = kr_bool(k) ? 10 : 8;
    blk(k, 4, &w, &h);
    Blend3          b  = mk3(k, w, h, 2, (1 << bd) - 1, 2, bd == 8 ? 0x3fff : 0xffff);
    const uint8_t  *m  = mk_mask2d(k, w, h, subx, suby, &ms);
    ConvolveParams *cp = mk_cp_compound(k, bd);
    ka(k, "bd", bd);
    if (subx != suby) ktag(k, "subx!=suby");
    kcall(k);
    KFN(k, blend_d16_hbd)((uint8_t *)b.dst, (uint32_t)b.ds, (const CONV_BUF_TYPE *)b.s0, (uint32_t)b.s0s, (const CONV_BUF_TYPE *)b.s1,
                          (uint32_t)b.s1s, m, (uint32_t)ms, w, h, subx, suby, cp, bd);
}

/* diff-weighted masks: mask is a contiguous w*h array; blocks >= 8x8 (masked compound) */
static void blk8(KdCtx *k, int *w, int *h) {
    static const int s[][2] = {{8, 8},   {8, 16},  {16, 8},  {16, 16}, {16, 32}, {32, 16},  {32, 32},  {32, 64},  {64, 32},
                               {64, 64}, {64, 128}, {128, 64}, {128, 128}, {8, 32},  {32, 8},   {16, 64},  {64, 16}};
    int              i      = k->icase < 9 ? kr_range(k, 0, 16) : k->icase % 17;
    *w = s[i][0], *h = s[i][1];
}
KDH(diffwtd) {
    int w, h, s0s, s1s, type = kr_bool(k);
    blk8(k, &w, &h);
    s0s = kstride(k, w, 1), s1s = kstride(k, w, 1);
    uint8_t *s0 = (uint8_t *)kb2(k, w, h, s0s, 1, 64, kr_range(k, 0, 15), 0), *s1 = (uint8_t *)kb2(k, w, h, s1s, 1, 64, kr_range(k, 0, 15), 0);
    kfill2(k, s0, w, h, s0s, 1, 0, 255), kfill2(k, s1, w, h, s1s, 1, 0, 255);
    uint8_t *mask = (uint8_t *)kb(k, (size_t)w * (size_t)h, 1, 32);
    ka(k, "w", w), ka(k, "h", h), ka(k, "mask_type", type), ka(k, "src0_stride", s0s), ka(k, "src1_stride", s1s);
    kcall(k);
    KFN(k, diffwtd)(mask, (DIFFWTD_MASK_TYPE)type, s0, s0s, s1, s1s, h, w);
}
KDH(diffwtd_hbd) {
    int w, h, s0s, s1s, type = kr_bool(k), bd = kr_bool(k) ? 10 : 8;
    blk8(k, &w, &h);
    s0s = kstride(k, w, 1), s1s = kstride(k, w, 1);
    uint16_t *s0 = (uint16_t *)kb2(k, w, h, s0s, 2, 64, kr_range(k, 0, 15), 0), *s1 = (uint16_t *)kb2(k, w, h, s1s, 2, 64, kr_range(k, 0, 15), 0);
    kfill2(k, s0, w, h, s0s, 2, 0, (1 << bd) - 1), kfill2(k, s1, w, h, s1s, 2, 0, (1 << bd) - 1);
    uint8_t *mask = (uint8_t *)kb(k, (size_t)w * (size_t)h, 1, 32);
    ka(k, "w", w), ka(k, "h", h), ka(k, "mask_type", type), ka(k, "src0_stride", s0s), ka(k, "src1_stride", s1s), ka(k, "bd", bd);
    kcall(k);
    KFN(k, diffwtd_hbd)(mask, (DIFFWTD_MASK_TYPE)type, (const uint8_t *)s0, s0s, (const uint8_t *)s1, s1s, h, w, bd);
}
KDH(diffwtd_d16) {
    int w, h, s0s, s1s, type = kr_bool(k), bd = kr_bool(k) ? 10 : 8;
    blk8(k, &w, &h);
    s0s = kstride(k, w, 1), s1s = kstride(k, w, 1);
    long long      mx = bd == 8 ? 0x3fff : 0xffff;
    CONV_BUF_TYPE *s0 = (CONV_BUF_TYPE *)kb2(k, w, h, s0s, 2, 64, kr_range(k, 0, 15), 0), *s1 = (CONV_BUF_TYPE *)kb2(k, w, h, s1s, 2, 64, kr_range(k, 0, 15), 0);
    kfill2(k, s0, w, h, s0s, 2, 0, mx), kfill2(k, s1, w, h, s1s, 2, 0, mx);
    uint8_t        *mask = (uint8_t *)kb(k, (size_t)w * (size_t)h, 1, 32);
    ConvolveParams *cp   = mk_cp_compound(k, bd);
    ka(k, "w", w), ka(k, "h", h), ka(k, "mask_type", type), ka(k, "src0_stride", s0s), ka(k, "src1_stride", s1s), ka(k, "bd", bd);
    kcall(k);
    KFN(k, diffwtd_d16)(mask, (DIFFWTD_MASK_TYPE)type, s0, s0s, s1, s1s, h, w, cp, bd);
}

/* wedge helpers: residuals 13-bit signed, mask 0..64, N = 64 * n (test/WedgeUtilTest.cc) */
KDH(wedge_sse) {
    int      N = 64 * (k->icase < 9 ? kr_range(k, 1, 256) : 1 + (k->icase * 7) % 256);
    int16_t *r1 = (int16_t *)kb(k, (size_t)N, 2, 32), *d = (int16_t *)kb(k, (size_t)N, 2, 32);
    uint8_t *m  = (uint8_t *)kb(k, (size_t)N, 1, 32);
    kfill(k, r1, (size_t)N, 2, -4095, 4095), kfill(k, d, (size_t)N, 2, -8190, 8190), kfill(k, m, (size_t)N, 1, 0, 64);
    ka(k, "N", N);
    kcall(k);
    kret(k, KFN(k, wedge_sse)(r1, d, m, N));
}
KDH(wedge_sign) {
    int      N = 64 * (k->icase < 9 ? kr_range(k, 1, 127) : 1 + (k->icase * 7) % 127);
    int16_t *ds = (int16_t *)kb(k, (size_t)N, 2, 32);
    uint8_t *m  = (uint8_t *)kb(k, (size_t)N, 1, 32);
    kfill(k, ds, (size_t)N, 2, -32768, 32767), kfill(k, m, (size_t)N, 1, 0, 64);
    /* limit = (sum r0^2 - sum r1^2) * 32: any value of that magnitude */
    int64_t limit = ((int64_t)(int32_t)kr(k)) * (int64_t)kr_range(k, 0, 4096);
    ka(k, "N", N), ka(k, "limit", limit);
    kcall(k);
    kret(k, (uint64_t)(int64_t)KFN(k, wedge_sign)(ds, m, N, limit));
}
KDH(wedge_delta) {
    int      N = 64 * (k->icase < 9 ? kr_range(k, 1, 256) : 1 + (k->icase * 7) % 256);
    int16_t *a = (int16_t *)kb(k, (size_t)N, 2, 32), *b = (int16_t *)kb(k, (size_t)N, 2, 32), *d = (int16_t *)kb(k, (size_t)N, 2, 32);
    kfill(k, a, (size_t)N, 2, -4095, 4095), kfill(k, b, (size_t)N, 2, -4095, 4095);
    ka(k, "N", N);
    kcall(k);
    KFN(k, wedge_delta)(d, a, b, N);
}

/* subtract block (wedge / compound searches in EbEncInterPrediction.c, EbModeDecision.c): luma
 * blocks >= 8x8; diff is a 32-byte aligned contiguous array (stride = cols: residual0/residual1/
 * diff10); src comes from the source picture (any stride), pred is contiguous or a picture. */
KDH(subtract) {
    int w, h;
    blk8(k, &w, &h);
    int      ss = kstride(k, w, 1), ps = kr_bool(k) ? w : kstride(k, w, 1), dfs = w;
    uint8_t *s = (uint8_t *)kb2(k, w, h, ss, 1, 64, kr_range(k, 0, 15), 0), *p = (uint8_t *)kb2(k, w, h, ps, 1, 64, ps == w ? 0 : kr_range(k, 0, 15), 0);
    kfill2(k, s, w, h, ss, 1, 0, 255), kfill2(k, p, w, h, ps, 1, 0, 255);
    int16_t *d = (int16_t *)kb2(k, w, h, dfs, 2, 32, 0, 0);
    kprefill2(k, d, w, h, dfs, 2);
    ka(k, "rows", h), ka(k, "cols", w), ka(k, "diff_stride", dfs), ka(k, "src_stride", ss), ka(k, "pred_stride", ps);
    kcall(k);
    KFN(k, subtract)(h, w, d, dfs, s, ss, p, ps);
}
KDH(subtract_hbd) {
    int w, h, bd = kr_bool(k) ? 10 : 8;
    blk8(k, &w, &h);
    int       ss = kstride(k, w, 1), ps = kr_bool(k) ? w : kstride(k, w, 1), dfs = w;
    uint16_t *s = (uint16_t *)kb2(k, w, h, ss, 2, 64, kr_range(k, 0, 15), 0), *p = (uint16_t *)kb2(k, w, h, ps, 2, 64, ps == w ? 0 : kr_range(k, 0, 15), 0);
    kfill2(k, s, w, h, ss, 2, 0, (1 << bd) - 1), kfill2(k, p, w, h, ps, 2, 0, (1 << bd) - 1);
    int16_t *d = (int16_t *)kb2(k, w, h, dfs, 2, 32, 0, 0);
    kprefill2(k, d, w, h, dfs, 2);
    ka(k, "rows", h), ka(k, "cols", w), ka(k, "diff_stride", dfs), ka(k, "src_stride", ss), ka(k, "pred_stride", ps), ka(k, "bd", bd);
    kcall(k);
    KFN(k, subtract_hbd)(h, w, d, dfs, (const uint8_t *)s, ss, (const uint8_t *)p, ps, bd);
}

/* aom_sum_squares_i16(src, n): residuals, n = w*h of a block */
KDH(sumsq_i16) {
    int      i = k->icase % 22, n = kd_bsizes[i][0] * kd_bsizes[i][1];
    int16_t *s = (int16_t *)kb(k, (size_t)n, 2, 32);
    kfill(k, s, (size_t)n, 2, -4095, 4095);
    ka(k, "n", n);
    kcall(k);
    kret(k, KFN(k, sumsq_i16)(s, (uint32_t)n));
}
