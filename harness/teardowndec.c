/* teardowndec (C15): decoder sessions torn down at a chosen point of the API protocol, with a per-session resource
 * report (same fields as encdrv's <out>.sessions).
 *
 * usage: teardowndec key=value ...
 *   in=<file.ivf> out=<prefix> threads=N sessions=N
 *   point=1 after svt_av1_dec_init_handle | 2 after svt_av1_dec_set_parameter | 3 after svt_av1_dec_init |
 *         4 after `frames` temporal units (mid-stream) | 0 after all temporal units
 *   getpic=1|0  call svt_av1_dec_get_picture after every svt_av1_dec_frame (as SvtAv1DecApp does)
 * Teardown is always svt_av1_dec_deinit followed by svt_av1_dec_deinit_handle.
 * outputs: <out>.log boundary log (`<seq> C|R <api> ...`), <out>.sessions one JSON line per session
 * exit: 0 ran to the end, 3 API error, 2 harness error
 */
#include "vcommon.h"
#include <dirent.h>
#include <malloc.h>
#include <signal.h>
#include "EbSvtAv1Dec.h"
#include "EbSvtAv1ErrorCodes.h"

#if defined(__has_feature)
#if __has_feature(address_sanitizer)
#define V_ASAN 1
#endif
#endif
#ifdef V_ASAN
size_t __sanitizer_get_current_allocated_bytes(void);
#endif
extern int64_t svt_verif_live_entries(int type) __attribute__((weak));

static FILE *   g_log;
static uint64_t g_seq;
#define BLOG(...)                                                 \
    do {                                                          \
        if (g_log) {                                              \
            fprintf(g_log, "%llu ", (unsigned long long)++g_seq); \
            fprintf(g_log, __VA_ARGS__);                          \
            fputc('\n', g_log);                                   \
            fflush(g_log);                                        \
        }                                                         \
    } while (0)

static int count_threads(void) {
    DIR *d = opendir("/proc/self/task");
    if (!d)
        return -1;
    int            n = 0;
    struct dirent *e;
    while ((e = readdir(d)))
        if (e->d_name[0] != '.')
            n++;
    closedir(d);
    return n;
}

static const char *arg(int argc, char **argv, const char *key, const char *dflt) {
    size_t n = strlen(key);
    for (int i = 1; i < argc; i++)
        if (!strncmp(argv[i], key, n) && argv[i][n] == '=')
            return argv[i] + n + 1;
    return dflt;
}

static uint8_t *g_ivf;
static size_t   g_len;

static int session(int point, int frames, int threads, int getpic, int *fed, int *pics) {
    EbSvtAv1DecConfiguration cfg;
    EbComponentType *        h = NULL;
    EbErrorType              rc;
    int                      err = 0;
    memset(&cfg, 0, sizeof(cfg));
    BLOG("C dec_init_handle");
    rc = svt_av1_dec_init_handle(&h, NULL, &cfg);
    BLOG("R dec_init_handle rc=0x%x", (unsigned)rc);
    if (rc != EB_ErrorNone || !h)
        return 3;
    EbSvtIOFormat img;
    memset(&img, 0, sizeof(img));
    if (point == 1)
        goto teardown;
    cfg.threads = (uint32_t)threads;
    BLOG("C dec_set_parameter threads=%d", threads);
    rc = svt_av1_dec_set_parameter(h, &cfg);
    BLOG("R dec_set_parameter rc=0x%x", (unsigned)rc);
    if (rc != EB_ErrorNone)
        err = 3;
    if (point == 2 || err)
        goto teardown;
    BLOG("C dec_init");
    rc = svt_av1_dec_init(h);
    BLOG("R dec_init rc=0x%x", (unsigned)rc);
    if (rc != EB_ErrorNone)
        err = 3;
    if (point == 3 || err)
        goto teardown;
    {
        EbBufferHeaderType obuf;
        EbAV1StreamInfo    sinfo;
        EbAV1FrameInfo     finfo;
        memset(&obuf, 0, sizeof(obuf));
        memset(&sinfo, 0, sizeof(sinfo));
        memset(&finfo, 0, sizeof(finfo));
        obuf.size     = sizeof(obuf);
        obuf.p_buffer = (uint8_t *)&img;
        img.color_fmt = EB_YUV420;
        img.bit_depth = EB_EIGHT_BIT;
        size_t pos    = 32;
        for (int f = 0; (point == 0 || f < frames) && pos + 12 <= g_len; f++) {
            uint32_t sz = (uint32_t)g_ivf[pos] | ((uint32_t)g_ivf[pos + 1] << 8) | ((uint32_t)g_ivf[pos + 2] << 16) |
                ((uint32_t)g_ivf[pos + 3] << 24);
            pos += 12;
            if (pos + sz > g_len)
                break;
            /* slack behind the data as in SvtAv1DecApp's reused read buffer: the bit reader's known prefetch over-read
             * (C08/C10 finding) must not be mistaken for a teardown defect */
            uint8_t *buf = (uint8_t *)calloc(1, (size_t)sz + 64);
            memcpy(buf, g_ivf + pos, sz);
            pos += sz;
            BLOG("C dec_frame tu=%d size=%u", f, sz);
            rc = svt_av1_dec_frame(h, buf, sz, 0);
            BLOG("R dec_frame rc=0x%x", (unsigned)rc);
            free(buf);
            (*fed)++;
            if (rc != EB_ErrorNone) {
                err = 3;
                break;
            }
            if (getpic) {
                BLOG("C dec_get_picture");
                EbErrorType g = svt_av1_dec_get_picture(h, &obuf, &sinfo, &finfo);
                BLOG("R dec_get_picture rc=0x%x", (unsigned)g);
                if (g == EB_ErrorNone)
                    (*pics)++;
            }
        }
    }
teardown:
    BLOG("C dec_deinit");
    rc = svt_av1_dec_deinit(h);
    BLOG("R dec_deinit rc=0x%x", (unsigned)rc);
    BLOG("C dec_deinit_handle");
    rc = svt_av1_dec_deinit_handle(h);
    BLOG("R dec_deinit_handle rc=0x%x", (unsigned)rc);
    /* output planes are allocated by the library with malloc on the caller's behalf: the caller owns them */
    free(img.luma);
    free(img.cb);
    free(img.cr);
    return err;
}

int main(int argc, char **argv) {
    v_drop_sys_nice();
    const char *in  = arg(argc, argv, "in", NULL);
    const char *out = arg(argc, argv, "out", NULL);
    if (!out) {
        fprintf(stderr, "usage: teardowndec in=<ivf> out=<prefix> point=N frames=N threads=N sessions=N getpic=0|1\n");
        return 2;
    }
    int point = atoi(arg(argc, argv, "point", "0")), frames = atoi(arg(argc, argv, "frames", "1"));
    int threads = atoi(arg(argc, argv, "threads", "1")), sessions = atoi(arg(argc, argv, "sessions", "1"));
    int getpic = atoi(arg(argc, argv, "getpic", "1"));
    if (in) {
        FILE *f = fopen(in, "rb");
        if (!f) {
            fprintf(stderr, "teardowndec: cannot read %s\n", in);
            return 2;
        }
        fseek(f, 0, SEEK_END);
        g_len = (size_t)ftell(f);
        fseek(f, 0, SEEK_SET);
        g_ivf = (uint8_t *)malloc(g_len + 1);
        if (fread(g_ivf, 1, g_len, f) != g_len)
            return 2;
        fclose(f);
    } else if (point == 0 || point == 4) {
        fprintf(stderr, "teardowndec: in= required for point %d\n", point);
        return 2;
    }
    if (!freopen("/dev/null", "w", stdout)) {}
    char path[1024];
    snprintf(path, sizeof(path), "%s.log", out);
    g_log = fopen(path, "w");
    snprintf(path, sizeof(path), "%s.sessions", out);
    FILE *fs = fopen(path, "w");
    if (!fs)
        return 2;
    int threads0 = count_threads(), ret = 0;
    for (int si = 0; si < sessions; si++) {
        int fed = 0, pics = 0;
        BLOG("S session %d", si);
        ret = session(point, frames, threads, getpic, &fed, &pics);
        struct mallinfo2 mi    = mallinfo2();
        size_t           inuse = mi.uordblks + mi.hblkhd;
#ifdef V_ASAN
        inuse = __sanitizer_get_current_allocated_bytes();
#endif
        int th = count_threads();
        for (int i = 0; i < 400 && th > threads0; i++) {
            usleep(1000);
            th = count_threads();
        }
        fprintf(fs,
                "{\"session\":%d,\"ret\":%d,\"fed\":%d,\"pictures\":%d,\"threads_before\":%d,\"threads_after\":%d,\"heap_inuse\":%zu,"
                "\"live_mem\":%lld,\"live_mutex\":%lld,\"live_sem\":%lld,\"live_thread\":%lld}\n",
                si, ret, fed, pics, threads0, th, inuse, svt_verif_live_entries ? (long long)svt_verif_live_entries(0) : -1,
                svt_verif_live_entries ? (long long)svt_verif_live_entries(3) : -1,
                svt_verif_live_entries ? (long long)svt_verif_live_entries(4) : -1,
                svt_verif_live_entries ? (long long)svt_verif_live_entries(5) : -1);
        fflush(fs);
    }
    fclose(fs);
    if (g_log)
        fclose(g_log);
    free(g_ivf);
    return ret;
}
