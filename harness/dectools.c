/* dectools: decode an IVF with the SVT decoder (single thread) and report the block-level coding-tool counters of
 * hook H5 plus the decoded pictures (VFRM), so that the parse can be validated against a reference decoder.
 * usage: dectools <in.ivf> <out.frames|->   -> one JSON line on stdout */
#include "vcommon.h"
#include "EbSvtAv1Dec.h"
extern void svt_verif_dec_tool_counts(uint64_t out[8]) __attribute__((weak));

int main(int argc, char **argv) {
    if (argc < 3)
        return 2;
    v_drop_sys_nice();
    int saved = dup(1);
    if (!freopen("/dev/null", "w", stdout)) {}
    if (!freopen("/dev/null", "w", stderr)) {}
    FILE *f = fopen(argv[1], "rb");
    FILE *o = strcmp(argv[2], "-") ? fopen(argv[2], "wb") : NULL;
    uint8_t hdr[32];
    if (!f || fread(hdr, 1, 32, f) != 32) {
        dprintf(saved, "{\"ok\":0,\"error\":\"input\"}\n");
        return 2;
    }
    EbSvtAv1DecConfiguration cfg;
    EbComponentType *        h = NULL;
    memset(&cfg, 0, sizeof(cfg));
    if (svt_av1_dec_init_handle(&h, NULL, &cfg) != EB_ErrorNone)
        return 2;
    cfg.threads      = 1;
    cfg.num_p_frames = 1;
    if (svt_av1_dec_set_parameter(h, &cfg) != EB_ErrorNone || svt_av1_dec_init(h) != EB_ErrorNone)
        return 2;
    EbBufferHeaderType out;
    EbSvtIOFormat      io;
    memset(&out, 0, sizeof(out));
    memset(&io, 0, sizeof(io));
    size_t cap = 4096 * 2304 * 2;
    io.luma = malloc(cap);
    io.cb = malloc(cap / 4);
    io.cr = malloc(cap / 4);
    out.size = sizeof(out);
    out.p_buffer = (uint8_t *)&io;
    int frames = 0, rc = 0;
    for (;;) {
        uint8_t fh[12];
        if (fread(fh, 1, 12, f) != 12)
            break;
        uint32_t sz = fh[0] | fh[1] << 8 | fh[2] << 16 | (uint32_t)fh[3] << 24;
        uint8_t *tu = malloc(sz + 16);
        if (fread(tu, 1, sz, f) != sz)
            break;
        memset(tu + sz, 0, 16);
        EbErrorType r = svt_av1_dec_frame(h, tu, sz, 0);
        free(tu);
        if (r != EB_ErrorNone) {
            rc = (int)r;
            break;
        }
        EbAV1StreamInfo si;
        EbAV1FrameInfo  fi;
        if (svt_av1_dec_get_picture(h, &out, &si, &fi) == EB_ErrorNone) {
            int bd = io.bit_depth > EB_EIGHT_BIT ? (int)io.bit_depth : 8, bps = bd > 8 ? 2 : 1;
            uint32_t w = io.width, hh = io.height, cw = (w + 1) / 2, ch = (hh + 1) / 2;
            if (o) {
                v_write_frame_hdr(o, frames, (int)w, (int)hh, bd, ((size_t)w * hh + 2 * (size_t)cw * ch) * bps);
                for (uint32_t y = 0; y < hh; y++) fwrite(io.luma + (size_t)y * io.y_stride * bps, bps, w, o);
                for (uint32_t y = 0; y < ch; y++) fwrite(io.cb + (size_t)y * io.cb_stride * bps, bps, cw, o);
                for (uint32_t y = 0; y < ch; y++) fwrite(io.cr + (size_t)y * io.cr_stride * bps, bps, cw, o);
            }
            frames++;
        }
    }
    uint64_t c[8] = {0};
    int      have = svt_verif_dec_tool_counts != NULL;
    if (have)
        svt_verif_dec_tool_counts(c);
    if (o)
        fclose(o);
    dprintf(saved,
            "{\"ok\":%d,\"rc\":%d,\"frames\":%d,\"hook\":%d,\"blocks\":%llu,\"palette\":%llu,\"intrabc\":%llu,\"filter_intra\":%llu,"
            "\"cfl\":%llu,\"inter_intra\":%llu,\"obmc\":%llu,\"warped\":%llu}\n",
            rc == 0, rc, frames, have, (unsigned long long)c[0], (unsigned long long)c[1], (unsigned long long)c[2],
            (unsigned long long)c[3], (unsigned long long)c[4], (unsigned long long)c[5], (unsigned long long)c[6],
            (unsigned long long)c[7]);
    svt_av1_dec_deinit(h);
    svt_av1_dec_deinit_handle(h);
    return rc ? 1 : 0;
}
