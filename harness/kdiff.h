/* kdiff - C07 differential harness: every SIMD kernel vs. its C reference (white-box link).
 *
 * Model: a *handler* (KDH(name)) is written as if it performed ONE call of the kernel: it draws its
 * arguments from the case RNG (kr*), allocates buffers (kb*), fills inputs (kfill*), calls the
 * function under test through KFN(k, signature) and records return values (kret).  The framework
 * runs the handler once with the C reference and once per SIMD variant with the *same* case RNG, so
 * the argument tuple is identical, and compares
 *   - payload bytes of every buffer (inputs and outputs) between reference and variant,
 *   - recorded return values,
 *   - junk bytes (guard bands before/after every buffer, and the stride gaps of 2-D buffers): these
 *     are filled with values that DIFFER between the reference run and each variant run and must be
 *     untouched after the call.  A kernel whose result depends on bytes outside the declared input
 *     therefore mismatches, and a kernel that writes outside the declared output is caught.
 * In exact mode (ASan flavour) buffers are individual heap blocks whose end is the end of the
 * declared payload (+ the padding the handler declares as guaranteed by the encoder), so ASan red
 * zones replace the rear guard band.
 */
#ifndef KDIFF_H
#define KDIFF_H
#include <stddef.h>
#include <stdint.h>
#include <string.h>

typedef void (*kd_fn)(void);
typedef struct KdCtx KdCtx;
typedef void (*kd_handler)(KdCtx *k);

typedef struct {
    const char *name;
    kd_fn       fn;
    uint64_t    flag; /* CPU_FLAGS_* needed, 0 for the C reference */
} KdVariant;

typedef struct {
    const char      *ptr;   /* dispatch pointer name */
    const char      *file;  /* common | encoder */
    const char      *hname; /* handler name ("" = uncovered) */
    kd_handler       h;
    int              sig_ok; /* pointer type == handler's signature typedef (compile time) */
    int              p[4];
    const KdVariant *v; /* v[0] = C reference, terminated by name==0 */
} KdEntry;

extern const KdEntry kd_table[];

#define KD_MAXBUF 40
#define KD_MAXRET 96
#define KD_GUARD 128

typedef struct {
    uint8_t *alloc;   /* start of allocation */
    uint8_t *user;    /* pointer handed to the handler */
    size_t   total;   /* bytes allocated */
    size_t   front;   /* bytes before user */
    size_t   size;    /* user bytes (payload + gaps + declared padding) */
    uint8_t *mask;    /* per byte of alloc: 1 payload, 0 junk */
    uint8_t *pre;     /* copy of alloc right before the call (for junk check) */
} KdBuf;

struct KdCtx {
    const KdEntry *e;
    kd_fn          fn;       /* function under test in this run */
    int            run;      /* 0 = reference, 1.. = variant index */
    int            exact;    /* exact-size heap buffers (ASan mode) */
    int            icase;    /* case index */
    int            ncase;    /* total number of cases for this kernel */
    int            mode;     /* fill mode of the case, see kfill */
    uint64_t       rng;      /* case RNG: identical sequence in every run of the case */
    uint64_t       junk;     /* junk RNG: differs per run */
    int            nbuf;
    KdBuf          buf[KD_MAXBUF];
    int            nret;
    uint64_t       ret[KD_MAXRET];
    int            nonconst; /* some input of this case was non-constant */
    int            skip;     /* handler declared the drawn tuple outside the domain */
    int            called;   /* kcall marker reached */
    char           args[1536];
    size_t         argn;
    int            bufseq;   /* index of buffer being filled (phase of alternating patterns) */
    size_t         pad_pre, pad_post; /* kpad(): readable junk inside the next allocation */
    const char    *tag;      /* ktag(): sub-domain label appended to the violation key */
};

#define KDH(name) void kdh_##name(KdCtx *k)
#define KFN(k, sig) ((kds_##sig)(k)->fn)
#define P(i) (k->e->p[i])

/* ---- case RNG (same sequence for reference and variants) */
uint32_t kr(KdCtx *k);
int      kr_range(KdCtx *k, int lo, int hi); /* inclusive */
int      kr_bool(KdCtx *k);
#define KR_PICK(k, arr) ((arr)[kr_range((k), 0, (int)(sizeof(arr) / sizeof((arr)[0])) - 1)])

/* ---- argument log (goes to the replay file) */
void ka(KdCtx *k, const char *name, long long v);

/* ---- buffers.  All sizes in elements of esize bytes.  Returned memory is aligned to `align`
 * (power of two <= 64; 0 = 64).  Payload is zero-initialised unless filled. */
void *kb(KdCtx *k, size_t n, int esize, int align);
/* 2-D buffer: h rows of w payload elements every `stride` elements; gaps are junk. `pre`/`post`:
 * extra payload ELEMENTS before the first row / after the last payload element that the encoder
 * guarantees to be allocated (readable padding); they are payload (same in all runs). Returns the
 * pointer to element (0,0). */
void *kb2(KdCtx *k, int w, int h, int stride, int esize, int align, int pre, int post);
/* The next kb/kb2 allocation gets `pre` / `post` extra BYTES before / after it that belong to the
 * same allocation (also in exact mode) but are junk: readable, different in every run, must not be
 * written.  Models storage the encoder guarantees to exist around the declared region (fixed-size
 * edge arrays, picture padding) whose content the kernel must not depend on. */
void kpad(KdCtx *k, size_t pre_bytes, size_t post_bytes);
/* turn part of an existing buffer into junk (readable, differs per run, must stay untouched) */
void kjunk(KdCtx *k, void *p, size_t bytes);
/* fill n / w x h elements with the pattern selected by the case mode; values in [lo,hi] */
void kfill(KdCtx *k, void *p, size_t n, int esize, long long lo, long long hi);
void kfill2(KdCtx *k, void *p, int w, int h, int stride, int esize, long long lo, long long hi);
/* always-random fill (for data such as masks/coefficients where patterns make no sense) */
void kfill_rand(KdCtx *k, void *p, size_t n, int esize, long long lo, long long hi);
/* output pre-fill: payload gets a fixed recognisable value (same in all runs) */
void kprefill2(KdCtx *k, void *p, int w, int h, int stride, int esize);
/* mark [p, p+bytes) as don't-care for the comparison (zeroed after the call) */
void kdontcare(KdCtx *k, void *p, size_t bytes);

void kret(KdCtx *k, uint64_t v);
static inline void kret_d(KdCtx *k, double d) {
    uint64_t u;
    memcpy(&u, &d, 8);
    kret(k, u);
}
/* label the sub-domain of this case; a mismatch is then keyed C07|mismatch|<fn>|<tag>, so that a known
 * finding confined to a corner of the domain does not hide other mismatches of the same kernel */
static inline void ktag(KdCtx *k, const char *tag) { k->tag = tag; }
/* tuple is outside the domain: the case is dropped (counted) */
static inline void kskip(KdCtx *k) { k->skip = 1; }
/* to be invoked immediately before the call of the kernel (snapshots junk) */
void kcall(KdCtx *k);

/* stride chooser: width, width+odd, large (multiple of `mult` when the kernel needs it) */
int kstride(KdCtx *k, int w, int mult);

/* block sizes of AV1 (w,h) */
extern const int kd_bsizes[22][2];

#endif
