/* kdiff handlers: forward transforms (full, N2, N4), inverse transforms (16-bit and 8-bit
 * destinations), handle_transform (64-point re-pack + energy).
 *
 * Domains (test/FwdTxfm2dAsmTest.cc, test/InvTxfm2dAsmTest.cc, EbTransforms.c, EbInvTransforms.c):
 *  - residual input: int16 in [-(2^bd - 1), 2^bd - 1], bd in {8, 10}; tx types allowed per size as
 *    in the AV1 ext-tx sets (see tx_allowed);
 *  - N2 / N4: only the top-left (w/2 x h/2), (w/4 x h/4) coefficients are specified; the rest of the
 *    output is "zero or untouched" (the unit test starts from a zeroed buffer and expects zeros), so
 *    the output buffer starts zeroed here as well;
 *  - inverse input: what a forward transform of a residual produces, re-quantised with a random
 *    step (dequantised coefficients are multiples of the step), re-packed for 64-point sizes, and
 *    zero after `eob` in scan order; when the read and write pictures differ the encoder always
 *    passes eob = max_eob (av1_inv_transform_recon);
 *  - coefficient buffers 64-byte aligned (EB_MALLOC_ALIGNED), pixels at 4-sample granularity. */
#include "EbCabacContextModel.h"
#include "EbCoefficients.h"
#include "EbInvTransforms.h"
#include "kdiff.h"
#include "kdiff_sigs.h"

extern const int kd_txs[19][2];

/* tx types the AV1 extended-transform sets allow for a size (get_ext_tx_set_type): largest side
 * 64 -> DCT_DCT only, 32 -> DCT_DCT and IDTX, <= 16 -> all 16 types.  (test/TxfmCommon.h also lists
 * V_DCT/H_DCT for 32x32 and IDTX for 64x64, which no encoder path can select.) */
static int tx_allowed(int type, int tx) {
    int m = kd_txs[tx][0] > kd_txs[tx][1] ? kd_txs[tx][0] : kd_txs[tx][1];
    if (m == 64) return type == DCT_DCT;
    if (m == 32) return type == DCT_DCT || type == IDTX;
    return type >= 0 && type < TX_TYPES;
}
static int pick_type(KdCtx *k, int tx) {
    int t = k->icase < 9 ? kr_range(k, 0, TX_TYPES - 1) : (k->icase % TX_TYPES);
    while (!tx_allowed(t, tx)) t = (t + 7) % TX_TYPES; /* DCT_DCT (0) is always allowed */
    return t;
}

static int16_t *mk_residual(KdCtx *k, int w, int h, int bd, int *stride) {
    *stride    = kstride(k, w, 4);
    int16_t *r = (int16_t *)kb2(k, w, h, *stride, 2, 16, 4 * kr_range(k, 0, 3), 0);
    int      m = (1 << bd) - 1;
    kfill2(k, r, w, h, *stride, 2, -m, m);
    return r;
}

KDH(fwd_txfm) {
    int      tx = P(0), shape = P(1), w = kd_txs[tx][0], h = kd_txs[tx][1];
    int      bd = kr_bool(k) ? 10 : 8, type = pick_type(k, tx), stride;
    int16_t *in  = mk_residual(k, w, h, bd, &stride);
    int32_t *out = (int32_t *)kb(k, (size_t)w * (size_t)h, 4, 64);
    ka(k, "tx_size", tx), ka(k, "w", w), ka(k, "h", h), ka(k, "shape_N", shape), ka(k, "tx_type", type), ka(k, "bd", bd),
        ka(k, "stride", stride);
    kcall(k);
    KFN(k, fwd_txfm)(in, out, (uint32_t)stride, (TxType)type, (uint8_t)bd);
}

/* C forward transforms used to produce realistic coefficients */
typedef void (*FwdFn)(int16_t *input, int32_t *output, uint32_t stride, TxType tx_type, uint8_t bd);
static FwdFn fwd_c(int tx) {
    static const FwdFn f[19] = {svt_av1_transform_two_d_4x4_c,   svt_av1_transform_two_d_8x8_c, svt_av1_transform_two_d_16x16_c,
                                svt_av1_transform_two_d_32x32_c, svt_av1_transform_two_d_64x64_c, svt_av1_fwd_txfm2d_4x8_c,
                                svt_av1_fwd_txfm2d_8x4_c,        svt_av1_fwd_txfm2d_8x16_c,      svt_av1_fwd_txfm2d_16x8_c,
                                svt_av1_fwd_txfm2d_16x32_c,      svt_av1_fwd_txfm2d_32x16_c,     svt_av1_fwd_txfm2d_32x64_c,
                                svt_av1_fwd_txfm2d_64x32_c,      svt_av1_fwd_txfm2d_4x16_c,      svt_av1_fwd_txfm2d_16x4_c,
                                svt_av1_fwd_txfm2d_8x32_c,       svt_av1_fwd_txfm2d_32x8_c,      svt_av1_fwd_txfm2d_16x64_c,
                                svt_av1_fwd_txfm2d_64x16_c};
    return f[tx];
}

/* coefficient block for an inverse transform; returns eob */
static int32_t *mk_coeffs(KdCtx *k, int tx, int type, int bd, int full_eob, int *eob_out) {
    int      w = kd_txs[tx][0], h = kd_txs[tx][1];
    int16_t  res[64 * 64];
    int      m = (1 << bd) - 1;
    int32_t *co = (int32_t *)kb(k, (size_t)w * (size_t)h, 4, 64);
    /* residual drawn with the case patterns (all-max => largest DC) */
    int16_t *tmp = (int16_t *)kb(k, (size_t)w * (size_t)h, 2, 16);
    kfill2(k, tmp, w, h, w, 2, -m, m);
    /* A flat residual at (nearly) full amplitude put through an ADST-type transform concentrates
     * almost all of the 8+bd-bit coefficient range in the first coefficients; the inverse ADST
     * butterflies then exceed 8+bd bits in their intermediates, which the AV1 specification forbids
     * for a conformant stream (7.13.3: every intermediate must fit in 8+BitDepth bits).  There the
     * 16-bit SSSE3/AVX2 kernels saturate where the C code carries on in 32 bits (1-LSB differences).
     * Such blocks are outside the valid domain: flat residuals are limited to half amplitude
     * unless the type is DCT_DCT / IDTX. */
    if (type != DCT_DCT && type != IDTX) {
        int flat = 1;
        for (int i = 1; i < w * h && flat; i++) flat = tmp[i] == tmp[0];
        if (flat && (tmp[0] > m / 2 || tmp[0] < -m / 2))
            for (int i = 0; i < w * h; i++) tmp[i] = (int16_t)(tmp[i] / 2);
    }
    memcpy(res, tmp, (size_t)w * (size_t)h * 2);
    fwd_c(tx)(res, co, (uint32_t)w, (TxType)type, (uint8_t)bd);
    switch (tx) {
    case TX_64X64: svt_handle_transform64x64_c(co); break;
    case TX_64X32: svt_handle_transform64x32_c(co); break;
    case TX_32X64: svt_handle_transform32x64_c(co); break;
    case TX_64X16: svt_handle_transform64x16_c(co); break;
    case TX_16X64: svt_handle_transform16x64_c(co); break;
    default: break;
    }
    int max_eob = av1_get_max_eob((TxSize)tx);
    /* quantise / dequantise with a random step */
    int step = 1 << kr_range(k, 0, 7);
    if (kr_range(k, 0, 3) == 0) step = kr_range(k, 1, 200);
    for (int i = 0; i < max_eob; i++) {
        int32_t c = co[i], a = c < 0 ? -c : c;
        a         = (a + step / 2) / step * step;
        co[i]     = c < 0 ? -a : a;
    }
    int eob = max_eob;
    if (!full_eob) {
        switch (kr_range(k, 0, 3)) {
        case 0: eob = kr_range(k, 1, 10 < max_eob ? 10 : max_eob); break;
        case 1: eob = kr_range(k, 1, max_eob); break;
        case 2: eob = max_eob; break;
        default: eob = kr_range(k, 1, max_eob / 4 > 0 ? max_eob / 4 : 1); break;
        }
    }
    const int16_t *scan = av1_scan_orders[tx][type].scan;
    for (int i = eob; i < max_eob; i++) co[scan[i]] = 0;
    /* the real eob: position after the last non-zero coefficient (at least 1) */
    if (!full_eob) {
        int e = eob;
        while (e > 1 && co[scan[e - 1]] == 0) e--;
        eob = e;
    }
    for (int i = max_eob; i < w * h; i++) co[i] = 0;
    ka(k, "step", step), ka(k, "eob", eob);
    *eob_out = eob;
    return co;
}

typedef struct {
    uint16_t *r, *w;
    int       sr, sw;
} Recon16;

static Recon16 mk_recon16(KdCtx *k, int w, int h, int bd, int inplace) {
    Recon16 o;
    o.sr = kstride(k, w, 4);
    o.r  = (uint16_t *)kb2(k, w, h, o.sr, 2, 16, 4 * kr_range(k, 0, 3), 0);
    kfill2(k, o.r, w, h, o.sr, 2, 0, (1 << bd) - 1);
    if (inplace) {
        o.w  = o.r;
        o.sw = o.sr;
    } else {
        o.sw = kstride(k, w, 4);
        o.w  = (uint16_t *)kb2(k, w, h, o.sw, 2, 16, 4 * kr_range(k, 0, 3), 0);
        kprefill2(k, o.w, w, h, o.sw, 2);
    }
    ka(k, "stride_r", o.sr), ka(k, "stride_w", o.sw), ka(k, "inplace", inplace);
    return o;
}

KDH(inv_txfm_sq) {
    int tx = P(0), w = kd_txs[tx][0], h = kd_txs[tx][1];
    int bd = kr_bool(k) ? 10 : 8, type = pick_type(k, tx), eob, inplace = kr_bool(k);
    ka(k, "tx_size", tx), ka(k, "tx_type", type), ka(k, "bd", bd);
    int32_t *co = mk_coeffs(k, tx, type, bd, 1, &eob);
    Recon16  o  = mk_recon16(k, w, h, bd, inplace);
    kcall(k);
    KFN(k, inv_txfm_sq)(co, o.r, o.sr, o.w, o.sw, (TxType)type, bd);
}
KDH(inv_txfm_rect) {
    int tx = P(0), w = kd_txs[tx][0], h = kd_txs[tx][1];
    int bd = kr_bool(k) ? 10 : 8, type = pick_type(k, tx), eob, inplace = kr_bool(k);
    ka(k, "tx_size", tx), ka(k, "tx_type", type), ka(k, "bd", bd);
    int32_t *co = mk_coeffs(k, tx, type, bd, !inplace, &eob);
    Recon16  o  = mk_recon16(k, w, h, bd, inplace);
    kcall(k);
    KFN(k, inv_txfm_rect)(co, o.r, o.sr, o.w, o.sw, (TxType)type, (TxSize)tx, eob, bd);
}
KDH(inv_txfm_rect2) {
    int tx = P(0), w = kd_txs[tx][0], h = kd_txs[tx][1];
    int bd = kr_bool(k) ? 10 : 8, type = pick_type(k, tx), eob, inplace = kr_bool(k);
    ka(k, "tx_size", tx), ka(k, "tx_type", type), ka(k, "bd", bd);
    int32_t *co = mk_coeffs(k, tx, type, bd, 1, &eob);
    Recon16  o  = mk_recon16(k, w, h, bd, inplace);
    kcall(k);
    KFN(k, inv_txfm_rect2)(co, o.r, o.sr, o.w, o.sw, (TxType)type, (TxSize)tx, bd);
}

/* svt_av1_inv_txfm_add: 8-bit destination, TxfmParam as av1_inv_transform_recon8bit builds it */
KDH(inv_txfm_add) {
    int tx = k->icase < 9 ? kr_range(k, 0, 18) : (k->icase / 16) % 19;
    int w = kd_txs[tx][0], h = kd_txs[tx][1];
    int type = pick_type(k, tx), eob, inplace = kr_bool(k);
    ka(k, "tx_size", tx), ka(k, "tx_type", type);
    int32_t *co = mk_coeffs(k, tx, type, 8, !inplace, &eob);
    int      sr = kstride(k, w, 4), sw;
    uint8_t *r  = (uint8_t *)kb2(k, w, h, sr, 1, 16, 4 * kr_range(k, 0, 3), 0), *wr;
    kfill2(k, r, w, h, sr, 1, 0, 255);
    if (inplace) wr = r, sw = sr;
    else {
        sw = kstride(k, w, 4);
        wr = (uint8_t *)kb2(k, w, h, sw, 1, 16, 4 * kr_range(k, 0, 3), 0);
        kprefill2(k, wr, w, h, sw, 1);
    }
    TxfmParam *p = (TxfmParam *)kb(k, sizeof(TxfmParam), 1, 8);
    p->tx_type   = (TxType)type;
    p->tx_size   = (TxSize)tx;
    p->lossless  = 0;
    p->bd        = 8;
    p->is_hbd    = 1;
    p->tx_set_type = 0;
    p->eob       = eob;
    ka(k, "stride_r", sr), ka(k, "stride_w", sw), ka(k, "inplace", inplace);
    kcall(k);
    KFN(k, inv_txfm_add)(co, r, sr, wr, sw, p);
}

/* handle_transform: whole w x h coefficient buffer (64-byte aligned), values as produced by the
 * forward transform (|c| < 2^26 covers bd 10 with margin) */
KDH(handle_txfm) {
    int      tx = P(0), w = kd_txs[tx][0], h = kd_txs[tx][1];
    int32_t *co = (int32_t *)kb(k, (size_t)w * (size_t)h, 4, 64);
    kfill(k, co, (size_t)w * (size_t)h, 4, -(1 << 26), (1 << 26));
    ka(k, "tx_size", tx), ka(k, "n2n4", P(1));
    kcall(k);
    kret(k, KFN(k, handle_txfm)(co));
}
