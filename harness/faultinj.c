/* faultinj (C16): fail exactly the k-th memory allocation / OS-object creation performed by the API-calling
 * thread while a session is created, configured and initialised, then tear the session down the way the sample
 * application does (if a handle exists: deinit + deinit_handle) and report what happened.
 *
 * Linked WHITE-BOX against the object files of the library with
 *   -Wl,--wrap=malloc,--wrap=calloc,--wrap=realloc,--wrap=posix_memalign,--wrap=pthread_create,
 *       --wrap=sem_init,--wrap=pthread_mutex_init
 * so the library's own EB_MALLOC* / EB_CREATE_* macros run unmodified and only the primitive they call fails.
 * Compile with -DFI_DEC for the decoder variant (built as a second executable: the two archives share objects).
 *
 * usage: faultinj <out-prefix> sites [opts]           run 0: count + record every event with its call stack
 *        faultinj <out-prefix> run <listfile> [opts]  one forked child per k read from <listfile> (one k per line,
 *                                                     ascending).  A "trunk" process runs the unfaulted session once and,
 *                                                     while it is still single-threaded, forks a child right before
 *                                                     each listed event; the child fails that event and carries on to
 *                                                     teardown (cost per k independent of k).  Events after the first
 *                                                     thread creation are replayed from the start in a fresh child
 *                                                     (trunk=0 forces replay for every k: used to cross-check).
 * opts : key=value ...   w,h,lp,preset,hl (encoder) | ivf=<file> threads=N (decoder) | quiesce_ms, hard_s, cpu_s, gdb=0|1
 *        (hard_timeout in the result: 1 = wall-clock limit, 2 = CPU-time limit cpu_s exceeded)
 *
 * Events are numbered 1.. over the whole session in the order the API-calling thread performs them; only that
 * thread is counted (kernel threads start during init and allocate on their own), only while an API call of the
 * phases below is in progress:
 *   encoder: 0 svt_av1_enc_init_handle  1 svt_av1_enc_set_parameter  2 svt_av1_enc_init
 *   decoder: 0 svt_av1_dec_init_handle  1 svt_av1_dec_set_parameter  2 svt_av1_dec_init  3 first svt_av1_dec_frame
 * kinds: 0 malloc 1 calloc 2 realloc 3 posix_memalign 4 pthread_create 5 sem_init 6 pthread_mutex_init
 *
 * <out>.sites   (run 0)  `<idx> <phase> <kind> <ret0> <ret1> ... ` return addresses, innermost first (link -no-pie)
 * <out>.results (run)    one JSON line per k (see emit_result)
 * <out>.k<k>.err         stderr of the child of k (sanitizer reports); removed when empty
 * <out>.k<k>.gdb         thread backtraces when the child was found dead-locked
 */
#include "vcommon.h"
#include <dirent.h>
#include <errno.h>
#include <execinfo.h>
#include <fcntl.h>
#include <pthread.h>
#include <semaphore.h>
#include <signal.h>
#include <sys/stat.h>
#include <sys/wait.h>
#include <sys/resource.h>
#ifdef FI_DEC
#include "EbSvtAv1Dec.h"
#else
#include "EbSvtAv1Enc.h"
#endif
#include "EbSvtAv1ErrorCodes.h"

#if defined(__has_feature)
#if __has_feature(address_sanitizer)
#define V_ASAN 1
#endif
#endif
#ifdef V_ASAN
int    __lsan_do_recoverable_leak_check(void);
size_t __sanitizer_get_current_allocated_bytes(void);
#endif
extern int64_t svt_verif_live_entries(int type) __attribute__((weak));

/* ------------------------------------------------------------ the wrapped primitives */
void *__real_malloc(size_t);
void *__real_calloc(size_t, size_t);
void *__real_realloc(void *, size_t);
int   __real_posix_memalign(void **, size_t, size_t);
int   __real_pthread_create(pthread_t *, const pthread_attr_t *, void *(*)(void *), void *);
int   __real_sem_init(sem_t *, int, unsigned);
int   __real_pthread_mutex_init(pthread_mutex_t *, const pthread_mutexattr_t *);

enum { K_MALLOC, K_CALLOC, K_REALLOC, K_MEMALIGN, K_THREAD, K_SEM, K_MUTEX, K_N };

static volatile int g_armed; /* an API call of a counted phase is in progress */
static pthread_t    g_thr; /* the API-calling thread */
static int          g_phase;
static long         g_count; /* events so far */
static long         g_fail_at = -1;
static int          g_hit_phase = -1, g_hit_kind = -1;
static long         g_per_phase[8], g_per_kind[K_N];
static FILE *       g_sites; /* run 0 only */
static __thread int g_inwrap;
/* trunk mode */
static int         g_is_trunk, g_mt; /* g_mt: a library thread exists, forking is no longer sound */
static long *      g_ks;
static int         g_nks, g_kpos;
static const char *g_out;
static FILE *      g_fres;
static int         trunk_fork(long idx);

#define MAXFR 10
static int fi_event(int kind) {
    if (!g_armed || g_inwrap || !pthread_equal(pthread_self(), g_thr))
        return 0;
    g_inwrap = 1;
    long idx = ++g_count;
    g_per_phase[g_phase & 7]++;
    g_per_kind[kind]++;
    if (g_sites) {
        void *fr[MAXFR + 2];
        int   n = backtrace(fr, MAXFR + 2);
        fprintf(g_sites, "%ld %d %d", idx, g_phase, kind);
        for (int i = 1; i < n; i++) /* 0 = fi_event; the reader drops the __wrap_xxx frame (fi_event may be inlined) */
            fprintf(g_sites, " %lx", (unsigned long)fr[i]);
        fputc('\n', g_sites);
    }
    int fail = (idx == g_fail_at);
    if (g_is_trunk && !g_mt) {
        while (g_kpos < g_nks && g_ks[g_kpos] < idx) g_kpos++;
        if (g_kpos < g_nks && g_ks[g_kpos] == idx) {
            g_kpos++;
            if (trunk_fork(idx)) /* we are the child: this very event fails */
                fail = 1;
        }
    }
    if (fail) {
        g_hit_phase = g_phase;
        g_hit_kind  = kind;
    }
    g_inwrap = 0;
    return fail;
}

void *__wrap_malloc(size_t n) {
    if (fi_event(K_MALLOC)) {
        errno = ENOMEM;
        return NULL;
    }
    return __real_malloc(n);
}
void *__wrap_calloc(size_t a, size_t b) {
    if (fi_event(K_CALLOC)) {
        errno = ENOMEM;
        return NULL;
    }
    return __real_calloc(a, b);
}
void *__wrap_realloc(void *p, size_t n) {
    if (fi_event(K_REALLOC)) {
        errno = ENOMEM;
        return NULL;
    }
    return __real_realloc(p, n);
}
int __wrap_posix_memalign(void **p, size_t al, size_t n) {
    if (fi_event(K_MEMALIGN))
        return ENOMEM; /* POSIX: *p is left unmodified */
    return __real_posix_memalign(p, al, n);
}
int __wrap_pthread_create(pthread_t *t, const pthread_attr_t *a, void *(*fn)(void *), void *arg) {
    if (fi_event(K_THREAD))
        return EAGAIN;
    int r = __real_pthread_create(t, a, fn, arg);
    if (r == 0 && g_is_trunk)
        g_mt = 1;
    return r;
}
int __wrap_sem_init(sem_t *s, int sh, unsigned v) {
    if (fi_event(K_SEM)) {
        /* the object is left in the state a static initialiser would give it so that what is observed is only the
         * library's reaction to the error code, not the behaviour of an indeterminate semaphore */
        __real_sem_init(s, sh, v);
        errno = ENOSPC;
        return -1;
    }
    return __real_sem_init(s, sh, v);
}
int __wrap_pthread_mutex_init(pthread_mutex_t *m, const pthread_mutexattr_t *a) {
    if (fi_event(K_MUTEX)) {
        __real_pthread_mutex_init(m, a); /* see sem_init above */
        return ENOMEM;
    }
    return __real_pthread_mutex_init(m, a);
}

#define ARM(ph)              \
    do {                     \
        g_phase = (ph);      \
        g_armed = 1;         \
    } while (0)
#define DISARM() (g_armed = 0)

/* ------------------------------------------------------------ options */
static int         o_w = 64, o_h = 64, o_lp = 1, o_preset = 8, o_hl = 3, o_threads = 2, o_gdb = 1, o_frames = 1, o_trunk = 1, o_lsan_always = 0;
static long        o_quiesce_ms = 5000, o_hard_s = 300, o_cpu_s = 90;
static const char *o_ivf;
static uint8_t *   g_ivf;
static size_t      g_ivf_len;

static void parse_opts(int argc, char **argv, int from) {
    for (int i = from; i < argc; i++) {
        char *eq = strchr(argv[i], '=');
        if (!eq)
            continue;
        const char *v = eq + 1;
        size_t      n = (size_t)(eq - argv[i]);
#define OPT(name, var, conv) \
    if (n == strlen(name) && !strncmp(argv[i], name, n)) var = conv
        OPT("w", o_w, atoi(v));
        OPT("h", o_h, atoi(v));
        OPT("lp", o_lp, atoi(v));
        OPT("preset", o_preset, atoi(v));
        OPT("hl", o_hl, atoi(v));
        OPT("threads", o_threads, atoi(v));
        OPT("frames", o_frames, atoi(v));
        OPT("gdb", o_gdb, atoi(v));
        OPT("trunk", o_trunk, atoi(v));
        OPT("lsan_always", o_lsan_always, atoi(v));
        OPT("quiesce_ms", o_quiesce_ms, atol(v));
        OPT("hard_s", o_hard_s, atol(v));
        OPT("cpu_s", o_cpu_s, atol(v));
        OPT("ivf", o_ivf, v);
    }
}

static int count_threads(void) {
    DIR *d = opendir("/proc/self/task");
    if (!d)
        return -1;
    int            n = 0;
    struct dirent *e;
    while ((e = readdir(d)))
        if (e->d_name[0] != '.')
            n++;
    closedir(d);
    return n;
}

/* ------------------------------------------------------------ one session (runs in a forked child) */
static int g_rfd = -1; /* progress pipe to the parent */
static void prog(const char *fmt, ...) __attribute__((format(printf, 1, 2)));
#include <stdarg.h>
static char   g_progbuf[2048]; /* everything reported so far (a child forked off the trunk replays it to its pipe) */
static size_t g_proglen;
static void prog(const char *fmt, ...) {
    char    b[256];
    va_list ap;
    va_start(ap, fmt);
    int n = vsnprintf(b, sizeof(b), fmt, ap);
    va_end(ap);
    if (n <= 0)
        return;
    if (g_proglen + (size_t)n < sizeof(g_progbuf)) {
        memcpy(g_progbuf + g_proglen, b, (size_t)n);
        g_proglen += (size_t)n;
    }
    if (g_rfd >= 0)
        if (write(g_rfd, b, (size_t)n) < 0) {}
}

static void session(void) {
    g_thr = pthread_self();
    int threads0 = count_threads();
#ifdef V_ASAN
    size_t heap0 = __sanitizer_get_current_allocated_bytes(); /* exact: live malloc'ed bytes */
#endif
#ifndef FI_DEC
    EbSvtAv1EncConfiguration cfg;
    EbComponentType *        h = NULL;
    memset(&cfg, 0, sizeof(cfg));
    ARM(0);
    EbErrorType rc = svt_av1_enc_init_handle(&h, NULL, &cfg);
    DISARM();
    prog("rc0=%u h=%d;", (unsigned)rc, h != NULL);
    if (rc != EB_ErrorNone || !h)
        goto teardown;
    cfg.source_width        = (uint32_t)o_w;
    cfg.source_height       = (uint32_t)o_h;
    cfg.encoder_bit_depth   = 8;
    cfg.enc_mode            = (int8_t)o_preset;
    cfg.logical_processors  = (uint32_t)o_lp;
    cfg.intra_period_length = -1;
    cfg.hierarchical_levels = (uint32_t)o_hl;
    ARM(1);
    rc = svt_av1_enc_set_parameter(h, &cfg);
    DISARM();
    prog("rc1=%u;", (unsigned)rc);
    if (rc != EB_ErrorNone)
        goto teardown;
    ARM(2);
    rc = svt_av1_enc_init(h);
    DISARM();
    prog("rc2=%u;", (unsigned)rc);
teardown:
    prog("hit=%d kind=%d count=%ld;", g_hit_phase, g_hit_kind, g_count);
    if (h) {
        prog("Cdeinit;");
        rc = svt_av1_enc_deinit(h);
        prog("Rdeinit=%u;", (unsigned)rc);
        prog("Cdeinit_handle;");
        rc = svt_av1_enc_deinit_handle(h);
        prog("Rdeinit_handle=%u;", (unsigned)rc);
    }
#else
    EbSvtAv1DecConfiguration cfg;
    EbComponentType *        h = NULL;
    memset(&cfg, 0, sizeof(cfg));
    ARM(0);
    EbErrorType rc = svt_av1_dec_init_handle(&h, NULL, &cfg);
    DISARM();
    prog("rc0=%u h=%d;", (unsigned)rc, h != NULL);
    if (rc != EB_ErrorNone || !h)
        goto teardown;
    cfg.threads = (uint32_t)o_threads;
    ARM(1);
    rc = svt_av1_dec_set_parameter(h, &cfg);
    DISARM();
    prog("rc1=%u;", (unsigned)rc);
    if (rc != EB_ErrorNone)
        goto teardown;
    ARM(2);
    rc = svt_av1_dec_init(h);
    DISARM();
    prog("rc2=%u;", (unsigned)rc);
    if (rc != EB_ErrorNone)
        goto teardown;
    {
        /* temporal units of the IVF: the first one is the counted phase 3, the others are fed uncounted so that a
         * failure that was swallowed shows up as a crash rather than going unnoticed */
        size_t pos = 32;
        for (int f = 0; f < o_frames && pos + 12 <= g_ivf_len; f++) {
            uint32_t sz = (uint32_t)g_ivf[pos] | ((uint32_t)g_ivf[pos + 1] << 8) | ((uint32_t)g_ivf[pos + 2] << 16) |
                ((uint32_t)g_ivf[pos + 3] << 24);
            pos += 12;
            if (pos + sz > g_ivf_len)
                break;
            /* slack behind the data (SvtAv1DecApp's read buffer has it): keeps the bit reader's known prefetch
             * over-read (C08/C10 finding) out of this property's reports */
            uint8_t *buf = (uint8_t *)__real_calloc(1, (size_t)sz + 64);
            memcpy(buf, g_ivf + pos, sz);
            pos += sz;
            if (f == 0)
                ARM(3);
            rc = svt_av1_dec_frame(h, buf, sz, 0);
            DISARM();
            free(buf);
            prog("rc%d=%u;", 3 + f, (unsigned)rc);
            if (rc != EB_ErrorNone)
                break;
        }
    }
teardown:
    prog("hit=%d kind=%d count=%ld;", g_hit_phase, g_hit_kind, g_count);
    if (h) {
        prog("Cdeinit;");
        rc = svt_av1_dec_deinit(h);
        prog("Rdeinit=%u;", (unsigned)rc);
        prog("Cdeinit_handle;");
        rc = svt_av1_dec_deinit_handle(h);
        prog("Rdeinit_handle=%u;", (unsigned)rc);
    }
#endif
    /* give exiting threads a moment to leave /proc */
    int th = count_threads();
    for (int i = 0; i < 400 && th > threads0; i++) {
        usleep(1000);
        th = count_threads();
    }
    prog("threads=%d/%d;", threads0, th);
    if (svt_verif_live_entries)
        prog("live=%lld,%lld,%lld,%lld;", (long long)svt_verif_live_entries(0), (long long)svt_verif_live_entries(3),
             (long long)svt_verif_live_entries(4), (long long)svt_verif_live_entries(5));
    for (int p = 0; p < 4; p++) prog("n%d=%ld;", p, g_per_phase[p]);
    for (int k = 0; k < K_N; k++) prog("k%d=%ld;", k, g_per_kind[k]);
#ifdef V_ASAN
    {
        /* LeakSanitizer costs more than the whole session; it can only find something if more bytes are live now
         * than before the session, so it is run (for the allocation stacks) only then */
        size_t heap1 = __sanitizer_get_current_allocated_bytes();
        prog("heap=%zu/%zu;", heap0, heap1);
        if (heap1 > heap0 || o_lsan_always)
            prog("lsan=%d;", __lsan_do_recoverable_leak_check());
        else
            prog("lsan=0;");
    }
#endif
    prog("done;");
}

/* ------------------------------------------------------------ parent: watch a child */
typedef struct {
    unsigned long sw; /* sum of context switches of all threads */
    int           nthreads, all_sleeping;
} Snap;

static void snap(pid_t pid, Snap *s) {
    char path[128];
    s->sw           = 0;
    s->nthreads     = 0;
    s->all_sleeping = 1;
    snprintf(path, sizeof(path), "/proc/%d/task", (int)pid);
    DIR *d = opendir(path);
    if (!d) {
        s->all_sleeping = 0;
        return;
    }
    struct dirent *e;
    while ((e = readdir(d))) {
        if (e->d_name[0] == '.')
            continue;
        char p2[320], line[256];
        snprintf(p2, sizeof(p2), "/proc/%d/task/%s/status", (int)pid, e->d_name);
        FILE *f = fopen(p2, "r");
        if (!f) {
            s->all_sleeping = 0;
            continue;
        }
        s->nthreads++;
        while (fgets(line, sizeof(line), f)) {
            if (!strncmp(line, "State:", 6)) {
                const char *q = line + 6;
                while (*q == ' ' || *q == '\t') q++;
                if (*q != 'S')
                    s->all_sleeping = 0;
            } else if (!strncmp(line, "voluntary_ctxt_switches:", 24))
                s->sw += strtoul(line + 24, NULL, 10);
            else if (!strncmp(line, "nonvoluntary_ctxt_switches:", 27))
                s->sw += strtoul(line + 27, NULL, 10);
        }
        fclose(f);
    }
    closedir(d);
}

/* CPU seconds (user + system, all threads) the process has consumed */
static long cpu_seconds(pid_t pid) {
    char path[64], buf[1024];
    snprintf(path, sizeof(path), "/proc/%d/stat", (int)pid);
    FILE *f = fopen(path, "r");
    if (!f)
        return 0;
    size_t n = fread(buf, 1, sizeof(buf) - 1, f);
    fclose(f);
    buf[n]  = 0;
    char *p = strrchr(buf, ')'); /* comm may contain spaces */
    if (!p)
        return 0;
    unsigned long ut = 0, st = 0;
    /* after ')': state ppid pgrp session tty tpgid flags minflt cminflt majflt cmajflt utime stime */
    if (sscanf(p + 1, " %*c %*d %*d %*d %*d %*d %*u %*u %*u %*u %*u %lu %lu", &ut, &st) != 2)
        return 0;
    long hz = sysconf(_SC_CLK_TCK);
    return (long)((ut + st) / (unsigned long)(hz > 0 ? hz : 100));
}

/* children of the child (LSan's tracer, the symbolizer) mean it is busy, not dead-locked */
static int has_children(pid_t pid) {
    char path[128], buf[64];
    snprintf(path, sizeof(path), "/proc/%d/task/%d/children", (int)pid, (int)pid);
    FILE *f = fopen(path, "r");
    if (!f)
        return 0;
    int any = fgets(buf, sizeof(buf), f) != NULL && buf[0] > ' ';
    fclose(f);
    return any;
}

static void json_str(FILE *f, const char *s) {
    fputc('"', f);
    for (; *s; s++) {
        if (*s == '"' || *s == '\\')
            fputc('\\', f);
        if ((unsigned char)*s >= 32)
            fputc(*s, f);
    }
    fputc('"', f);
}

/* watch child `pid` (progress pipe read end `rfd`) until it exits, dead-locks or exceeds the hard limit; write its
 * result line */
static void supervise(const char *out, long k, FILE *fres, pid_t pid, int rfd, uint64_t t0, const char *errp, int trunk) {
    fcntl(rfd, F_SETFL, O_NONBLOCK);
    char   pbuf[4096];
    size_t plen = 0;
    int    st = 0, exited = 0, hang = 0, hard = 0;
    struct rusage ru;
    memset(&ru, 0, sizeof(ru));
    Snap   prev = {0, 0, 0};
    long   same_ms = 0, tick = 0;
    for (;;) {
        ssize_t r;
        while (plen < sizeof(pbuf) - 1 && (r = read(rfd, pbuf + plen, sizeof(pbuf) - 1 - plen)) > 0) plen += (size_t)r;
        pid_t w = wait4(pid, &st, WNOHANG, &ru);
        if (w == pid) {
            exited = 1;
            break;
        }
        usleep(1000);
        tick += 1;
        if (tick % 250 == 0) {
            Snap s;
            snap(pid, &s);
            if (s.all_sleeping && s.nthreads > 0 && s.nthreads == prev.nthreads && s.sw == prev.sw && !has_children(pid))
                same_ms += 250;
            else
                same_ms = 0;
            prev = s;
            if (same_ms >= o_quiesce_ms) {
                hang = 1;
                break;
            }
            /* a session needs well under a second of CPU: one that has burnt cpu_s seconds is spinning (the
             * decoder synchronises its threads by busy-waiting on flags), not progressing slowly */
            if (o_cpu_s > 0 && cpu_seconds(pid) > o_cpu_s) {
                hard = 2;
                break;
            }
        }
        if ((long)((v_now_us() - t0) / 1000000) > o_hard_s) {
            hard = 1;
            break;
        }
    }
    if (!exited) {
        if ((hang || hard) && o_gdb) { /* where it is parked, or where it spins */
            char cmd[2048];
            snprintf(cmd, sizeof(cmd),
                     "timeout 120 gdb -p %d -batch -ex 'thread apply all bt 14' > %s.k%ld.gdb 2>/dev/null < /dev/null", (int)pid,
                     out, k);
            if (system(cmd)) {}
        }
        kill(-pid, SIGKILL);
        kill(pid, SIGKILL);
        wait4(pid, &st, 0, &ru);
    }
    ssize_t r;
    while (plen < sizeof(pbuf) - 1 && (r = read(rfd, pbuf + plen, sizeof(pbuf) - 1 - plen)) > 0) plen += (size_t)r;
    pbuf[plen] = 0;
    close(rfd);
    struct stat sb;
    long        errsz = 0;
    if (stat(errp, &sb) == 0) {
        errsz = (long)sb.st_size;
        if (errsz == 0)
            unlink(errp);
    }
    fprintf(fres,
            "{\"k\":%ld,\"exited\":%d,\"status\":%d,\"signal\":%d,\"hang\":%d,\"hard_timeout\":%d,\"errsize\":%ld,\"ms\":%ld,"
            "\"trunk\":%d,\"cpu_ms\":%ld,\"progress\":",
            k, exited && WIFEXITED(st), exited && WIFEXITED(st) ? WEXITSTATUS(st) : -1,
            exited && WIFSIGNALED(st) ? WTERMSIG(st) : 0, hang, hard, errsz, (long)((v_now_us() - t0) / 1000), trunk,
            (long)(ru.ru_utime.tv_sec * 1000 + ru.ru_utime.tv_usec / 1000 + ru.ru_stime.tv_sec * 1000 + ru.ru_stime.tv_usec / 1000));
    json_str(fres, pbuf);
    fprintf(fres, "}\n");
    fflush(fres);
}

static void child_setup(int wfd, const char *errp) {
    g_rfd  = wfd;
    int fd = open(errp, O_WRONLY | O_CREAT | O_TRUNC, 0644);
    if (fd >= 0) {
        dup2(fd, 2);
        close(fd);
    }
    setpgid(0, 0);
}

/* called by the trunk from inside fi_event right before event idx: returns 1 in the child, 0 in the trunk (after the
 * child has been supervised to its end) */
static int trunk_fork(long idx) {
    int pfd[2];
    if (pipe(pfd))
        return 0;
    char errp[1024];
    snprintf(errp, sizeof(errp), "%s.k%ld.err", g_out, idx);
    fflush(NULL);
    uint64_t t0  = v_now_us();
    pid_t    pid = fork();
    if (pid == 0) {
        close(pfd[0]);
        g_is_trunk = 0;
        child_setup(pfd[1], errp);
        if (g_proglen)
            if (write(g_rfd, g_progbuf, g_proglen) < 0) {}
        g_fail_at = idx;
        return 1;
    }
    close(pfd[1]);
    supervise(g_out, idx, g_fres, pid, pfd[0], t0, errp, 1);
    return 0;
}

/* replay mode: a fresh child runs the session from the start and fails event k */
static void run_one(const char *out, long k, FILE *fres) {
    int pfd[2];
    if (pipe(pfd))
        return;
    char errp[1024];
    snprintf(errp, sizeof(errp), "%s.k%ld.err", out, k);
    fflush(NULL);
    uint64_t t0  = v_now_us();
    pid_t    pid = fork();
    if (pid == 0) {
        close(pfd[0]);
        child_setup(pfd[1], errp);
        g_fail_at = k;
        session();
        _exit(0);
    }
    close(pfd[1]);
    supervise(out, k, fres, pid, pfd[0], t0, errp, 0);
}

/* the trunk: an unfaulted session that forks a child before every listed event while single-threaded; returns the
 * number of listed ks it has dealt with (the rest must be replayed) */
static int run_trunk(const char *out, long *ks, int nks, FILE *fres) {
    char pos[1024];
    snprintf(pos, sizeof(pos), "%s.trunkpos", out);
    unlink(pos);
    fflush(NULL);
    pid_t pid = fork();
    if (pid == 0) {
        int fd = open("/dev/null", O_WRONLY);
        if (fd >= 0) {
            dup2(fd, 2);
            close(fd);
        }
        g_is_trunk = 1;
        g_ks       = ks;
        g_nks      = nks;
        g_kpos     = 0;
        g_out      = out;
        g_fres     = fres;
        session();
        if (!g_is_trunk)
            _exit(0); /* a child forked off the trunk has finished its faulted session */
        FILE *f = fopen(pos, "w");
        if (f) {
            fprintf(f, "%d\n", g_kpos);
            fclose(f);
        }
        _exit(0);
    }
    int st = 0;
    waitpid(pid, &st, 0);
    int   done = 0;
    FILE *f    = fopen(pos, "r");
    if (f) {
        if (fscanf(f, "%d", &done) != 1)
            done = 0;
        fclose(f);
        unlink(pos);
    } else {
        /* the trunk died: count the result lines it managed to write */
        done = -1;
    }
    return done;
}

int main(int argc, char **argv) {
    if (argc < 3) {
        fprintf(stderr, "usage: faultinj <out> sites|run [listfile] [key=value...]\n");
        return 2;
    }
    v_drop_sys_nice();
    const char *out  = argv[1];
    const char *mode = argv[2];
    parse_opts(argc, argv, 3);
    /* the library prints banners on stdout */
    if (!freopen("/dev/null", "w", stdout)) {}
    {
        void *fr[4]; /* warm the unwinder (it allocates on first use) */
        backtrace(fr, 4);
    }
#ifdef FI_DEC
    if (!o_ivf) {
        fprintf(stderr, "faultinj(dec): ivf=<file> required\n");
        return 2;
    }
    {
        FILE *f = fopen(o_ivf, "rb");
        if (!f) {
            fprintf(stderr, "faultinj: cannot read %s\n", o_ivf);
            return 2;
        }
        fseek(f, 0, SEEK_END);
        g_ivf_len = (size_t)ftell(f);
        fseek(f, 0, SEEK_SET);
        g_ivf = (uint8_t *)__real_malloc(g_ivf_len + 1);
        if (fread(g_ivf, 1, g_ivf_len, f) != g_ivf_len)
            return 2;
        fclose(f);
    }
#endif
    char path[1024];
    if (!strcmp(mode, "sites")) {
        /* run 0 in a child as well, so that a crash of the unfaulted session is reported, not suffered */
        snprintf(path, sizeof(path), "%s.sites", out);
        int pfd[2];
        if (pipe(pfd))
            return 2;
        fflush(NULL);
        pid_t pid = fork();
        if (pid == 0) {
            close(pfd[0]);
            g_rfd   = pfd[1];
            g_sites = fopen(path, "w");
            if (!g_sites)
                _exit(2);
            session();
            fclose(g_sites);
            _exit(0);
        }
        close(pfd[1]);
        char    pbuf[4096];
        size_t  plen = 0;
        ssize_t r;
        while (plen < sizeof(pbuf) - 1 && (r = read(pfd[0], pbuf + plen, sizeof(pbuf) - 1 - plen)) > 0) plen += (size_t)r;
        pbuf[plen] = 0;
        int st = 0;
        waitpid(pid, &st, 0);
        dprintf(2, "%s\n", pbuf);
        snprintf(path, sizeof(path), "%s.sites.res", out);
        FILE *f = fopen(path, "w");
        if (f) {
            fprintf(f, "{\"status\":%d,\"signal\":%d,\"progress\":", WIFEXITED(st) ? WEXITSTATUS(st) : -1,
                    WIFSIGNALED(st) ? WTERMSIG(st) : 0);
            json_str(f, pbuf);
            fprintf(f, "}\n");
            fclose(f);
        }
        return WIFEXITED(st) && WEXITSTATUS(st) == 0 ? 0 : 3;
    }
    if (!strcmp(mode, "run") && argc >= 4) {
        FILE *fl = fopen(argv[3], "r");
        if (!fl) {
            fprintf(stderr, "faultinj: cannot read list %s\n", argv[3]);
            return 2;
        }
        snprintf(path, sizeof(path), "%s.results", out);
        unlink(path);
        FILE *fres = fopen(path, "a+");
        if (!fres)
            return 2;
        long *ks = NULL, k;
        int   n = 0, cap = 0;
        while (fscanf(fl, "%ld", &k) == 1) {
            if (n == cap) {
                cap = cap ? cap * 2 : 256;
                ks  = (long *)__real_realloc(ks, sizeof(long) * (size_t)cap);
            }
            ks[n++] = k;
        }
        fclose(fl);
        int done = 0;
        if (o_trunk && n > 0) {
            done = run_trunk(out, ks, n, fres);
            if (done < 0) {
                /* trunk crashed: find out what it completed from the results file */
                fflush(fres);
                done       = 0;
                FILE *fr   = fopen(path, "r");
                char  line[8192];
                long  last = -1;
                while (fr && fgets(line, sizeof(line), fr)) {
                    long kk;
                    if (sscanf(line, "{\"k\":%ld", &kk) == 1)
                        last = kk;
                }
                if (fr)
                    fclose(fr);
                while (done < n && ks[done] <= last) done++;
            }
            fseek(fres, 0, SEEK_END);
        }
        for (int i = done; i < n; i++) run_one(out, ks[i], fres);
        fclose(fres);
        return 0;
    }
    fprintf(stderr, "faultinj: unknown mode %s\n", mode);
    return 2;
}
