/* kdiff handlers: intra prediction (non-directional 8-bit / 16-bit, directional z1/z2/z3, filter
 * intra, edge filter / upsample, CfL).
 *
 * Edge arrays are modelled on build_intra_predictors(_high) in EbEncIntraPrediction.c:
 *   8-bit : uint8_t  above_data[2*64+48] aligned 32, above_row = above_data + 32
 *   16-bit: uint16_t above_data[2*64+32] aligned 16, above_row = above_data + 16
 * The whole array exists (so a SIMD kernel may read anywhere inside it), but only the samples the
 * mode needs are initialised by the encoder; everything else is junk here (differs between the
 * reference run and the variant run), so a result that depends on it is reported.
 * dst: any alignment (the SIMD kernels of this tree only use unaligned stores), any stride. */
#include "kdiff.h"
#include "kdiff_sigs.h"

extern const uint16_t eb_dr_intra_derivative[90];
int32_t               use_intra_edge_upsample(int32_t bs0, int32_t bs1, int32_t delta, int32_t type);

const int kd_txs[19][2] = {{4, 4},   {8, 8},   {16, 16}, {32, 32}, {64, 64}, {4, 8},  {8, 4},  {8, 16},  {16, 8}, {16, 32},
                           {32, 16}, {32, 64}, {64, 32}, {4, 16},  {16, 4},  {8, 32}, {32, 8}, {16, 64}, {64, 16}};

typedef struct {
    void *row; /* above_row / left_col */
    int   es, front, total;
} Edge;

/* edge array with valid elements [lo, hi] (relative to row), rest junk */
static Edge mk_edge(KdCtx *k, int es, int lo, int hi, long long maxv) {
    Edge e;
    e.es       = es;
    e.front    = es == 1 ? 32 : 16;
    e.total    = es == 1 ? 2 * 64 + 48 : 2 * 64 + 32;
    uint8_t *a = (uint8_t *)kb(k, (size_t)e.total, es, es == 1 ? 32 : 16);
    e.row      = a + (size_t)e.front * (size_t)es;
    if (lo < -e.front) lo = -e.front;
    if (hi > e.total - e.front - 1) hi = e.total - e.front - 1;
    if (hi >= lo) {
        kfill(k, a + (size_t)(e.front + lo) * (size_t)es, (size_t)(hi - lo + 1), es, 0, maxv);
        if (e.front + lo > 0) kjunk(k, a, (size_t)(e.front + lo) * (size_t)es);
        if (e.front + hi + 1 < e.total)
            kjunk(k, a + (size_t)(e.front + hi + 1) * (size_t)es, (size_t)(e.total - e.front - hi - 1) * (size_t)es);
    } else
        kjunk(k, a, (size_t)e.total * (size_t)es);
    return e;
}

static void *mk_dst(KdCtx *k, int w, int h, int es, int *stride) {
    *stride = kstride(k, w, 1);
    int   o = kr_range(k, 0, 15);
    void *d = kb2(k, w, h, *stride, es, 64, o, 0);
    kprefill2(k, d, w, h, *stride, es);
    return d;
}

/* modes: 0 dc, 1 dc_top, 2 dc_left, 3 dc_128, 4 v, 5 h, 6 smooth, 7 smooth_h, 8 smooth_v, 9 paeth */
static void edges_for_mode(KdCtx *k, int mode, int w, int h, int es, long long maxv, Edge *ab, Edge *le) {
    int need_above = !(mode == 2 || mode == 3 || mode == 5);
    int need_left  = !(mode == 1 || mode == 3 || mode == 4);
    int need_al    = mode == 9;
    /* the encoder fills above[-1] = left[-1] only for modes with NEED_ABOVELEFT */
    *ab = mk_edge(k, es, need_above ? (need_al ? -1 : 0) : 0, need_above ? w - 1 : -1, maxv);
    *le = mk_edge(k, es, need_left ? 0 : 0, need_left ? h - 1 : -1, maxv);
}

KDH(intra) {
    int  w = P(0), h = P(1), mode = P(2), ds;
    Edge ab, le;
    edges_for_mode(k, mode, w, h, 1, 255, &ab, &le);
    uint8_t *dst = (uint8_t *)mk_dst(k, w, h, 1, &ds);
    ka(k, "w", w), ka(k, "h", h), ka(k, "mode", mode), ka(k, "dst_stride", ds);
    kcall(k);
    KFN(k, intra)(dst, ds, (const uint8_t *)ab.row, (const uint8_t *)le.row);
}

KDH(intra_hbd) {
    int  w = P(0), h = P(1), mode = P(2), ds;
    int  bd = (k->icase & 1) ? 10 : 8;
    Edge ab, le;
    edges_for_mode(k, mode, w, h, 2, (1 << bd) - 1, &ab, &le);
    uint16_t *dst = (uint16_t *)mk_dst(k, w, h, 2, &ds);
    ka(k, "w", w), ka(k, "h", h), ka(k, "mode", mode), ka(k, "dst_stride", ds), ka(k, "bd", bd);
    kcall(k);
    KFN(k, intra_hbd)(dst, ds, (const uint16_t *)ab.row, (const uint16_t *)le.row, bd);
}

/* ---- directional prediction.  Angles: nominal 45/67/113/135/157/203 + 3*delta, delta -3..3, as
 * produced by mode_to_angle_map + angle_delta * ANGLE_STEP; dx/dy from eb_dr_intra_derivative;
 * upsample flags from the library's own use_intra_edge_upsample (filter type 0/1). */
typedef struct {
    int w, h, angle, dx, dy, ups_above, ups_left;
} DrArgs;

static DrArgs dr_args(KdCtx *k, int zone) {
    static const int base[3][3] = {{45, 67, 67}, {113, 135, 157}, {203, 203, 203}};
    DrArgs           a;
    int              it = k->icase;
    int              tx = it % 19;
    a.w = kd_txs[tx][0], a.h = kd_txs[tx][1];
    int b = base[zone][(it / 19) % 3], delta = ((it / 57) % 7) - 3;
    if (it < 9) b = base[zone][kr_range(k, 0, 2)], delta = kr_range(k, -3, 3);
    a.angle = b + 3 * delta;
    /* stay strictly inside the zone (45-9=36 .. 67+9=76; 104..166; 194..212) */
    int type = kr_bool(k);
    int ang  = a.angle;
    a.dx = a.dy = 1;
    if (ang > 0 && ang < 90) a.dx = eb_dr_intra_derivative[ang];
    else if (ang > 90 && ang < 180) a.dx = eb_dr_intra_derivative[180 - ang];
    if (ang > 90 && ang < 180) a.dy = eb_dr_intra_derivative[ang - 90];
    else if (ang > 180 && ang < 270) a.dy = eb_dr_intra_derivative[270 - ang];
    /* the encoder may also run with edge filtering disabled: no upsampling then */
    int enable  = kr_range(k, 0, 3) != 0;
    a.ups_above = enable ? use_intra_edge_upsample(a.w, a.h, ang - 90, type) : 0;
    a.ups_left  = enable ? use_intra_edge_upsample(a.h, a.w, ang - 180, type) : 0;
    ka(k, "bw", a.w), ka(k, "bh", a.h), ka(k, "angle", a.angle), ka(k, "dx", a.dx), ka(k, "dy", a.dy), ka(k, "upsample_above", a.ups_above),
        ka(k, "upsample_left", a.ups_left);
    return a;
}

/* valid edge range: what build_intra_predictors initialises for the zone (+ upsampling) */
static void dr_edges(KdCtx *k, int zone, const DrArgs *a, int es, long long maxv, Edge *ab, Edge *le) {
    int alo = 0, ahi = -1, llo = 0, lhi = -1;
    if (zone == 0) { /* above + above-right */
        int n = a->w + a->h;
        alo = a->ups_above ? -2 : -1, ahi = a->ups_above ? 2 * n - 2 : n - 1;
    } else if (zone == 1) {
        alo = a->ups_above ? -2 : -1, ahi = a->ups_above ? 2 * a->w - 2 : a->w - 1;
        llo = a->ups_left ? -2 : -1, lhi = a->ups_left ? 2 * a->h - 2 : a->h - 1;
    } else {
        int n = a->w + a->h;
        llo = a->ups_left ? -2 : -1, lhi = a->ups_left ? 2 * n - 2 : n - 1;
    }
    *ab = mk_edge(k, es, alo, ahi, maxv);
    *le = mk_edge(k, es, llo, lhi, maxv);
}

KDH(dr_z1) {
    DrArgs a = dr_args(k, 0);
    Edge   ab, le;
    int    ds;
    dr_edges(k, 0, &a, 1, 255, &ab, &le);
    uint8_t *dst = (uint8_t *)mk_dst(k, a.w, a.h, 1, &ds);
    ka(k, "dst_stride", ds);
    kcall(k);
    KFN(k, dr_z1)(dst, ds, a.w, a.h, (const uint8_t *)ab.row, (const uint8_t *)le.row, a.ups_above, a.dx, a.dy);
}
KDH(dr_z2) {
    DrArgs a = dr_args(k, 1);
    Edge   ab, le;
    int    ds;
    dr_edges(k, 1, &a, 1, 255, &ab, &le);
    uint8_t *dst = (uint8_t *)mk_dst(k, a.w, a.h, 1, &ds);
    ka(k, "dst_stride", ds);
    kcall(k);
    KFN(k, dr_z2)(dst, ds, a.w, a.h, (const uint8_t *)ab.row, (const uint8_t *)le.row, a.ups_above, a.ups_left, a.dx, a.dy);
}
KDH(dr_z3) {
    DrArgs a = dr_args(k, 2);
    Edge   ab, le;
    int    ds;
    dr_edges(k, 2, &a, 1, 255, &ab, &le);
    uint8_t *dst = (uint8_t *)mk_dst(k, a.w, a.h, 1, &ds);
    ka(k, "dst_stride", ds);
    kcall(k);
    KFN(k, dr_z1)(dst, ds, a.w, a.h, (const uint8_t *)ab.row, (const uint8_t *)le.row, a.ups_left, a.dx, a.dy);
}
KDH(dr_z1_hbd) {
    DrArgs a  = dr_args(k, 0);
    int    bd = kr_bool(k) ? 10 : 8, ds;
    Edge   ab, le;
    dr_edges(k, 0, &a, 2, (1 << bd) - 1, &ab, &le);
    uint16_t *dst = (uint16_t *)mk_dst(k, a.w, a.h, 2, &ds);
    ka(k, "dst_stride", ds), ka(k, "bd", bd);
    kcall(k);
    KFN(k, dr_z1_hbd)(dst, ds, a.w, a.h, (const uint16_t *)ab.row, (const uint16_t *)le.row, a.ups_above, a.dx, a.dy, bd);
}
KDH(dr_z2_hbd) {
    DrArgs a  = dr_args(k, 1);
    int    bd = kr_bool(k) ? 10 : 8, ds;
    Edge   ab, le;
    dr_edges(k, 1, &a, 2, (1 << bd) - 1, &ab, &le);
    uint16_t *dst = (uint16_t *)mk_dst(k, a.w, a.h, 2, &ds);
    ka(k, "dst_stride", ds), ka(k, "bd", bd);
    kcall(k);
    KFN(k, dr_z2_hbd)(dst, ds, a.w, a.h, (const uint16_t *)ab.row, (const uint16_t *)le.row, a.ups_above, a.ups_left, a.dx, a.dy, bd);
}
KDH(dr_z3_hbd) {
    DrArgs a  = dr_args(k, 2);
    int    bd = kr_bool(k) ? 10 : 8, ds;
    Edge   ab, le;
    dr_edges(k, 2, &a, 2, (1 << bd) - 1, &ab, &le);
    uint16_t *dst = (uint16_t *)mk_dst(k, a.w, a.h, 2, &ds);
    ka(k, "dst_stride", ds), ka(k, "bd", bd);
    kcall(k);
    KFN(k, dr_z1_hbd)(dst, ds, a.w, a.h, (const uint16_t *)ab.row, (const uint16_t *)le.row, a.ups_left, a.dx, a.dy, bd);
}

/* filter intra: tx sizes up to 32x32 (av1_filter_intra_allowed_bsize), 5 modes, needs
 * above[-1..bw-1], left[0..bh-1] */
KDH(filter_intra) {
    static const int txl[] = {0, 1, 2, 3, 5, 6, 7, 8, 9, 10, 13, 14, 15, 16};
    int              it = k->icase;
    int              tx = it < 9 ? KR_PICK(k, txl) : txl[it % 14];
    int              mode = it < 9 ? kr_range(k, 0, 4) : (it / 14) % 5;
    int              w = kd_txs[tx][0], h = kd_txs[tx][1], ds;
    Edge             ab = mk_edge(k, 1, -1, w - 1, 255), le = mk_edge(k, 1, 0, h - 1, 255);
    uint8_t         *dst = (uint8_t *)mk_dst(k, w, h, 1, &ds);
    ka(k, "tx_size", tx), ka(k, "w", w), ka(k, "h", h), ka(k, "mode", mode), ka(k, "dst_stride", ds);
    kcall(k);
    KFN(k, filter_intra)(dst, ds, (TxSize)tx, (const uint8_t *)ab.row, (const uint8_t *)le.row, mode);
}

/* intra edge filter: p = above_row - 1 (or left_col - 1), sz = 4n+1 (n = 1..32), strength 0..3
 * (test/intrapred_edge_filter_test.cc).  Specified output: p[0..sz-1].  The SSE4.1 kernels (as
 * libaom's) use p[-1] and p[sz..sz+15] (8 elements for 16-bit) as scratch ("extend the first and
 * last samples"); both stay inside the encoder's edge array (that is what its 48/32 spare elements
 * are for) and nothing reads them afterwards, so they are excluded from the comparison. */
KDH(fie) {
    int  n = k->icase < 9 ? kr_range(k, 1, 32) : 1 + (k->icase % 32), sz = 4 * n + 1;
    int  strength = k->icase < 9 ? kr_range(k, 1, 3) : (k->icase / 32) % 4;
    Edge e = mk_edge(k, 1, -2, sz - 2 + 16, 255);
    uint8_t *p = (uint8_t *)e.row - 1;
    ka(k, "sz", sz), ka(k, "strength", strength);
    kcall(k);
    KFN(k, fie)(p, sz, strength);
    kdontcare(k, p - 1, 1);
    kdontcare(k, p + sz, 16);
}
KDH(fie_hbd) {
    int  n = k->icase < 9 ? kr_range(k, 1, 32) : 1 + (k->icase % 32), sz = 4 * n + 1;
    int  strength = k->icase < 9 ? kr_range(k, 1, 3) : (k->icase / 32) % 4;
    int  bd = kr_bool(k) ? 10 : 8;
    Edge e = mk_edge(k, 2, -2, sz - 2 + 8, (1 << bd) - 1);
    uint16_t *p = (uint16_t *)e.row - 1;
    ka(k, "sz", sz), ka(k, "strength", strength), ka(k, "bd", bd);
    kcall(k);
    KFN(k, fie_hbd)(p, sz, strength);
    kdontcare(k, p - 1, 2);
    kdontcare(k, p + sz, 16);
}
/* upsample: sz in {4,8,12,16}; in: p[-1..sz-1], out: p[-2..2sz-2] (spec 7.11.2.11 and the unit
 * test).  The SSE4.1 kernel (as libaom's) stores whole 32-byte groups starting at p[-2], i.e. it
 * also overwrites p[2sz-1..29] (..61 for sz = 16) with values nobody reads (the directional
 * predictors stop at max_base = 2sz-2); this stays inside the encoder's edge array: excluded. */
KDH(upsample_edge) {
    int      sz = 4 * (1 + k->icase % 4);
    int      hi = sz < 16 ? 29 : 61;
    Edge     e  = mk_edge(k, 1, -2, hi, 255);
    uint8_t *p  = (uint8_t *)e.row;
    /* only p[-1..sz-1] are inputs: the rest of the output region starts with fixed values */
    p[-2] = 0x5a;
    for (int i = sz; i <= hi; i++) p[i] = 0x5a;
    ka(k, "sz", sz);
    kcall(k);
    KFN(k, upsample_edge)(p, sz);
    kdontcare(k, p + 2 * sz - 1, (size_t)(hi - (2 * sz - 1) + 1));
}

/* ---- CfL.  pred_buf_q3: CFL_BUF_LINE(32)-strided 32x32 int16 array (aligned), AC contribution in
 * Q3 after average subtraction: |v| <= 8 * maxpixel.  alpha_q3 in -16..16 (cfl_idx_to_alpha).
 * width/height: chroma tx sizes 4..32. */
static const int cfl_wh[][2] = {{4, 4}, {4, 8}, {8, 4}, {8, 8}, {8, 16}, {16, 8}, {16, 16}, {16, 32}, {32, 16}, {32, 32}, {4, 16}, {16, 4}, {8, 32}, {32, 8}};

KDH(cfl_pred) {
    int      i = k->icase % 14, w = cfl_wh[i][0], h = cfl_wh[i][1];
    int      alpha = k->icase < 9 ? (k->icase & 1 ? 16 : -16) : kr_range(k, -16, 16);
    int16_t *ac = (int16_t *)kb(k, 32 * 32, 2, 32);
    kfill2(k, ac, w, h, 32, 2, -8 * 255, 8 * 255);
    int      ps, ds;
    ps           = kstride(k, w, 1);
    uint8_t *pred = (uint8_t *)kb2(k, w, h, ps, 1, 64, kr_range(k, 0, 15), 0);
    /* CfL = DC prediction + alpha * AC: `pred` holds the DC prediction, i.e. one value for the whole
     * block (the AVX2 kernel, as libaom's, reads only pred[0]) */
    int dc = k->mode == 0 ? 0 : k->mode == 1 ? 255 : kr_range(k, 0, 255);
    for (int y = 0; y < h; y++) memset(pred + y * ps, dc, (size_t)w);
    uint8_t *dst = pred;
    ds           = ps;
    if (kr_bool(k)) dst = (uint8_t *)mk_dst(k, w, h, 1, &ds); /* else in place, as EbCodingLoop.c does */
    ka(k, "dc", dc), ka(k, "inplace", dst == pred);
    ka(k, "w", w), ka(k, "h", h), ka(k, "alpha_q3", alpha), ka(k, "pred_stride", ps), ka(k, "dst_stride", ds);
    kcall(k);
    KFN(k, cfl_pred_lbd)(ac, pred, ps, dst, ds, alpha, 8, w, h);
}
KDH(cfl_pred_hbd) {
    int      i = k->icase % 14, w = cfl_wh[i][0], h = cfl_wh[i][1];
    int      bd = kr_bool(k) ? 10 : 8, maxv = (1 << bd) - 1;
    int      alpha = k->icase < 9 ? (k->icase & 1 ? 16 : -16) : kr_range(k, -16, 16);
    int16_t *ac = (int16_t *)kb(k, 32 * 32, 2, 32);
    kfill2(k, ac, w, h, 32, 2, -8 * maxv, 8 * maxv);
    int ps, ds;
    ps             = kstride(k, w, 1);
    uint16_t *pred = (uint16_t *)kb2(k, w, h, ps, 2, 64, kr_range(k, 0, 15), 0);
    int       dc = k->mode == 0 ? 0 : k->mode == 1 ? maxv : kr_range(k, 0, maxv);
    for (int y = 0; y < h; y++)
        for (int x = 0; x < w; x++) pred[y * ps + x] = (uint16_t)dc;
    uint16_t *dst = pred;
    ds            = ps;
    if (kr_bool(k)) dst = (uint16_t *)mk_dst(k, w, h, 2, &ds);
    ka(k, "dc", dc), ka(k, "inplace", dst == pred);
    ka(k, "w", w), ka(k, "h", h), ka(k, "alpha_q3", alpha), ka(k, "pred_stride", ps), ka(k, "dst_stride", ds), ka(k, "bd", bd);
    kcall(k);
    KFN(k, cfl_pred_hbd)(ac, pred, ps, dst, ds, alpha, bd, w, h);
}
/* luma subsampling 4:2:0: input width/height = luma size (8..64, even), output (w/2)x(h/2) */
KDH(cfl_sub) {
    int            i = k->icase % 14, w = 2 * cfl_wh[i][0], h = 2 * cfl_wh[i][1];
    int            is = kstride(k, w, 1);
    const uint8_t *in = (const uint8_t *)kb2(k, w, h, is, 1, 64, kr_range(k, 0, 15), 0);
    kfill2(k, (void *)in, w, h, is, 1, 0, 255);
    int16_t *out = (int16_t *)kb2(k, w / 2, h / 2, 32, 2, 32, 0, 32 * 32 - ((h / 2 - 1) * 32 + w / 2));
    kprefill2(k, out, w / 2, h / 2, 32, 2);
    ka(k, "w", w), ka(k, "h", h), ka(k, "input_stride", is);
    kcall(k);
    KFN(k, cfl_sub_lbd)(in, is, out, w, h);
}
KDH(cfl_sub_hbd) {
    int             i = k->icase % 14, w = 2 * cfl_wh[i][0], h = 2 * cfl_wh[i][1];
    int             is = kstride(k, w, 1), bd = kr_bool(k) ? 10 : 8;
    const uint16_t *in = (const uint16_t *)kb2(k, w, h, is, 2, 64, kr_range(k, 0, 15), 0);
    kfill2(k, (void *)in, w, h, is, 2, 0, (1 << bd) - 1);
    int16_t *out = (int16_t *)kb2(k, w / 2, h / 2, 32, 2, 32, 0, 32 * 32 - ((h / 2 - 1) * 32 + w / 2));
    kprefill2(k, out, w / 2, h / 2, 32, 2);
    ka(k, "w", w), ka(k, "h", h), ka(k, "input_stride", is), ka(k, "bd", bd);
    kcall(k);
    KFN(k, cfl_sub_hbd)(in, is, out, w, h);
}
/* subtract average: values = 8 * pixel sums (0..8*1023), round_offset = w*h/2, log2 = log2(w*h) */
KDH(sub_avg) {
    int      i = k->icase % 14, w = cfl_wh[i][0], h = cfl_wh[i][1];
    int      bd = kr_bool(k) ? 10 : 8;
    int16_t *buf = (int16_t *)kb2(k, w, h, 32, 2, 32, 0, 32 * 32 - ((h - 1) * 32 + w));
    kfill2(k, buf, w, h, 32, 2, 0, 8 * ((1 << bd) - 1));
    int lg = 0;
    while ((1 << lg) < w * h) lg++;
    ka(k, "w", w), ka(k, "h", h), ka(k, "bd", bd);
    kcall(k);
    KFN(k, sub_avg)(buf, w, h, (w * h) >> 1, lg);
}
