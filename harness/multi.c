/* multi: several encoder / decoder sessions in one process, started at staggered times.
 * usage: multi <spec> [<spec> ...]
 *   enc:w=128,h=96,frames=9,preset=8,bd=8,lp=4,flags=65535,content=pan,seed=3,hl=3,delay=1000
 *   dec:ivf=/path/x.ivf,threads=1,delay=500
 * prints one line per session: `S <index> <kind> rc=<n> packets=<n> bytes=<n> hash=<16 hex> recon=<16 hex>` */
#include "vcommon.h"
#include <pthread.h>
#include "EbSvtAv1Enc.h"
#include "EbSvtAv1Dec.h"

typedef struct {
    int         idx;
    char        kind[8];
    char        spec[1024];
    int         rc, packets;
    uint64_t    bytes, hash, rhash;
    pthread_t   th;
} Sess;

static uint64_t fnv(uint64_t h, const void *p, size_t n) {
    const uint8_t *b = p;
    for (size_t i = 0; i < n; i++) {
        h ^= b[i];
        h *= 0x100000001b3ull;
    }
    return h;
}

static long long opt(const char *spec, const char *key, long long d) {
    char pat[64];
    snprintf(pat, sizeof(pat), "%s=", key);
    const char *p = spec;
    while ((p = strstr(p, pat))) {
        if (p == spec || p[-1] == ',' || p[-1] == ':')
            return strtoll(p + strlen(pat), NULL, 0);
        p++;
    }
    return d;
}
static void opts(const char *spec, const char *key, char *out, size_t n, const char *d) {
    char pat[64];
    snprintf(pat, sizeof(pat), "%s=", key);
    const char *p = strstr(spec, pat);
    snprintf(out, n, "%s", d);
    if (p) {
        p += strlen(pat);
        size_t k = 0;
        while (p[k] && p[k] != ',' && k + 1 < n) {
            out[k] = p[k];
            k++;
        }
        out[k] = 0;
    }
}

static void *enc_session(void *arg) {
    Sess *s = arg;
    usleep((useconds_t)opt(s->spec, "delay", 0));
    int  w = (int)opt(s->spec, "w", 64), h = (int)opt(s->spec, "h", 64), n = (int)opt(s->spec, "frames", 8);
    int  bd = (int)opt(s->spec, "bd", 8);
    char cname[32];
    opts(s->spec, "content", cname, sizeof(cname), "pan");
    EbSvtAv1EncConfiguration cfg;
    EbComponentType *        hnd = NULL;
    memset(&cfg, 0, sizeof(cfg));
    s->hash  = 0xcbf29ce484222325ull;
    s->rhash = 0xcbf29ce484222325ull;
    if (svt_av1_enc_init_handle(&hnd, NULL, &cfg) != EB_ErrorNone) {
        s->rc = 10;
        return NULL;
    }
    cfg.source_width        = (uint32_t)w;
    cfg.source_height       = (uint32_t)h;
    cfg.encoder_bit_depth   = (uint32_t)bd;
    cfg.enc_mode            = (int8_t)opt(s->spec, "preset", 8);
    cfg.logical_processors  = (uint32_t)opt(s->spec, "lp", 4);
    cfg.use_cpu_flags       = (uint64_t)opt(s->spec, "flags", 0xffff);
    cfg.hierarchical_levels = (uint32_t)opt(s->spec, "hl", 3);
    cfg.intra_period_length = -1;
    cfg.recon_enabled       = 1;
    cfg.qp                  = (uint32_t)opt(s->spec, "qp", 35);
    cfg.tile_columns        = (int32_t)opt(s->spec, "tc", 0);
    if (svt_av1_enc_set_parameter(hnd, &cfg) != EB_ErrorNone) {
        s->rc = 11;
        svt_av1_enc_deinit_handle(hnd);
        return NULL;
    }
    if (svt_av1_enc_init(hnd) != EB_ErrorNone) {
        s->rc = 12;
        svt_av1_enc_deinit(hnd);
        svt_av1_enc_deinit_handle(hnd);
        return NULL;
    }
    VPic pic;
    v_pic_alloc(&pic, w, h, bd);
    int       bps = bd > 8 ? 2 : 1;
    size_t    ysz = (size_t)w * h * bps, csz = (size_t)pic.cw * pic.ch * bps;
    uint8_t * blk = malloc(ysz + 2 * csz);
    EbBufferHeaderType rb;
    memset(&rb, 0, sizeof(rb));
    rb.size        = sizeof(rb);
    rb.n_alloc_len = (uint32_t)((size_t)w * h * 3 + 8192);
    rb.p_buffer    = malloc(rb.n_alloc_len);
    int eos = 0, sent_eos = 0;
    for (int k = 0; k <= n && !s->rc; k++) {
        EbBufferHeaderType hb;
        EbSvtIOFormat      io;
        memset(&hb, 0, sizeof(hb));
        hb.size     = sizeof(hb);
        hb.pic_type = EB_AV1_INVALID_PICTURE;
        if (k < n) {
            v_gen_picture(&pic, v_content_kind(cname) < 0 ? VC_PAN : v_content_kind(cname), (uint64_t)opt(s->spec, "seed", 1), k, 0);
            uint8_t *pl[3] = {blk, blk + ysz, blk + ysz + csz};
            for (int p = 0; p < 3; p++) {
                size_t cnt = p ? (size_t)pic.cw * pic.ch : (size_t)w * h;
                for (size_t i = 0; i < cnt; i++) {
                    if (bps == 1)
                        pl[p][i] = (uint8_t)pic.p[p][i];
                    else
                        ((uint16_t *)pl[p])[i] = pic.p[p][i];
                }
            }
            memset(&io, 0, sizeof(io));
            io.luma = pl[0];
            io.cb = pl[1];
            io.cr = pl[2];
            io.y_stride = (uint32_t)w;
            io.cb_stride = io.cr_stride = (uint32_t)pic.cw;
            io.width = (uint32_t)w;
            io.height = (uint32_t)h;
            io.color_fmt = EB_YUV420;
            io.bit_depth = bd > 8 ? EB_TEN_BIT : EB_EIGHT_BIT;
            hb.p_buffer = (uint8_t *)&io;
            hb.n_filled_len = hb.n_alloc_len = (uint32_t)(ysz + 2 * csz);
            hb.pts = k;
        } else {
            hb.flags = EB_BUFFERFLAG_EOS;
            sent_eos = 1;
        }
        if (svt_av1_enc_send_picture(hnd, &hb) != EB_ErrorNone)
            s->rc = 13;
        for (int spin = 0; !s->rc; spin++) {
            EbBufferHeaderType *p = NULL;
            EbErrorType r = svt_av1_enc_get_packet(hnd, &p, 0);
            int got = 0;
            if (r == EB_ErrorNone && p) {
                got = 1;
                s->packets++;
                s->bytes += p->n_filled_len;
                s->hash = fnv(s->hash, &p->pts, sizeof(p->pts));
                s->hash = fnv(s->hash, p->p_buffer, p->n_filled_len);
                if (p->flags & EB_BUFFERFLAG_EOS)
                    eos = 1;
                svt_av1_enc_release_out_buffer(&p);
            } else if (r != (EbErrorType)EB_NoErrorEmptyQueue)
                s->rc = 14;
            while (svt_av1_get_recon(hnd, &rb) == EB_ErrorNone) {
                got = 1;
                s->rhash ^= fnv(fnv(0xcbf29ce484222325ull, &rb.pts, sizeof(rb.pts)), rb.p_buffer, rb.n_filled_len);
            }
            if (!sent_eos && !got)
                break;
            if (sent_eos && eos)
                break;
            if (!got)
                usleep(500);
            if (spin > 400000) {
                s->rc = 15;
                break;
            }
        }
    }
    v_pic_free(&pic);
    free(blk);
    free(rb.p_buffer);
    svt_av1_enc_deinit(hnd);
    svt_av1_enc_deinit_handle(hnd);
    return NULL;
}

static void *dec_session(void *arg) {
    Sess *s = arg;
    usleep((useconds_t)opt(s->spec, "delay", 0));
    char path[800];
    opts(s->spec, "ivf", path, sizeof(path), "");
    FILE *f = fopen(path, "rb");
    s->hash = s->rhash = 0xcbf29ce484222325ull;
    if (!f) {
        s->rc = 20;
        return NULL;
    }
    EbSvtAv1DecConfiguration cfg;
    EbComponentType *        hnd = NULL;
    memset(&cfg, 0, sizeof(cfg));
    if (svt_av1_dec_init_handle(&hnd, NULL, &cfg) != EB_ErrorNone) {
        s->rc = 21;
        return NULL;
    }
    cfg.threads = (uint32_t)opt(s->spec, "threads", 1);
    cfg.num_p_frames = 1;
    if (svt_av1_dec_set_parameter(hnd, &cfg) != EB_ErrorNone || svt_av1_dec_init(hnd) != EB_ErrorNone) {
        s->rc = 22;
        return NULL;
    }
    uint8_t hdr[32];
    if (fread(hdr, 1, 32, f) != 32)
        s->rc = 23;
    EbBufferHeaderType out;
    EbSvtIOFormat      io;
    memset(&out, 0, sizeof(out));
    memset(&io, 0, sizeof(io));
    size_t cap = 4096 * 2304 * 2;
    io.luma = malloc(cap);
    io.cb = malloc(cap / 4);
    io.cr = malloc(cap / 4);
    out.size = sizeof(out);
    out.p_buffer = (uint8_t *)&io;
    while (!s->rc) {
        uint8_t fh[12];
        if (fread(fh, 1, 12, f) != 12)
            break;
        uint32_t sz = fh[0] | fh[1] << 8 | fh[2] << 16 | (uint32_t)fh[3] << 24;
        uint8_t *tu = malloc(sz + 16);
        if (fread(tu, 1, sz, f) != sz) {
            free(tu);
            break;
        }
        memset(tu + sz, 0, 16);
        EbErrorType r = svt_av1_dec_frame(hnd, tu, sz, 0);
        free(tu);
        if (r != EB_ErrorNone) {
            s->rc = 24;
            break;
        }
        EbAV1StreamInfo si;
        EbAV1FrameInfo  fi;
        if (svt_av1_dec_get_picture(hnd, &out, &si, &fi) == EB_ErrorNone) {
            s->packets++;
            int bps = io.bit_depth > EB_EIGHT_BIT ? 2 : 1;
            for (uint32_t y = 0; y < io.height; y++) s->hash = fnv(s->hash, io.luma + (size_t)y * io.y_stride * bps, (size_t)io.width * bps);
            for (uint32_t y = 0; y < (io.height + 1) / 2; y++) {
                s->hash = fnv(s->hash, io.cb + (size_t)y * io.cb_stride * bps, (size_t)((io.width + 1) / 2) * bps);
                s->hash = fnv(s->hash, io.cr + (size_t)y * io.cr_stride * bps, (size_t)((io.width + 1) / 2) * bps);
            }
        }
    }
    fclose(f);
    free(io.luma);
    free(io.cb);
    free(io.cr);
    svt_av1_dec_deinit(hnd);
    svt_av1_dec_deinit_handle(hnd);
    return NULL;
}

int main(int argc, char **argv) {
    v_drop_sys_nice();
    int   n = argc - 1;
    Sess *s = calloc((size_t)n, sizeof(Sess));
    int   saved = dup(1);
    if (!freopen("/dev/null", "w", stdout)) {}
    for (int i = 0; i < n; i++) {
        s[i].idx = i;
        snprintf(s[i].spec, sizeof(s[i].spec), "%s", argv[i + 1]);
        int isdec = !strncmp(argv[i + 1], "dec:", 4);
        snprintf(s[i].kind, sizeof(s[i].kind), "%s", isdec ? "dec" : "enc");
        pthread_create(&s[i].th, NULL, isdec ? dec_session : enc_session, &s[i]);
    }
    for (int i = 0; i < n; i++) pthread_join(s[i].th, NULL);
    for (int i = 0; i < n; i++)
        dprintf(saved, "S %d %s rc=%d packets=%d bytes=%llu hash=%016llx recon=%016llx\n", i, s[i].kind, s[i].rc, s[i].packets,
                (unsigned long long)s[i].bytes, (unsigned long long)s[i].hash, (unsigned long long)s[i].rhash);
    return 0;
}
