/* reldist - exhaustive check of every order-hint relative-distance helper (helper part of property C22).
 *
 * Helpers of the tree (see also lib/vf/props/c22_reldist.py):
 *   get_relative_dist_enc   Source/Lib/Common/Codec/EbInterPrediction.c           non-static, called directly
 *   get_relative_dist       Source/Lib/Encoder/Codec/EbAdaptiveMotionVectorPrediction.c   static -> hook H7 wrapper
 *   get_relative_dist       Source/Lib/Encoder/Codec/EbPictureDecisionProcess.c           static -> hook H7 wrapper
 *   get_relative_dist       Source/Lib/Encoder/Codec/EbModeDecisionConfigurationProcess.c static -> hook H7 wrapper
 *   get_relative_dist       Source/Lib/Decoder/Codec/EbDecUtils.h (static INLINE; the copy compiled into
 *                           EbDecParseObu.c is reached through the hook H7 wrapper at the end of that file)
 *
 * Oracle (AV1 spec 7.x get_relative_dist): with enable_order_hint = 1, for every order_hint_bits in 1..8 and every
 * a, b in [0, 2^bits):  result == ((a - b + m) mod 2m) - m,  m = 2^(bits-1);  with enable_order_hint = 0 the
 * result is 0 (bits 0..8).  Exhaustive: 87380 + 87381 tuples per helper.
 *
 * Output: "HELPER name=<n> tuples=<t> nonzero=<z> mismatches=<k>" per helper, "FAIL helper=... " (first 5 per helper).
 * Exit 0 all equal, 1 mismatches, 2 harness problem.
 */
#include "vcommon.h"
#include "EbDefinitions.h"
#include "EbAv1Structs.h"

int get_relative_dist_enc(SeqHeader *seq_header, int ref_hint, int order_hint);
int svt_verif_get_relative_dist_amvp(const OrderHintInfo *oh, int a, int b);
int svt_verif_get_relative_dist_picdec(const OrderHintInfo *oh, int a, int b);
int svt_verif_get_relative_dist_mdconfig(const OrderHintInfo *oh, int a, int b);
int svt_verif_get_relative_dist_decoder(OrderHintInfo *oh, int a, int b);

static SeqHeader g_sh;

static int call_common(OrderHintInfo *oh, int a, int b) {
    g_sh.order_hint_info = *oh;
    return get_relative_dist_enc(&g_sh, a, b);
}
static int call_amvp(OrderHintInfo *oh, int a, int b) { return svt_verif_get_relative_dist_amvp(oh, a, b); }
static int call_picdec(OrderHintInfo *oh, int a, int b) { return svt_verif_get_relative_dist_picdec(oh, a, b); }
static int call_mdconfig(OrderHintInfo *oh, int a, int b) { return svt_verif_get_relative_dist_mdconfig(oh, a, b); }
static int call_decoder(OrderHintInfo *oh, int a, int b) { return svt_verif_get_relative_dist_decoder(oh, a, b); }

static const struct {
    const char *name;
    int (*fn)(OrderHintInfo *, int, int);
} helpers[] = {
    {"common:get_relative_dist_enc", call_common},
    {"encoder-amvp:get_relative_dist", call_amvp},
    {"encoder-picdec:get_relative_dist", call_picdec},
    {"encoder-mdconfig:get_relative_dist", call_mdconfig},
    {"decoder:get_relative_dist", call_decoder},
};

static int spec_dist(int bits, int a, int b) {
    /* signed distance modulo the order-hint period 2m, in [-m, m) */
    int m = 1 << (bits - 1);
    int x = (a - b + m) % (2 * m);
    if (x < 0)
        x += 2 * m;
    return x - m;
}

int main(void) {
    int bad = 0;
    v_drop_sys_nice();
    memset(&g_sh, 0, sizeof(g_sh));
    for (size_t h = 0; h < sizeof(helpers) / sizeof(helpers[0]); h++) {
        unsigned long tuples = 0, mism = 0, nonzero = 0, negative = 0, wraps = 0;
        for (int enable = 1; enable >= 0; enable--) {
            for (int bits = enable ? 1 : 0; bits <= 8; bits++) {
                OrderHintInfo oh;
                memset(&oh, 0, sizeof(oh));
                oh.enable_order_hint = (uint8_t)enable;
                oh.order_hint_bits   = (uint8_t)bits;
                for (int a = 0; a < (1 << bits); a++)
                    for (int b = 0; b < (1 << bits); b++) {
                        int want = enable ? spec_dist(bits, a, b) : 0;
                        int got  = helpers[h].fn(&oh, a, b);
                        tuples++;
                        nonzero += got != 0;
                        negative += got < 0;
                        wraps += enable && want != a - b; /* tuples where the modular distance differs from a-b */
                        if (got != want) {
                            if (mism < 5)
                                printf("FAIL helper=%s enable=%d bits=%d a=%d b=%d got=%d want=%d\n", helpers[h].name,
                                       enable, bits, a, b, got, want);
                            mism++;
                        }
                    }
            }
        }
        printf("HELPER name=%s tuples=%lu nonzero=%lu negative=%lu wraps=%lu mismatches=%lu\n", helpers[h].name, tuples,
               nonzero, negative, wraps, mism);
        bad += mism != 0;
    }
    return bad ? 1 : 0;
}
