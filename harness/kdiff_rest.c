/* kdiff handlers: loop restoration (Wiener convolve, self-guided filter).
 *
 * Domains (EbRestoration.c wiener_filter_stripe / sgrproj_filter_stripe, test/wiener_convolve_test.cc,
 * test/selfguided_filter_test.cc):
 *  - Wiener: w = multiple of 16 up to the processing-unit width 64, h = stripe height (even, <= 64);
 *    symmetric 7-tap kernels with taps inside WIENER_FILT_TAPn_MINV..MAXV (5- and 3-tap variants
 *    have the outer taps zero), tap[3] = -2 * (t0 + t1 + t2), tap[7] = 0, 16-byte aligned;
 *    ConvolveParams from get_conv_params_wiener(); the 16-bit flavour takes CONVERT_TO_BYTEPTR
 *    pointers; source = deblocked picture with >= 3 valid samples around the unit;
 *  - self-guided: unit up to 64x64 with a 3-sample border, parameter set 0..15, xqd inside
 *    SGRPROJ_PRJ_MIN/MAX, tmpbuf = RESTORATION_TMPBUF_SIZE scratch (not compared); flt0 / flt1 are
 *    only written for a non-zero radius. */
#include "EbRestoration.h"
#include "convolve.h"
#include "kdiff.h"
#include "kdiff_sigs.h"

static void *rest_src(KdCtx *k, int w, int h, int border, int es, int maxv, int *stride) {
    int fw = w + 2 * border, fh = h + 2 * border;
    *stride = kstride(k, fw + 16, 1);
    /* a picture: rows continue to the left/right, more rows exist above/below (restoration frame
     * border).  The AVX2 integral-image code works on 8x8 groups and touches up to 7 rows / columns
     * past the 3-sample border; their content must not matter. */
    kpad(k, 128 + 8 * (size_t)*stride * (size_t)es, 128 + 8 * (size_t)*stride * (size_t)es);
    uint8_t *b = (uint8_t *)kb2(k, fw, fh, *stride, es, 64, kr_range(k, 0, 15), 0);
    kfill2(k, b, fw, fh, *stride, es, 0, maxv);
    return b + (size_t)(border * *stride + border) * (size_t)es;
}

static int16_t *wiener_kernel(KdCtx *k, int taps, int kind) {
    int16_t *f = (int16_t *)kb(k, 8, 2, 16);
    int      t0, t1, t2;
    if (kind == 0) t0 = WIENER_FILT_TAP0_MINV, t1 = WIENER_FILT_TAP1_MINV, t2 = WIENER_FILT_TAP2_MINV;
    else if (kind == 1) t0 = WIENER_FILT_TAP0_MAXV, t1 = WIENER_FILT_TAP1_MAXV, t2 = WIENER_FILT_TAP2_MAXV;
    else if (kind == 2) t0 = t1 = t2 = 0;
    else {
        t0 = kr_range(k, WIENER_FILT_TAP0_MINV, WIENER_FILT_TAP0_MAXV);
        t1 = kr_range(k, WIENER_FILT_TAP1_MINV, WIENER_FILT_TAP1_MAXV);
        t2 = kr_range(k, WIENER_FILT_TAP2_MINV, WIENER_FILT_TAP2_MAXV);
    }
    if (taps <= 5) t0 = 0;
    if (taps <= 3) t1 = 0;
    f[0] = f[6] = (int16_t)t0, f[1] = f[5] = (int16_t)t1, f[2] = f[4] = (int16_t)t2;
    f[3] = (int16_t)(-2 * (t0 + t1 + t2));
    f[7] = 0;
    return f;
}

static ConvolveParams *wiener_cp(KdCtx *k, int bd) {
    ConvolveParams  c  = get_conv_params_wiener(bd);
    ConvolveParams *cp = (ConvolveParams *)kb(k, sizeof(ConvolveParams), 1, 8);
    cp->round_0 = c.round_0, cp->round_1 = c.round_1;
    return cp;
}

KDH(wiener_conv) {
    static const int taps_l[] = {7, 5, 3};
    int              w = 16 * kr_range(k, 1, 4), h = 2 * kr_range(k, 1, 32), taps = taps_l[k->icase % 3], ss, ds;
    int              kind = k->icase < 12 ? (k->icase / 3) % 4 : 3;
    const uint8_t   *src = (const uint8_t *)rest_src(k, w, h, 4, 1, 255, &ss);
    ds                   = kstride(k, w, 1);
    uint8_t *dst         = (uint8_t *)kb2(k, w, h, ds, 1, 64, 16 * kr_range(k, 0, 2), 0);
    kprefill2(k, dst, w, h, ds, 1);
    int16_t        *fx = wiener_kernel(k, taps, kind), *fy = wiener_kernel(k, taps, kind);
    ConvolveParams *cp = wiener_cp(k, 8);
    ka(k, "w", w), ka(k, "h", h), ka(k, "taps", taps), ka(k, "kernel_kind", kind), ka(k, "src_stride", ss), ka(k, "dst_stride", ds);
    kcall(k);
    KFN(k, wiener_conv)(src, ss, dst, ds, fx, fy, w, h, cp);
}
KDH(wiener_conv_hbd) {
    static const int taps_l[] = {7, 5, 3};
    int              w = 16 * kr_range(k, 1, 4), h = 2 * kr_range(k, 1, 32), taps = taps_l[k->icase % 3], ss, ds;
    int              kind = k->icase < 12 ? (k->icase / 3) % 4 : 3, bd = kr_bool(k) ? 10 : 8;
    const uint16_t  *src = (const uint16_t *)rest_src(k, w, h, 4, 2, (1 << bd) - 1, &ss);
    ds                   = kstride(k, w, 1);
    uint16_t *dst        = (uint16_t *)kb2(k, w, h, ds, 2, 64, 16 * kr_range(k, 0, 2), 0);
    kprefill2(k, dst, w, h, ds, 2);
    int16_t        *fx = wiener_kernel(k, taps, kind), *fy = wiener_kernel(k, taps, kind);
    ConvolveParams *cp = wiener_cp(k, bd);
    ka(k, "w", w), ka(k, "h", h), ka(k, "taps", taps), ka(k, "kernel_kind", kind), ka(k, "src_stride", ss), ka(k, "dst_stride", ds), ka(k, "bd", bd);
    kcall(k);
    KFN(k, wiener_conv_hbd)(CONVERT_TO_BYTEPTR(src), ss, CONVERT_TO_BYTEPTR(dst), ds, fx, fy, w, h, cp, bd);
}

/* self-guided filter */
static void sgr_size(KdCtx *k, int *w, int *h) {
    switch (kr_range(k, 0, 3)) {
    case 0: *w = 64, *h = 64; break;
    case 1: *w = 8 * kr_range(k, 1, 8), *h = 8 * kr_range(k, 1, 8); break;
    case 2: *w = 4 * kr_range(k, 1, 16), *h = 2 * kr_range(k, 1, 32); break;
    default: *w = 64, *h = 2 * kr_range(k, 1, 32); break;
    }
}
KDH(sgr) {
    int w, h, ds, hbd = kr_bool(k), bd = hbd ? (kr_bool(k) ? 10 : 8) : 8, idx = k->icase % SGRPROJ_PARAMS;
    sgr_size(k, &w, &h);
    void    *dgd = rest_src(k, w, h, 3, hbd ? 2 : 1, (1 << bd) - 1, &ds);
    int      fs  = kr_bool(k) ? w : kstride(k, w, 8);
    /* the AVX2 kernel stores whole groups of 8 values per row (as libaom's): up to 7 values past
     * `width` are overwritten; they belong to the scratch planes (tmpbuf): unspecified, not compared */
    int      wr = (w + 7) & ~7;
    if (fs < wr) fs = wr;
    int32_t *f0 = (int32_t *)kb2(k, wr, h, fs, 4, 32, 0, 0), *f1 = (int32_t *)kb2(k, wr, h, fs, 4, 32, 0, 0);
    ka(k, "w", w), ka(k, "h", h), ka(k, "dgd_stride", ds), ka(k, "flt_stride", fs), ka(k, "sgr_params_idx", idx), ka(k, "bd", bd), ka(k, "highbd", hbd);
    kcall(k);
    KFN(k, sgr)(hbd ? CONVERT_TO_BYTEPTR(dgd) : (const uint8_t *)dgd, w, h, ds, f0, f1, fs, idx, bd, hbd);
    /* a zero radius leaves the corresponding plane unspecified */
    for (int y = 0; y < h; y++) {
        if (eb_sgr_params[idx].r[0] == 0) kdontcare(k, f0 + y * fs, (size_t)wr * 4);
        else if (wr > w) kdontcare(k, f0 + y * fs + w, (size_t)(wr - w) * 4);
        if (eb_sgr_params[idx].r[1] == 0) kdontcare(k, f1 + y * fs, (size_t)wr * 4);
        else if (wr > w) kdontcare(k, f1 + y * fs + w, (size_t)(wr - w) * 4);
    }
}
KDH(sgr_apply) {
    int w, h, ss, ds, hbd = kr_bool(k), bd = hbd ? (kr_bool(k) ? 10 : 8) : 8, eps = k->icase % SGRPROJ_PARAMS, es = hbd ? 2 : 1;
    sgr_size(k, &w, &h);
    void *dat = rest_src(k, w, h, 3, es, (1 << bd) - 1, &ss);
    /* dst rows are written in groups of 16 samples (as in libaom): up to 15 samples past `width` are
     * overwritten - the next processing unit or the picture border; unspecified, not compared */
    int wr    = (w + 15) & ~15;
    ds        = kstride(k, wr, 1);
    void *dst = kb2(k, wr, h, ds, es, 64, 16 * kr_range(k, 0, 2), 0);
    kprefill2(k, dst, wr, h, ds, es);
    int32_t *xqd = (int32_t *)kb(k, 2, 4, 8);
    xqd[0]       = kr_range(k, SGRPROJ_PRJ_MIN0, SGRPROJ_PRJ_MAX0);
    xqd[1]       = kr_range(k, SGRPROJ_PRJ_MIN1, SGRPROJ_PRJ_MAX1);
    int32_t *tmp = (int32_t *)kb(k, RESTORATION_TMPBUF_SIZE / 4, 4, 32);
    ka(k, "w", w), ka(k, "h", h), ka(k, "stride", ss), ka(k, "dst_stride", ds), ka(k, "eps", eps), ka(k, "xqd0", xqd[0]), ka(k, "xqd1", xqd[1]),
        ka(k, "bd", bd), ka(k, "highbd", hbd);
    kcall(k);
    KFN(k, sgr_apply)(hbd ? CONVERT_TO_BYTEPTR(dat) : (const uint8_t *)dat, w, h, ss, eps, xqd, hbd ? CONVERT_TO_BYTEPTR(dst) : (uint8_t *)dst, ds,
                      tmp, bd, hbd);
    kdontcare(k, tmp, RESTORATION_TMPBUF_SIZE); /* scratch */
    if (wr > w)
        for (int y = 0; y < h; y++) kdontcare(k, (uint8_t *)dst + ((size_t)y * (size_t)ds + (size_t)w) * (size_t)es, (size_t)(wr - w) * (size_t)es);
}
