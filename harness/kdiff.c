/* kdiff - framework + main of the C07 kernel differential harness (see kdiff.h).
 *
 * usage: kdiff --seed S --n N [--shard a/b] [--after PTR] [--only PTR] [--case I] [--variant FN] [--isa avx512] [--exact] [--list]
 * output (stdout, one record per line):
 *   B ptr=<p>                                             (kernel started; a process that dies names the culprit)
 *   K ptr=<p> file=<f> handler=<h> cases=<n> skipped=<n> nonconst=<n> variants=<fn>:<flag>:<compared>,...
 *   U ptr=<p> reason=<no-handler|signature|no-variant-on-host> variants=...
 *   M kind=<mismatch|retval|junk-write> ptr=<p> fn=<fn> case=<i> what="<text>" args="<tuple>"
 *   A ptr=<p> fn=<fn> case=<i> args="<tuple>"           (ASan report raised while <fn> ran)
 *   X ptr=<p> fn=<fn> case=<i> sig=<n> args="<tuple>"   (fatal signal)
 *   E <text>                                              (harness-internal error)
 */
#include <signal.h>
#include <stdio.h>
#include <stdlib.h>
#include <unistd.h>

#include "aom_dsp_rtcd.h"
#include "kdiff.h"
#include "vcommon.h"

const int kd_bsizes[22][2] = {{4, 4},   {4, 8},   {8, 4},   {8, 8},   {8, 16},   {16, 8},  {16, 16}, {16, 32},
                              {32, 16}, {32, 32}, {32, 64}, {64, 32}, {64, 64},  {64, 128}, {128, 64}, {128, 128},
                              {4, 16},  {16, 4},  {8, 32},  {32, 8},  {16, 64},  {64, 16}};

/* ------------------------------------------------------------------ RNG */
static inline uint64_t mix64(uint64_t x) {
    x += 0x9E3779B97F4A7C15ull;
    x = (x ^ (x >> 30)) * 0xBF58476D1CE4E5B9ull;
    x = (x ^ (x >> 27)) * 0x94D049BB133111EBull;
    return x ^ (x >> 31);
}
static inline uint64_t next64(uint64_t *s) {
    *s += 0x9E3779B97F4A7C15ull;
    uint64_t x = *s;
    x          = (x ^ (x >> 30)) * 0xBF58476D1CE4E5B9ull;
    x          = (x ^ (x >> 27)) * 0x94D049BB133111EBull;
    return x ^ (x >> 31);
}
uint32_t kr(KdCtx *k) { return (uint32_t)(next64(&k->rng) >> 32); }
int      kr_range(KdCtx *k, int lo, int hi) {
    if (hi <= lo) return lo;
    return lo + (int)(kr(k) % (uint32_t)(hi - lo + 1));
}
int kr_bool(KdCtx *k) { return kr(k) & 1; }

void ka(KdCtx *k, const char *name, long long v) {
    if (k->run != 0) return;
    int n = snprintf(k->args + k->argn, sizeof(k->args) - k->argn, "%s%s=%lld", k->argn ? " " : "", name, v);
    if (n > 0 && (size_t)n < sizeof(k->args) - k->argn) k->argn += (size_t)n;
}

/* ------------------------------------------------------------------ memory */
#define ARENA_BYTES ((size_t)192 << 20)
static uint8_t *g_arena;
static size_t   g_arena_used;

static void *arena_get(size_t n) {
    n = (n + 63) & ~(size_t)63;
    if (g_arena_used + n > ARENA_BYTES) {
        printf("E arena exhausted (%zu + %zu)\n", g_arena_used, n);
        fflush(stdout);
        _exit(71);
    }
    void *p = g_arena + g_arena_used;
    g_arena_used += n;
    return p;
}

static void junk_fill(KdCtx *k, KdBuf *b) {
    /* junk bytes: values that differ between runs */
    uint64_t s = k->junk;
    size_t   i = 0;
    while (i < b->total) {
        if (b->mask[i]) {
            i++;
            continue;
        }
        uint64_t r = next64(&s);
        for (int j = 0; j < 8 && i < b->total && !b->mask[i]; j++, i++) b->alloc[i] = (uint8_t)(r >> (8 * j));
    }
    k->junk = s;
}

static KdBuf *buf_new(KdCtx *k, size_t bytes, int align) {
    if (k->nbuf >= KD_MAXBUF) {
        printf("E too many buffers in handler %s\n", k->e->hname);
        fflush(stdout);
        _exit(71);
    }
    if (align <= 0) align = 64;
    KdBuf *b = &k->buf[k->nbuf++];
    memset(b, 0, sizeof(*b));
    if (bytes == 0) bytes = 1;
    b->size = bytes;
    /* keep the requested alignment of the user pointer: round the leading pad up */
    size_t ppre  = (k->pad_pre + (size_t)align - 1) / (size_t)align * (size_t)align;
    size_t ppost = k->pad_post;
    k->pad_pre = k->pad_post = 0;
    if (k->exact) {
        void *p = NULL;
        b->front = ppre;
        b->total = ppre + bytes + ppost;
        if (posix_memalign(&p, (size_t)(align < 16 ? 16 : align), b->total) != 0 || !p) {
            printf("E out of memory\n");
            fflush(stdout);
            _exit(71);
        }
        b->alloc = (uint8_t *)p;
        b->user  = b->alloc + b->front;
        b->mask  = (uint8_t *)malloc(b->total);
        b->pre   = (uint8_t *)malloc(b->total);
    } else {
        b->front = KD_GUARD + ppre;
        b->total = b->front + bytes + ppost + KD_GUARD;
        b->alloc = (uint8_t *)arena_get(b->total);
        b->user  = b->alloc + b->front;
        b->mask  = (uint8_t *)arena_get(b->total);
        b->pre   = (uint8_t *)arena_get(b->total);
    }
    memset(b->mask, 0, b->total);
    return b;
}
void kpad(KdCtx *k, size_t pre_bytes, size_t post_bytes) {
    k->pad_pre  = pre_bytes;
    k->pad_post = post_bytes;
}

void kjunk(KdCtx *k, void *p, size_t bytes) {
    for (int i = 0; i < k->nbuf; i++) {
        KdBuf *b = &k->buf[i];
        if ((uint8_t *)p >= b->alloc && (uint8_t *)p + bytes <= b->alloc + b->total) {
            size_t   o = (size_t)((uint8_t *)p - b->alloc);
            uint64_t s = k->junk;
            memset(b->mask + o, 0, bytes);
            for (size_t j = 0; j < bytes; j++) b->alloc[o + j] = (uint8_t)(next64(&s) >> 24);
            k->junk = s;
            return;
        }
    }
    printf("E kjunk: region not inside a buffer (%s)\n", k->e->hname);
}

void *kb(KdCtx *k, size_t n, int esize, int align) {
    KdBuf *b = buf_new(k, n * (size_t)esize, align);
    memset(b->mask + b->front, 1, b->size);
    memset(b->user, 0, b->size);
    junk_fill(k, b);
    return b->user;
}

void *kb2(KdCtx *k, int w, int h, int stride, int esize, int align, int pre, int post) {
    if (w < 1) w = 1;
    if (h < 1) h = 1;
    if (stride < w) stride = w;
    size_t els   = (size_t)pre + (size_t)(h - 1) * (size_t)stride + (size_t)w + (size_t)post;
    KdBuf *b     = buf_new(k, els * (size_t)esize, align);
    uint8_t *m   = b->mask + b->front;
    size_t   row = (size_t)w * (size_t)esize;
    if (pre) memset(m, 1, (size_t)pre * (size_t)esize);
    for (int y = 0; y < h; y++) memset(m + ((size_t)pre + (size_t)y * (size_t)stride) * (size_t)esize, 1, row);
    if (post) memset(m + ((size_t)pre + (size_t)(h - 1) * (size_t)stride + (size_t)w) * (size_t)esize, 1,
                     (size_t)post * (size_t)esize);
    memset(b->user, 0, b->size);
    junk_fill(k, b);
    return b->user + (size_t)pre * (size_t)esize;
}

static inline void put(void *p, size_t i, int esize, long long v) {
    switch (esize) {
    case 1: ((uint8_t *)p)[i] = (uint8_t)v; break;
    case 2: ((uint16_t *)p)[i] = (uint16_t)v; break;
    case 4: ((uint32_t *)p)[i] = (uint32_t)v; break;
    default: ((uint64_t *)p)[i] = (uint64_t)v; break;
    }
}

/* fill kinds */
enum { F_ZERO, F_HI, F_LO, F_ALT_BUF, F_ALT_BUF_R, F_CHECKER, F_RAMP, F_RANDOM, F_EXTREMES, F_MIXED };

static int buffer_kind(KdCtx *k, int *seq) {
    int kind = k->mode;
    *seq     = k->bufseq++;
    if (kind == F_MIXED) {
        uint32_t r = kr(k) % 16;
        kind       = r < 7 ? F_RANDOM : r < 11 ? F_EXTREMES : r == 11 ? F_RAMP : r == 12 ? F_CHECKER : r == 13 ? F_HI : r == 14 ? F_LO : F_ZERO;
    } else if (kind == F_ALT_BUF || kind == F_ALT_BUF_R) {
        kind = (((*seq) & 1) ^ (kind == F_ALT_BUF_R)) ? F_LO : F_HI;
    }
    return kind;
}

static inline long long gen_val(KdCtx *k, int kind, int seq, int x, int y, long long lo, long long hi) {
    unsigned long long span = (unsigned long long)(hi - lo) + 1ull;
    switch (kind) {
    case F_ZERO: return lo > 0 ? lo : hi < 0 ? hi : 0;
    case F_HI: return hi;
    case F_LO: return lo;
    case F_CHECKER: return ((x + y + seq) & 1) ? hi : lo;
    case F_RAMP: return lo + (long long)(((unsigned long long)x + 3ull * (unsigned long long)y + 7ull * (unsigned long long)seq) % span);
    case F_EXTREMES: {
        uint64_t r = next64(&k->rng);
        if ((r & 15) == 0) return (r & 16) ? hi : lo;
        return lo + (long long)((r >> 8) % span);
    }
    default: return lo + (long long)((next64(&k->rng) >> 8) % span);
    }
}

void kfill2(KdCtx *k, void *p, int w, int h, int stride, int esize, long long lo, long long hi) {
    int seq, kind = buffer_kind(k, &seq);
    if (kind >= F_CHECKER && lo < hi && (size_t)w * (size_t)h > 1) k->nonconst = 1;
    for (int y = 0; y < h; y++)
        for (int x = 0; x < w; x++) put(p, (size_t)y * (size_t)stride + (size_t)x, esize, gen_val(k, kind, seq, x, y, lo, hi));
}
void kfill(KdCtx *k, void *p, size_t n, int esize, long long lo, long long hi) {
    int seq, kind = buffer_kind(k, &seq);
    if (kind >= F_CHECKER && lo < hi && n > 1) k->nonconst = 1;
    for (size_t i = 0; i < n; i++) put(p, i, esize, gen_val(k, kind, seq, (int)i, 0, lo, hi));
}
void kfill_rand(KdCtx *k, void *p, size_t n, int esize, long long lo, long long hi) {
    if (lo < hi && n > 1) k->nonconst = 1;
    for (size_t i = 0; i < n; i++) put(p, i, esize, gen_val(k, F_RANDOM, 0, 0, 0, lo, hi));
}
void kprefill2(KdCtx *k, void *p, int w, int h, int stride, int esize) {
    (void)k;
    for (int y = 0; y < h; y++)
        for (int x = 0; x < w; x++) put(p, (size_t)y * (size_t)stride + (size_t)x, esize, 0x5a5a5a5a5a5a5a5aLL);
}
void kdontcare(KdCtx *k, void *p, size_t bytes) {
    (void)k;
    memset(p, 0, bytes);
}
void kret(KdCtx *k, uint64_t v) {
    if (k->nret < KD_MAXRET) k->ret[k->nret++] = v;
}
void kcall(KdCtx *k) {
    for (int i = 0; i < k->nbuf; i++) memcpy(k->buf[i].pre, k->buf[i].alloc, k->buf[i].total);
    k->called = 1;
}
int kstride(KdCtx *k, int w, int mult) {
    int s;
    switch (kr(k) % 4) {
    case 0: s = w; break;
    case 1: s = w + 1 + 2 * (int)(kr(k) % 8); break; /* width + odd */
    case 2: s = w + 8 * (1 + (int)(kr(k) % 8)); break;
    default: s = w + 256 + 16 * (int)(kr(k) % 16); break; /* large */
    }
    if (mult > 1) s = (s + mult - 1) / mult * mult;
    return s;
}

/* ------------------------------------------------------------------ running */
static KdCtx        g_k;
static uint64_t     g_isa_mask; /* --isa: compare only variants needing this CPU flag */
static const char  *g_cur_fn = "";
static volatile int g_asan_reports;
static int          g_in_kernel;

static void release_buffers(KdCtx *k) {
    if (k->exact)
        for (int i = 0; i < k->nbuf; i++) {
            free(k->buf[i].alloc);
            free(k->buf[i].mask);
            free(k->buf[i].pre);
        }
    k->nbuf      = 0;
    g_arena_used = 0;
}

static void on_signal(int sig) {
    char b[2048];
    int  n = snprintf(b, sizeof(b), "\nX ptr=%s fn=%s case=%d sig=%d args=\"%s\"\n", g_k.e ? g_k.e->ptr : "?", g_cur_fn, g_k.icase,
                     sig, g_k.args);
    if (n > 0) (void)!write(1, b, (size_t)n);
    _exit(70);
}

void __asan_set_error_report_callback(void (*cb)(const char *)) __attribute__((weak));
void __asan_on_error(void);
void __asan_on_error(void) {
    /* called by the ASan runtime at the start of every report */
    g_asan_reports++;
    char b[2048];
    int  n = snprintf(b, sizeof(b), "\nA ptr=%s fn=%s case=%d inkernel=%d tag=%s args=\"%s\"\n", g_k.e ? g_k.e->ptr : "?", g_cur_fn,
                     g_k.icase, g_in_kernel, g_k.tag ? g_k.tag : "-", g_k.args);
    if (n > 0) (void)!write(1, b, (size_t)n);
}

typedef struct {
    uint8_t *blob;
    size_t   cap, len;
    int      nret;
    uint64_t ret[KD_MAXRET];
    int      nbuf;
    size_t   bsize[KD_MAXBUF];
} RefResult;
static RefResult g_ref;

static void emit_m(KdCtx *k, const char *kind, const char *fn, const char *what) {
    printf("M kind=%s ptr=%s fn=%s case=%d tag=%s what=\"%s\" args=\"%s\"\n", kind, k->e->ptr, fn, k->icase, k->tag ? k->tag : "-", what,
           k->args);
    fflush(stdout);
}

/* returns number of problems found */
static int check_junk(KdCtx *k, const char *fn) {
    for (int i = 0; i < k->nbuf; i++) {
        KdBuf *b = &k->buf[i];
        for (size_t j = 0; j < b->total; j++) {
            if (!b->mask[j] && b->alloc[j] != b->pre[j]) {
                char      w[256];
                long long off = (long long)j - (long long)b->front;
                snprintf(w, sizeof(w), "buffer #%d: byte at offset %lld of %zu (outside the declared region) was overwritten: 0x%02x -> 0x%02x",
                         i, off, b->size, b->pre[j], b->alloc[j]);
                emit_m(k, "junk-write", fn, w);
                return 1;
            }
        }
    }
    return 0;
}

static void run_handler(KdCtx *k, const KdVariant *v, int run, uint64_t case_seed) {
    k->fn       = v->fn;
    k->run      = run;
    k->rng      = case_seed;
    k->junk     = mix64(case_seed ^ (0xA5A5ull + (uint64_t)run * 0x1234567ull));
    k->nret     = 0;
    k->skip     = 0;
    k->called   = 0;
    k->bufseq   = 0;
    k->nonconst = 0;
    k->tag      = NULL;
    if (run == 0) {
        k->argn    = 0;
        k->args[0] = 0;
    }
    g_cur_fn    = v->name;
    g_in_kernel = 1;
    k->e->h(k);
    g_in_kernel = 0;
}

static int case_mode(int i) {
    if (i < F_MIXED) return i;
    if (i % 8 == 0) return (i / 8) % F_MIXED;
    return F_MIXED;
}

typedef struct {
    long cases, skipped, nonconst_cases;
    long compared[16], bad[16], nonconst_cmp[16];
} EntryStats;

static void run_case(KdCtx *k, const KdEntry *e, int icase, uint64_t seed, uint64_t hostflags, const char *only_variant, EntryStats *st,
                     int verbose) {
    uint64_t h = 1469598103934665603ull;
    for (const char *c = e->ptr; *c; c++) h = (h ^ (uint8_t)*c) * 1099511628211ull;
    uint64_t cs = mix64(mix64(seed) ^ h ^ mix64((uint64_t)icase * 0x9E3779B1ull));
    k->e        = e;
    k->icase    = icase;
    k->mode     = case_mode(icase);
    run_handler(k, &e->v[0], 0, cs);
    if (k->skip) {
        st->skipped++;
        release_buffers(k);
        return;
    }
    if (!k->called) {
        printf("E handler %s did not call kcall()\n", e->hname);
        release_buffers(k);
        return;
    }
    st->cases++;
    int nonconst = k->nonconst;
    if (nonconst) st->nonconst_cases++;
    if (verbose) printf("I ptr=%s case=%d mode=%d args=\"%s\"\n", e->ptr, icase, k->mode, k->args);
    check_junk(k, e->v[0].name);
    /* snapshot the reference result */
    size_t need = 0;
    for (int i = 0; i < k->nbuf; i++) need += k->buf[i].size;
    if (need > g_ref.cap) {
        g_ref.cap  = need * 2 + 4096;
        g_ref.blob = (uint8_t *)realloc(g_ref.blob, g_ref.cap);
    }
    size_t o   = 0;
    g_ref.nbuf = k->nbuf;
    for (int i = 0; i < k->nbuf; i++) {
        KdBuf *b = &k->buf[i];
        memcpy(g_ref.blob + o, b->user, b->size);
        g_ref.bsize[i] = b->size;
        o += b->size;
    }
    g_ref.len  = o;
    g_ref.nret = k->nret;
    memcpy(g_ref.ret, k->ret, sizeof(uint64_t) * (size_t)k->nret);
    release_buffers(k);

    for (int vi = 1; e->v[vi].name; vi++) {
        const KdVariant *v = &e->v[vi];
        if ((v->flag & hostflags) != v->flag) continue;
        if (only_variant && strcmp(only_variant, v->name)) continue;
        if (g_isa_mask && !(v->flag & g_isa_mask)) continue;
        run_handler(k, v, vi, cs);
        int bad = 0;
        if (k->skip || !k->called || k->nbuf != g_ref.nbuf) {
            printf("E handler %s is not deterministic (skip/buffers differ between runs)\n", e->hname);
            bad = 1;
        } else {
            bad += check_junk(k, v->name);
            size_t off = 0;
            for (int i = 0; i < k->nbuf && !bad; i++) {
                KdBuf *b = &k->buf[i];
                if (b->size != g_ref.bsize[i]) {
                    printf("E handler %s is not deterministic (buffer %d size)\n", e->hname, i);
                    bad = 1;
                    break;
                }
                const uint8_t *m = b->mask + b->front;
                const uint8_t *r = g_ref.blob + off;
                if (memcmp(r, b->user, b->size)) {
                    for (size_t j = 0; j < b->size; j++) {
                        if (m[j] && r[j] != b->user[j]) {
                            char   w[320];
                            size_t ndiff = 0;
                            for (size_t q = j; q < b->size; q++) ndiff += (m[q] && r[q] != b->user[q]);
                            snprintf(w, sizeof(w), "buffer #%d differs at byte %zu of %zu: C=0x%02x %s=0x%02x (%zu differing bytes)", i, j,
                                     b->size, r[j], v->name, b->user[j], ndiff);
                            emit_m(k, "mismatch", v->name, w);
                            bad = 1;
                            break;
                        }
                    }
                }
                off += b->size;
            }
            if (!bad) {
                if (k->nret != g_ref.nret) {
                    printf("E handler %s is not deterministic (return count)\n", e->hname);
                    bad = 1;
                } else
                    for (int i = 0; i < k->nret; i++)
                        if (k->ret[i] != g_ref.ret[i]) {
                            char w[256];
                            snprintf(w, sizeof(w), "return value #%d: C=0x%llx (%lld) %s=0x%llx (%lld)", i, (unsigned long long)g_ref.ret[i],
                                     (long long)g_ref.ret[i], v->name, (unsigned long long)k->ret[i], (long long)k->ret[i]);
                            emit_m(k, "retval", v->name, w);
                            bad = 1;
                            break;
                        }
            }
        }
        if (vi < 16) {
            st->compared[vi]++;
            st->bad[vi] += bad;
            if (nonconst) st->nonconst_cmp[vi]++;
        }
        if (verbose) printf("I   %s: %s\n", v->name, bad ? "DIFFERENT" : "identical");
        if (verbose && bad && !k->skip && k->nbuf == g_ref.nbuf) { /* replay: dump the (small) buffers, C vs variant */
            size_t off = 0;
            for (int i = 0; i < k->nbuf; i++) {
                KdBuf *b = &k->buf[i];
                if (b->size == g_ref.bsize[i] && b->size <= 20000) {
                    int same = !memcmp(g_ref.blob + off, b->user, b->size);
                    printf("D buffer #%d (%zu bytes) %s\nD   C  :", i, b->size, same ? "same in both" : "DIFFERS");
                    for (size_t j = 0; j < b->size; j++) printf("%s%02x", (j & 3) ? "" : " ", g_ref.blob[off + j]);
                    if (!same) {
                        printf("\nD   var:");
                        for (size_t j = 0; j < b->size; j++) printf("%s%02x", (j & 3) ? "" : " ", b->user[j]);
                    }
                    printf("\n");
                }
                off += g_ref.bsize[i];
            }
        }
        release_buffers(k);
    }
}

static const char *flag_name(uint64_t f) {
    if (f & CPU_FLAGS_AVX512F) return "avx512";
    if (f & CPU_FLAGS_AVX2) return "avx2";
    if (f & CPU_FLAGS_AVX) return "avx";
    if (f & CPU_FLAGS_SSE4_2) return "sse4_2";
    if (f & CPU_FLAGS_SSE4_1) return "sse4_1";
    if (f & CPU_FLAGS_SSSE3) return "ssse3";
    if (f & CPU_FLAGS_SSE3) return "sse3";
    if (f & CPU_FLAGS_SSE2) return "sse2";
    if (f & CPU_FLAGS_SSE) return "sse";
    if (f & CPU_FLAGS_MMX) return "mmx";
    return "c";
}

void kdiff_global_init(void); /* kdiff_init.c: library tables the kernels rely on */

int main(int argc, char **argv) {
    v_drop_sys_nice();
    uint64_t    seed = 1;
    long        n = 200, only_case = -1;
    int         shard_a = 0, shard_b = 1, list = 0, exact = 0, verbose = 0;
    const char *only = NULL, *only_variant = NULL, *after = NULL;
    for (int i = 1; i < argc; i++) {
        if (!strcmp(argv[i], "--seed") && i + 1 < argc) seed = strtoull(argv[++i], 0, 10);
        else if (!strcmp(argv[i], "--n") && i + 1 < argc) n = atol(argv[++i]);
        else if (!strcmp(argv[i], "--shard") && i + 1 < argc) sscanf(argv[++i], "%d/%d", &shard_a, &shard_b);
        else if (!strcmp(argv[i], "--only") && i + 1 < argc) only = argv[++i];
        else if (!strcmp(argv[i], "--case") && i + 1 < argc) only_case = atol(argv[++i]);
        else if (!strcmp(argv[i], "--variant") && i + 1 < argc) only_variant = argv[++i];
        else if (!strcmp(argv[i], "--exact")) exact = 1;
        else if (!strcmp(argv[i], "--list")) list = 1;
        else if (!strcmp(argv[i], "-v")) verbose = 1;
        else if (!strcmp(argv[i], "--after") && i + 1 < argc) after = argv[++i];
        else if (!strcmp(argv[i], "--isa") && i + 1 < argc) {
            const char *n = argv[++i];
            g_isa_mask    = !strcmp(n, "avx512") ? CPU_FLAGS_AVX512F : !strcmp(n, "avx2") ? CPU_FLAGS_AVX2 : 0;
        }
        else {
            fprintf(stderr, "kdiff: bad argument %s\n", argv[i]);
            return 2;
        }
    }
    if (shard_b < 1) shard_b = 1;
    setvbuf(stdout, NULL, _IOLBF, 0);
    uint64_t hostflags = (uint64_t)get_cpu_flags_to_use();
    printf("H hostflags=0x%llx avx2=%d avx512=%d exact=%d seed=%llu n=%ld\n", (unsigned long long)hostflags, !!(hostflags & CPU_FLAGS_AVX2),
           !!(hostflags & CPU_FLAGS_AVX512F), exact, (unsigned long long)seed, n);
    if (list) {
        for (const KdEntry *e = kd_table; e->ptr; e++) {
            printf("L ptr=%s file=%s handler=%s sig_ok=%d variants=", e->ptr, e->file, e->hname[0] ? e->hname : "-", e->sig_ok);
            for (int vi = 0; e->v[vi].name; vi++) printf("%s%s:%s", vi ? "," : "", e->v[vi].name, flag_name(e->v[vi].flag));
            printf("\n");
        }
        return 0;
    }
    g_arena = NULL;
    if (!exact) {
        if (posix_memalign((void **)&g_arena, 4096, ARENA_BYTES)) return 2;
    }
    /* dispatch pointers: the kernels themselves call other kernels through them */
    setup_common_rtcd_internal((CPU_FLAGS)hostflags);
    setup_rtcd_internal((CPU_FLAGS)hostflags);
    kdiff_global_init();

    struct sigaction sa;
    memset(&sa, 0, sizeof(sa));
    sa.sa_handler = on_signal;
#if !defined(__has_feature)
#define __has_feature(x) 0
#endif
#if !__has_feature(address_sanitizer) && !defined(__SANITIZE_ADDRESS__)
    sigaction(SIGSEGV, &sa, NULL);
    sigaction(SIGBUS, &sa, NULL);
#endif
    sigaction(SIGILL, &sa, NULL);
    sigaction(SIGFPE, &sa, NULL);

    KdCtx *k = &g_k;
    memset(k, 0, sizeof(*k));
    k->exact = exact;
    k->ncase = (int)n;
    int idx  = -1;
    for (const KdEntry *e = kd_table; e->ptr; e++) {
        idx++;
        if (only && strcmp(only, e->ptr)) continue;
        if (!only && (idx % shard_b) != shard_a) continue;
        if (after) { /* resume a shard behind the kernel that crashed the previous process */
            if (!strcmp(after, e->ptr)) after = NULL;
            continue;
        }
        int nv = 0, nrun = 0, nisa = 0;
        for (int vi = 1; e->v[vi].name; vi++) {
            nv++;
            if ((e->v[vi].flag & hostflags) == e->v[vi].flag) nrun++;
            if (e->v[vi].flag & g_isa_mask) nisa++;
        }
        if (g_isa_mask && !nisa) continue; /* this run only looks at one ISA level */
        const char *reason = NULL;
        if (!e->h) reason = "no-handler";
        else if (!e->sig_ok) reason = "signature";
        else if (nv == 0) reason = "no-simd-variant";
        else if (nrun == 0) reason = "no-variant-on-host";
        if (reason) {
            printf("U ptr=%s file=%s reason=%s variants=", e->ptr, e->file, reason);
            for (int vi = 1; e->v[vi].name; vi++) printf("%s%s:%s", vi > 1 ? "," : "", e->v[vi].name, flag_name(e->v[vi].flag));
            printf("\n");
            continue;
        }
        printf("B ptr=%s\n", e->ptr);
        EntryStats st;
        memset(&st, 0, sizeof(st));
        k->e = e;
        if (only_case >= 0) run_case(k, e, (int)only_case, seed, hostflags, only_variant, &st, 1);
        else
            for (long i = 0; i < n; i++) run_case(k, e, (int)i, seed, hostflags, only_variant, &st, verbose);
        printf("K ptr=%s file=%s handler=%s cases=%ld skipped=%ld nonconst=%ld variants=", e->ptr, e->file, e->hname, st.cases, st.skipped,
               st.nonconst_cases);
        for (int vi = 1, first = 1; e->v[vi].name; vi++) {
            if (g_isa_mask && !(e->v[vi].flag & g_isa_mask)) continue;
            printf("%s%s:%s:%ld:%ld:%ld", first ? "" : ",", e->v[vi].name, flag_name(e->v[vi].flag), vi < 16 ? st.compared[vi] : 0,
                   vi < 16 ? st.nonconst_cmp[vi] : 0, vi < 16 ? st.bad[vi] : 0);
            first = 0;
        }
        printf("\n");
        g_k.e = NULL;
    }
    printf("Z done\n");
    return 0;
}
