/*
 * segwalk - C24: walks the REAL wavefront EncDec segment scheduler (enc_dec_segments_ctor / enc_dec_segments_init of
 * EbEncDecSegments.c and assign_enc_dec_segments of EbEncDecProcess.c, white-box link) with T worker threads that
 * follow the protocol of mode_decision_kernel:
 *
 *     uint16_t segment_index = 0;                       (thread-local, survives across pictures like in the kernel)
 *     for (;;) { task = get_full(enc-dec tasks fifo);   (initial task ENCDEC_TASKS_MDC_INPUT, feedback tasks
 *         while (assign_enc_dec_segments(segments, &segment_index, task, feedback_fifo)) {    ENCDEC_TASKS_ENCDEC_INPUT
 *             <walk the SBs of the segment: transcription of the kernel's traversal loop>      are posted by the real
 *         }                                                                                    assign function to a
 *         release(task); }                                                                     real SRM)
 *
 *   segwalk walk <out> sb=64|128 T=<workers> grids=derived|all [part=i/n] [reps=r] [sample=k] [yield=permille]
 *                      [seed=s] [stuck_ms=N]
 *       sizes: every picture size in SBs (1..65 x 1..34 for sb=64, 1..33 x 1..17 for sb=128)
 *       grids=derived: the grids load_default_buffer_configuration_settings derives for that size: 1x1
 *               (core_count 1), round(W/sb) x round(H/sb) for every luma size with that SB count, and its halved
 *               variant (core_count 2..3); the segments object is constructed with exactly that grid, as the
 *               encoder does
 *       grids=all: every grid 1..60 x 1..37 that is distinct after the clamping done by enc_dec_segments_init, on an
 *               object constructed with the maxima (60, 37), plus unclamped requests; sample=k keeps 1 in k
 *   segwalk sets      reads "w h cols rows ctor_cols ctor_rows" lines, prints the SB set of every segment (JSON)
 *
 * Static checks per configuration (after the real init): the transcribed traversal visits every SB of the picture
 * exactly once, and each visited SB belongs to the segment the init macros (BAND_INDEX/ROW_INDEX/SEGMENT_INDEX) map
 * it to; every non-empty segment lies inside [starting_seg_index, ending_seg_index] of its row.
 * Dynamic checks per walk: each non-empty segment started exactly once; a segment starts only after the segments
 * holding the left, upper and upper-right neighbour of each of its SBs are done; when the system is quiescent (no task
 * in flight, no task queued - a state predicate, no timer) every SB has been processed.
 */
#include <pthread.h>
#include <sched.h>
#include <semaphore.h>
#include <stdarg.h>

#include "vcommon.h"
#include "EbEncDecSegments.h"
#include "EbEncDecTasks.h"
#include "EbSystemResourceManager.h"
#include "EbThreads.h"
#include "EbVerifHooks.h"

extern EbBool assign_enc_dec_segments(EncDecSegments *segmentPtr, uint16_t *segmentInOutIndex, EncDecTasks *taskPtr,
                                      EbFifo *srmFifoPtr);

#define RLX __ATOMIC_RELAXED
#define MAXW 65
#define MAXH 34
#define MAXSB (MAXW * MAXH)
#define MAXSEG ((ENCDEC_SEGMENTS_MAX_COL_COUNT + ENCDEC_SEGMENTS_MAX_ROW_COUNT) * ENCDEC_SEGMENTS_MAX_ROW_COUNT)
#define MAXT 16
#define TASKS 300
#define MAXDEP 12

/* ---------------------------------------------------------------- configuration being walked */
typedef struct {
    uint32_t w, h, cols, rows, ctor_cols, ctor_rows, sb;
} Cfg;

static EncDecSegments *g_seg;
static Cfg             g_cfg;
static uint32_t        g_total; /* SBs in the picture */

/* static analysis of the current configuration */
static uint16_t g_seg_of[MAXSB]; /* by the init macros */
static uint16_t g_trav_seg[MAXSB]; /* by the traversal transcription, 0xFFFF = not visited */
static uint16_t g_dep[MAXSEG][MAXDEP]; /* segments that must be done before segment s starts */
static uint8_t  g_ndep[MAXSEG];
static uint32_t g_nonempty;

/* dynamic state of the current walk */
static uint32_t g_seq;
static uint32_t g_start_seq[MAXSEG], g_done_seq[MAXSEG], g_start_cnt[MAXSEG];
static uint8_t  g_visit[MAXSB];
static uint32_t g_sb_done, g_tasks_taken, g_tasks_released, g_progress;
static int      g_yield_permille;
static uint64_t g_walk_seed;

/* results */
static FILE *   g_out;
static int      g_nviol;
static uint64_t g_configs, g_walks, g_segments_started, g_sbs_walked, g_feedback_tasks, g_empty_started, g_nonserial;
static uint64_t g_empty_in_range;

static int g_T_report;
static void viol(const char *key, const char *fmt, ...) {
    va_list ap;
    char    msg[400];
    va_start(ap, fmt);
    vsnprintf(msg, sizeof(msg), fmt, ap);
    va_end(ap);
    g_nviol++;
    if (g_nviol <= 40)
        fprintf(g_out,
                "{\"viol\":\"%s\",\"msg\":\"%s\",\"cfg\":{\"T\":%d,\"sb\":%u,\"w\":%u,\"h\":%u,\"cols\":%u,\"rows\":%u,\"ctor_cols\":%u,"
                "\"ctor_rows\":%u}}\n",
                key, msg, g_T_report, g_cfg.sb, g_cfg.w, g_cfg.h, g_cfg.cols, g_cfg.rows, g_cfg.ctor_cols, g_cfg.ctor_rows);
    fflush(g_out);
}

/* ---------------------------------------------------------------- the kernel's traversal loop, transcribed
 * (EbEncDecProcess.c mode_decision_kernel: x/y_sb_start_index, sb_start_index, sb_segment_count, segment_band_size,
 *  the for y / for x loops and the x_sb_start_index update at the end of a row).  visit() gets tile-group-relative
 *  SB coordinates. */
typedef void (*VisitFn)(uint32_t seg, uint32_t x, uint32_t y, void *ctx);

static void traverse_segment(const EncDecSegments *segments_ptr, uint32_t segment_index, uint32_t tile_group_width_in_sb,
                             VisitFn visit, void *ctx) {
    uint32_t x_sb_start_index   = segments_ptr->x_start_array[segment_index];
    uint32_t y_sb_start_index   = segments_ptr->y_start_array[segment_index];
    uint32_t sb_start_index     = y_sb_start_index * tile_group_width_in_sb + x_sb_start_index;
    uint32_t sb_segment_count   = segments_ptr->valid_sb_count_array[segment_index];
    uint32_t segment_row_index  = segment_index / segments_ptr->segment_band_count;
    uint32_t segment_band_index = segment_index - segment_row_index * segments_ptr->segment_band_count;
    uint32_t segment_band_size  = (segments_ptr->sb_band_count * (segment_band_index + 1) + segments_ptr->segment_band_count - 1) /
        segments_ptr->segment_band_count;
    uint32_t x_sb_index, y_sb_index, sb_segment_index;
    uint32_t guard = 0;
    for (y_sb_index = y_sb_start_index, sb_segment_index = sb_start_index; sb_segment_index < sb_start_index + sb_segment_count;
         ++y_sb_index) {
        for (x_sb_index = x_sb_start_index; x_sb_index < tile_group_width_in_sb &&
             (x_sb_index + y_sb_index < segment_band_size) && sb_segment_index < sb_start_index + sb_segment_count;
             ++x_sb_index, ++sb_segment_index) {
            visit(segment_index, x_sb_index, y_sb_index, ctx);
        }
        x_sb_start_index = (x_sb_start_index > 0) ? x_sb_start_index - 1 : 0;
        if (++guard > 4 * MAXH + 8) { /* the kernel would spin here forever */
            visit(segment_index, 0xFFFFFFFFu, 0xFFFFFFFFu, ctx);
            break;
        }
    }
}

/* ---------------------------------------------------------------- static analysis */
static int g_static_bad;

static void static_visit(uint32_t seg, uint32_t x, uint32_t y, void *ctx) {
    (void)ctx;
    if (x == 0xFFFFFFFFu) {
        viol("walk|traversal-does-not-terminate", "segment %u: the traversal loop never reaches its %u SBs", seg,
             (unsigned)g_seg->valid_sb_count_array[seg]);
        g_static_bad = 1;
        return;
    }
    if (x >= g_cfg.w || y >= g_cfg.h) {
        viol("walk|sb-out-of-picture", "segment %u visits SB (%u,%u) outside the %ux%u picture", seg, x, y, g_cfg.w, g_cfg.h);
        g_static_bad = 1;
        return;
    }
    uint32_t i = y * g_cfg.w + x;
    if (g_trav_seg[i] != 0xFFFF) {
        viol("walk|coverage|sb-twice", "SB (%u,%u) is visited by segments %u and %u", x, y, (unsigned)g_trav_seg[i], seg);
        g_static_bad = 1;
    }
    g_trav_seg[i] = (uint16_t)seg;
}

static void add_dep(uint32_t s, uint32_t n) {
    for (int i = 0; i < g_ndep[s]; i++)
        if (g_dep[s][i] == n)
            return;
    if (g_ndep[s] < MAXDEP)
        g_dep[s][g_ndep[s]++] = (uint16_t)n;
    else
        viol("walk|harness", "dependency table too small for segment %u", s);
}

static void static_analysis(void) {
    const EncDecSegments *sp = g_seg;
    uint32_t              w = g_cfg.w, h = g_cfg.h;
    g_static_bad = 0;
    g_total      = w * h;
    if (sp->segment_ttl_count > MAXSEG || sp->segment_ttl_count > sp->segment_max_total_count) {
        viol("walk|segment-count", "segment_ttl_count %u exceeds the constructed capacity %u", sp->segment_ttl_count,
             sp->segment_max_total_count);
        g_static_bad = 1;
        return;
    }
    /* segment of each SB by the init macros */
    for (uint32_t y = 0; y < h; y++)
        for (uint32_t x = 0; x < w; x++) {
            uint32_t band = BAND_INDEX(x, y, sp->segment_band_count, sp->sb_band_count);
            uint32_t row  = ROW_INDEX(y, sp->segment_row_count, sp->sb_row_count);
            g_seg_of[y * w + x] = (uint16_t)SEGMENT_INDEX(row, band, sp->segment_band_count);
        }
    memset(g_trav_seg, 0xff, sizeof(uint16_t) * g_total);
    g_nonempty = 0;
    for (uint32_t s = 0; s < sp->segment_ttl_count; s++) {
        g_ndep[s] = 0;
        if (!sp->valid_sb_count_array[s])
            continue;
        g_nonempty++;
        traverse_segment(sp, s, w, static_visit, NULL);
        uint32_t r = s / sp->segment_band_count;
        if (s < sp->row_array[r].starting_seg_index || s > sp->row_array[r].ending_seg_index) {
            viol("walk|row-range", "segment %u (row %u, %u SBs) lies outside [%u,%u] of its row: it can never be started", s, r,
                 (unsigned)sp->valid_sb_count_array[s], (unsigned)sp->row_array[r].starting_seg_index,
                 (unsigned)sp->row_array[r].ending_seg_index);
            g_static_bad = 1;
        }
    }
    for (uint32_t r = 0; r < sp->segment_row_count; r++)
        for (uint32_t s = sp->row_array[r].starting_seg_index; s <= sp->row_array[r].ending_seg_index && s < sp->segment_ttl_count; s++)
            if (!sp->valid_sb_count_array[s])
                g_empty_in_range++;
    for (uint32_t i = 0; i < g_total && !g_static_bad; i++) {
        if (g_trav_seg[i] == 0xFFFF) {
            viol("walk|coverage|sb-missed", "SB (%u,%u) is visited by no segment (init maps it to segment %u)", i % w, i / w,
                 (unsigned)g_seg_of[i]);
            g_static_bad = 1;
        } else if (g_trav_seg[i] != g_seg_of[i]) {
            viol("walk|coverage|wrong-segment", "SB (%u,%u) is walked by segment %u but the init macros map it to segment %u",
                 i % w, i / w, (unsigned)g_trav_seg[i], (unsigned)g_seg_of[i]);
            g_static_bad = 1;
        }
    }
    if (g_static_bad)
        return;
    /* dependency pairs from the SB neighbourhood (left, up, up-right) */
    for (uint32_t y = 0; y < h; y++)
        for (uint32_t x = 0; x < w; x++) {
            uint32_t s = g_seg_of[y * w + x];
            if (x > 0 && g_seg_of[y * w + x - 1] != s)
                add_dep(s, g_seg_of[y * w + x - 1]);
            if (y > 0 && g_seg_of[(y - 1) * w + x] != s)
                add_dep(s, g_seg_of[(y - 1) * w + x]);
            if (y > 0 && x + 1 < w && g_seg_of[(y - 1) * w + x + 1] != s)
                add_dep(s, g_seg_of[(y - 1) * w + x + 1]);
        }
}

/* ---------------------------------------------------------------- worker pool on a real tasks SRM */
static EbSystemResource *g_tasks;
static int               g_T;
static EbFifo *          g_cf[MAXT], *g_pf[MAXT + 1];
static pthread_t         g_thr[MAXT];
static int               g_in_get[MAXT];
static char              g_dyn_err[300];
static int               g_dyn_err_set;

static void dyn_err(const char *fmt, ...) {
    if (__atomic_exchange_n(&g_dyn_err_set, 1, RLX))
        return;
    va_list ap;
    va_start(ap, fmt);
    vsnprintf(g_dyn_err, sizeof(g_dyn_err), fmt, ap);
    va_end(ap);
}

typedef struct {
    VRng rng;
    int  t;
} WorkerCtx;

static void dyn_visit(uint32_t seg, uint32_t x, uint32_t y, void *ctx) {
    WorkerCtx *wc = (WorkerCtx *)ctx;
    if (x >= g_cfg.w || y >= g_cfg.h) {
        dyn_err("segment %u walks SB (%u,%u) outside the picture", seg, x, y);
        return;
    }
    __atomic_fetch_add(&g_visit[y * g_cfg.w + x], 1, RLX);
    __atomic_fetch_add(&g_sb_done, 1, RLX);
    if (g_yield_permille && (int)v_rng_below(&wc->rng, 4000) < g_yield_permille)
        sched_yield();
}

static void *worker(void *arg) {
    WorkerCtx wc;
    wc.t = (int)(intptr_t)arg;
    uint16_t segment_index = 0;
    uint64_t last_seed     = 0;
    for (;;) {
        EbObjectWrapper *tw = NULL;
        __atomic_store_n(&g_in_get[wc.t], 1, RLX);
        EbErrorType err = svt_get_full_object(g_cf[wc.t], &tw);
        __atomic_store_n(&g_in_get[wc.t], 0, RLX);
        if (err == EB_NoErrorFifoShutdown || !tw)
            return NULL;
        __atomic_fetch_add(&g_tasks_taken, 1, RLX);
        __atomic_fetch_add(&g_progress, 1, RLX);
        if (last_seed != g_walk_seed) {
            last_seed = g_walk_seed;
            v_rng_seed(&wc.rng, g_walk_seed * 31 + (uint64_t)wc.t);
        }
        EncDecTasks *   task         = (EncDecTasks *)tw->object_ptr;
        EncDecSegments *segments_ptr = g_seg;
        if (task->input_type == ENCDEC_TASKS_ENCDEC_INPUT)
            __atomic_fetch_add(&g_feedback_tasks, 1, RLX);
        while (assign_enc_dec_segments(segments_ptr, &segment_index, task, g_pf[1 + wc.t]) == EB_TRUE) {
            uint32_t s = segment_index;
            if (s >= segments_ptr->segment_ttl_count) {
                dyn_err("assign_enc_dec_segments handed out segment index %u, there are %u", s, segments_ptr->segment_ttl_count);
                break;
            }
            uint32_t q = __atomic_add_fetch(&g_seq, 1, RLX);
            __atomic_fetch_add(&g_start_cnt[s], 1, RLX);
            __atomic_store_n(&g_start_seq[s], q, RLX);
            __atomic_fetch_add(&g_progress, 1, RLX);
            if (g_yield_permille && (int)v_rng_below(&wc.rng, 1000) < g_yield_permille)
                sched_yield();
            traverse_segment(segments_ptr, s, g_cfg.w, dyn_visit, &wc);
            if (g_yield_permille && (int)v_rng_below(&wc.rng, 1000) < g_yield_permille)
                sched_yield();
            __atomic_store_n(&g_done_seq[s], __atomic_add_fetch(&g_seq, 1, RLX), RLX);
        }
        svt_release_object(tw);
        __atomic_fetch_add(&g_tasks_released, 1, RLX);
        __atomic_fetch_add(&g_progress, 1, RLX);
    }
}

static EbErrorType pool_start(int T) {
    g_T = T;
    g_T_report = T;
    EB_NEW(g_tasks, svt_system_resource_ctor, TASKS, (uint32_t)T + 1, (uint32_t)T, enc_dec_tasks_creator, NULL, NULL);
    for (int t = 0; t < T; t++) g_cf[t] = svt_system_resource_get_consumer_fifo(g_tasks, (uint32_t)t);
    for (int t = 0; t <= T; t++) g_pf[t] = svt_system_resource_get_producer_fifo(g_tasks, (uint32_t)t);
    EbObjectWrapper *all[TASKS];
    for (int i = 0; i < TASKS; i++) svt_get_empty_object(g_pf[0], &all[i]);
    for (int i = 0; i < TASKS; i++) svt_release_object(all[i]);
    for (int t = 0; t < T; t++) pthread_create(&g_thr[t], NULL, worker, (void *)(intptr_t)t);
    return EB_ErrorNone;
}

/* Quiescence as a state predicate on the real tasks SRM: every task wrapper carries the released mark.
 * A wrapper is unmarked from the get_empty that precedes its post until its release; feedback tasks are taken from
 * the pool by a worker that still holds its own (unmarked) task, so between the first post and the end of the last
 * worker loop at least one wrapper is unmarked at every instant.  (pool_start cycles all wrappers once so that
 * none keeps the constructor's 0.)  The scan must be an atomic snapshot (a wrapper read as released early in the
 * scan can be re-used for a feedback task while the posting worker's own task is released before the scan reaches
 * it): the mark is set under the empty queue's lock and cleared under a producer fifo's lock, so the confirming scan
 * holds all of them (same order as the SRM: queue, then fifos).  The unlocked scan is only a cheap pre-filter. */
#if defined(__clang__) || defined(__GNUC__)
__attribute__((no_sanitize("thread")))
#endif
static int tasks_all_released_racy(void) {
    for (uint32_t i = 0; i < g_tasks->object_total_count; i++)
        if (*(volatile uint32_t *)&g_tasks->wrapper_ptr_pool[i]->live_count != EB_ObjectWrapperReleasedValue)
            return 0;
    return 1;
}

static int tasks_all_released(void) {
    if (!tasks_all_released_racy())
        return 0;
    int ok = 1;
    pthread_mutex_lock((pthread_mutex_t *)g_tasks->empty_queue->lockout_mutex);
    for (int t = 0; t <= g_T; t++) pthread_mutex_lock((pthread_mutex_t *)g_pf[t]->lockout_mutex);
    for (uint32_t i = 0; i < g_tasks->object_total_count; i++)
        if (g_tasks->wrapper_ptr_pool[i]->live_count != EB_ObjectWrapperReleasedValue)
            ok = 0;
    for (int t = g_T; t >= 0; t--) pthread_mutex_unlock((pthread_mutex_t *)g_pf[t]->lockout_mutex);
    pthread_mutex_unlock((pthread_mutex_t *)g_tasks->empty_queue->lockout_mutex);
    return ok;
}

/* ---------------------------------------------------------------- distinct start orders */
static uint64_t *g_hset;
static uint64_t  g_hmask, g_hcount;

static void hset_add(uint64_t v) {
    if (!v)
        v = 1;
    if (g_hcount * 2 > g_hmask)
        return; /* full enough: stop counting rather than degrade */
    uint64_t i = v_mix(v) & g_hmask;
    while (g_hset[i]) {
        if (g_hset[i] == v)
            return;
        i = (i + 1) & g_hmask;
    }
    g_hset[i] = v;
    g_hcount++;
}

typedef struct {
    uint32_t seq, seg;
} Started;
static Started g_started[MAXSEG];
static int     cmp_started(const void *a, const void *b) {
    uint32_t x = ((const Started *)a)->seq, y = ((const Started *)b)->seq;
    return x < y ? -1 : x > y;
}

/* ---------------------------------------------------------------- one walk */
static uint64_t g_stuck_us = 20000000;

static int walk_once(uint64_t seed) {
    const EncDecSegments *sp  = g_seg;
    uint32_t              ttl = sp->segment_ttl_count;
    memset(g_start_seq, 0, sizeof(uint32_t) * ttl);
    memset(g_done_seq, 0, sizeof(uint32_t) * ttl);
    memset(g_start_cnt, 0, sizeof(uint32_t) * ttl);
    memset(g_visit, 0, g_total);
    __atomic_store_n(&g_seq, 0, RLX);
    __atomic_store_n(&g_sb_done, 0, RLX);
    g_dyn_err_set = 0;
    g_walk_seed   = seed;

    EbObjectWrapper *tw;
    svt_get_empty_object(g_pf[0], &tw);
    EncDecTasks *task         = (EncDecTasks *)tw->object_ptr;
    task->pcs_wrapper_ptr     = NULL;
    task->input_type          = ENCDEC_TASKS_MDC_INPUT;
    task->enc_dec_segment_row = 0;
    task->tile_group_index    = 0;
    svt_post_full_object(tw);

    /* wait for quiescence: the first task has been taken, nothing in flight, nothing queued */
    uint32_t last = __atomic_load_n(&g_progress, RLX);
    uint64_t t0   = 0;
    for (uint32_t spin = 0;; spin++) {
        uint32_t taken = __atomic_load_n(&g_tasks_taken, RLX);
        if (tasks_all_released())
            break;
        if (spin < 64)
            continue;
        sched_yield();
        if ((spin & 1023) == 0) {
            uint32_t cur = __atomic_load_n(&g_progress, RLX);
            uint64_t now = v_now_us();
            if (cur != last || !t0) {
                last = cur;
                t0   = now;
            } else if (now - t0 > g_stuck_us) {
                viol("walk|hang", "no progress for %llu ms: %u of %u SBs done, tasks taken %u released %u (a worker is "
                                  "blocked inside assign_enc_dec_segments or the tasks queue)",
                     (unsigned long long)(g_stuck_us / 1000), __atomic_load_n(&g_sb_done, RLX), g_total, taken,
                     __atomic_load_n(&g_tasks_released, RLX));
                return -1;
            }
        }
    }
    g_walks++;
    /* verdicts */
    int bad = 0;
    if (g_dyn_err_set) {
        viol("walk|bad-segment", "%s", g_dyn_err);
        bad = 1;
    }
    uint32_t done = __atomic_load_n(&g_sb_done, RLX);
    g_sbs_walked += done;
    if (done < g_total) {
        uint32_t missing = 0, first = 0xFFFFFFFFu;
        for (uint32_t s = 0; s < ttl; s++)
            if (sp->valid_sb_count_array[s] && !g_start_cnt[s]) {
                missing++;
                if (first == 0xFFFFFFFFu)
                    first = s;
            }
        viol("walk|incomplete", "all workers idle, task queue empty, %u of %u SBs processed: %u segment(s) never started "
                                "(first %u, dependency count %u)",
             done, g_total, missing, first, first != 0xFFFFFFFFu ? (unsigned)sp->dep_map.dependency_map[first] : 0);
        bad = 1;
    }
    uint32_t ns = 0;
    for (uint32_t s = 0; s < ttl; s++) {
        uint32_t c = g_start_cnt[s];
        if (!c)
            continue;
        g_segments_started += c;
        if (!sp->valid_sb_count_array[s])
            g_empty_started++;
        else if (c > 1 && !bad) {
            viol("walk|double-start", "segment %u (%u SBs) was started %u times", s, (unsigned)sp->valid_sb_count_array[s], c);
            bad = 1;
        }
        g_started[ns].seq = g_start_seq[s];
        g_started[ns].seg = s;
        ns++;
        if (!g_done_seq[s] && !bad) {
            viol("walk|never-done", "segment %u started but never finished", s);
            bad = 1;
        }
    }
    for (uint32_t i = 0; i < g_total && !bad; i++)
        if (g_visit[i] != 1) {
            viol("walk|coverage|dynamic", "SB (%u,%u) was processed %u times", i % g_cfg.w, i / g_cfg.w, (unsigned)g_visit[i]);
            bad = 1;
        }
    for (uint32_t s = 0; s < ttl && !bad; s++) {
        if (!g_start_cnt[s])
            continue;
        for (int i = 0; i < g_ndep[s]; i++) {
            uint32_t n = g_dep[s][i];
            if (!g_done_seq[n] || g_done_seq[n] > g_start_seq[s]) {
                viol("walk|dependency-order", "segment %u started (seq %u) before segment %u, which holds a left/upper/"
                                              "upper-right neighbour SB, was done (seq %u)",
                     s, g_start_seq[s], n, g_done_seq[n]);
                bad = 1;
                break;
            }
        }
    }
    /* start order -> interleaving hash */
    qsort(g_started, ns, sizeof(Started), cmp_started);
    uint64_t hsh = 1469598103934665603ull ^ ((uint64_t)g_cfg.w << 48) ^ ((uint64_t)g_cfg.h << 40) ^ ((uint64_t)g_cfg.cols << 32) ^
        ((uint64_t)g_cfg.rows << 24) ^ g_cfg.sb;
    int serial = 1;
    for (uint32_t i = 0; i < ns; i++) {
        hsh = (hsh ^ g_started[i].seg) * 1099511628211ull;
        if (i && g_started[i].seg < g_started[i - 1].seg)
            serial = 0;
    }
    hset_add(hsh);
    if (!serial)
        g_nonserial++;
    return bad;
}

/* ---------------------------------------------------------------- configuration enumeration */
static EncDecSegments *g_seg_max; /* constructed with the maxima, re-initialised for every "all grids" configuration */

static EbErrorType new_segments(EncDecSegments **out, uint32_t cols, uint32_t rows) {
    EncDecSegments *p;
    EB_NEW(p, enc_dec_segments_ctor, cols, rows);
    *out = p;
    return EB_ErrorNone;
}

static int run_config(Cfg c, int exact_ctor, int reps, uint64_t seed) {
    EncDecSegments *own = NULL;
    g_cfg               = c;
    if (exact_ctor) {
        if (new_segments(&own, c.ctor_cols, c.ctor_rows) != EB_ErrorNone || !own)
            return -1;
        g_seg = own;
    } else
        g_seg = g_seg_max;
    int rc = 0;
    for (int r = 0; r < reps && rc == 0; r++) {
        /* the encoder re-initialises the segments of a picture control set before every picture */
        enc_dec_segments_init(g_seg, c.cols, c.rows, c.w, c.h);
        if (r == 0) {
            static_analysis();
            g_configs++;
            if (g_static_bad) {
                rc = 1;
                break;
            }
        }
        rc = walk_once(seed * 1000003ull + (uint64_t)r * 7919ull + g_configs);
    }
    if (own && rc >= 0)
        EB_DELETE(own);
    return rc;
}

static int derived_grids(uint32_t w, uint32_t h, uint32_t out[][2]) {
    /* enc_dec_seg = (luma + sb/2) / sb over every luma size with this SB count: {n-1, n} (at least 1);
     * core_count 2..3 halves it (at least 1); core_count 1 gives 1x1 */
    uint32_t cw[4], ch[4];
    int      ncw = 0, nch = 0, n = 0;
    cw[ncw++] = w;
    if (w > 1)
        cw[ncw++] = w - 1;
    ch[nch++] = h;
    if (h > 1)
        ch[nch++] = h - 1;
    out[n][0] = 1, out[n][1] = 1, n++;
    for (int i = 0; i < ncw; i++)
        for (int j = 0; j < nch; j++)
            for (int half = 0; half < 2; half++) {
                uint32_t c = half ? (cw[i] / 2 ? cw[i] / 2 : 1) : cw[i], r = half ? (ch[j] / 2 ? ch[j] / 2 : 1) : ch[j];
                int      dup = 0;
                for (int k = 0; k < n; k++)
                    if (out[k][0] == c && out[k][1] == r)
                        dup = 1;
                if (!dup)
                    out[n][0] = c, out[n][1] = r, n++;
            }
    return n;
}

static void sets_visit(uint32_t seg, uint32_t x, uint32_t y, void *ctx) {
    int *first = (int *)ctx;
    (void)seg;
    printf("%s[%u,%u]", *first ? "" : ",", x, y);
    *first = 0;
}

static int sets_mode(void) {
    char line[256];
    while (fgets(line, sizeof(line), stdin)) {
        Cfg c;
        memset(&c, 0, sizeof(c));
        if (sscanf(line, "%u %u %u %u %u %u", &c.w, &c.h, &c.cols, &c.rows, &c.ctor_cols, &c.ctor_rows) != 6)
            continue;
        if (!c.w || !c.h || c.w > 512 || c.h > 512 || !c.ctor_rows || c.ctor_rows > 512 || c.ctor_cols > 512) {
            printf("{\"error\":\"bad request\"}\n");
            continue;
        }
        EncDecSegments *sp = NULL;
        if (new_segments(&sp, c.ctor_cols, c.ctor_rows) != EB_ErrorNone || !sp)
            return 2;
        enc_dec_segments_init(sp, c.cols, c.rows, c.w, c.h);
        printf("{\"w\":%u,\"h\":%u,\"cols\":%u,\"rows\":%u,\"band_count\":%u,\"row_count\":%u,\"ttl\":%u,\"rows_range\":[", c.w, c.h,
               c.cols, c.rows, sp->segment_band_count, sp->segment_row_count, sp->segment_ttl_count);
        for (uint32_t r = 0; r < sp->segment_row_count; r++)
            printf("%s[%u,%u]", r ? "," : "", (unsigned)sp->row_array[r].starting_seg_index, (unsigned)sp->row_array[r].ending_seg_index);
        printf("],\"segments\":{");
        int firstseg = 1;
        for (uint32_t s = 0; s < sp->segment_ttl_count && s < sp->segment_max_total_count; s++) {
            if (!sp->valid_sb_count_array[s])
                continue;
            printf("%s\"%u\":[", firstseg ? "" : ",", s);
            firstseg  = 0;
            int first = 1;
            traverse_segment(sp, s, c.w, sets_visit, &first);
            printf("]");
        }
        printf("}}\n");
        fflush(stdout);
        EB_DELETE(sp);
    }
    return 0;
}

int main(int argc, char **argv) {
    if (argc >= 2 && !strcmp(argv[1], "sets"))
        return sets_mode();
    if (argc < 3 || strcmp(argv[1], "walk")) {
        fprintf(stderr, "usage: segwalk walk <out> sb=64|128 T=n grids=derived|all [part=i/n] [reps=r] [sample=k] [yield=permille] "
                        "[seed=s] [stuck_ms=N] | segwalk sets\n");
        return 2;
    }
    uint32_t sb = 64, part_i = 0, part_n = 1, sample = 1;
    int      T = 4, all = 0, reps = 1;
    uint64_t seed = 1;
    Cfg      only;
    memset(&only, 0, sizeof(only));
    for (int i = 3; i < argc; i++) {
        if (!strncmp(argv[i], "only=", 5)) {
            sscanf(argv[i] + 5, "%u,%u,%u,%u,%u,%u", &only.w, &only.h, &only.cols, &only.rows, &only.ctor_cols, &only.ctor_rows);
            continue;
        }
        if (!strncmp(argv[i], "sb=", 3))
            sb = (uint32_t)atoi(argv[i] + 3);
        else if (!strncmp(argv[i], "T=", 2))
            T = atoi(argv[i] + 2);
        else if (!strncmp(argv[i], "grids=", 6))
            all = !strcmp(argv[i] + 6, "all");
        else if (!strncmp(argv[i], "part=", 5))
            sscanf(argv[i] + 5, "%u/%u", &part_i, &part_n);
        else if (!strncmp(argv[i], "reps=", 5))
            reps = atoi(argv[i] + 5);
        else if (!strncmp(argv[i], "sample=", 7))
            sample = (uint32_t)atoi(argv[i] + 7);
        else if (!strncmp(argv[i], "yield=", 6))
            g_yield_permille = atoi(argv[i] + 6);
        else if (!strncmp(argv[i], "seed=", 5))
            seed = strtoull(argv[i] + 5, NULL, 10);
        else if (!strncmp(argv[i], "stuck_ms=", 9))
            g_stuck_us = strtoull(argv[i] + 9, NULL, 10) * 1000ull;
    }
    if (T < 1 || T > MAXT || (sb != 64 && sb != 128) || !part_n || !sample || reps < 1)
        return 2;
    g_out = fopen(argv[2], "w");
    if (!g_out)
        return 2;
    svt_verif_sched_point(0);
    g_hmask = (all ? (1ull << 23) : (1ull << 19)) - 1;
    g_hset  = (uint64_t *)calloc(g_hmask + 1, sizeof(uint64_t));
    if (!g_hset || pool_start(T) != EB_ErrorNone)
        return 2;
    if (all && (new_segments(&g_seg_max, ENCDEC_SEGMENTS_MAX_COL_COUNT, ENCDEC_SEGMENTS_MAX_ROW_COUNT) != EB_ErrorNone || !g_seg_max))
        return 2;
    uint32_t maxw = sb == 64 ? 65 : 33, maxh = sb == 64 ? 34 : 17;
    if (only.w) { /* replay of one configuration */
        only.sb = sb;
        if (!all)
            run_config(only, 1, reps, seed);
        else
            run_config(only, 0, reps, seed);
        maxh = 0;
    }
    uint64_t ordinal = 0;
    int      fatal = 0;
    VRng     pick;
    v_rng_seed(&pick, seed * 77 + sb);
    for (uint32_t h = 1; h <= maxh && !fatal; h++)
        for (uint32_t w = 1; w <= maxw && !fatal; w++) {
            if (!all) {
                uint32_t grids[16][2];
                int      n = derived_grids(w, h, grids);
                for (int k = 0; k < n && !fatal; k++) {
                    if ((ordinal++ % part_n) != part_i)
                        continue;
                    Cfg c = {w, h, grids[k][0], grids[k][1], grids[k][0], grids[k][1], sb};
                    if (run_config(c, 1, reps, seed) < 0)
                        fatal = 1;
                }
            } else {
                /* distinct after clamping: cols <= w, rows <= min(h, 37); plus requests that init has to clamp */
                uint32_t mc = w < ENCDEC_SEGMENTS_MAX_COL_COUNT ? w : ENCDEC_SEGMENTS_MAX_COL_COUNT;
                uint32_t mr = h < ENCDEC_SEGMENTS_MAX_ROW_COUNT ? h : ENCDEC_SEGMENTS_MAX_ROW_COUNT;
                for (uint32_t rows = 1; rows <= mr + 1 && !fatal; rows++)
                    for (uint32_t cols = 1; cols <= mc + 1 && !fatal; cols++) {
                        uint32_t rq_rows = rows, rq_cols = cols;
                        if (rows == mr + 1)
                            rq_rows = mr + 1 + v_rng_below(&pick, 40); /* above the picture height / the maximum */
                        if (cols == mc + 1) {
                            if (mc >= ENCDEC_SEGMENTS_MAX_COL_COUNT)
                                continue; /* the constructor's arrays are sized for 60 columns */
                            rq_cols = mc + 1 + v_rng_below(&pick, ENCDEC_SEGMENTS_MAX_COL_COUNT - mc);
                        }
                        if ((ordinal++ % part_n) != part_i)
                            continue;
                        if (sample > 1 && v_rng_below(&pick, sample) != 0)
                            continue;
                        Cfg c = {w, h, rq_cols, rq_rows, ENCDEC_SEGMENTS_MAX_COL_COUNT, ENCDEC_SEGMENTS_MAX_ROW_COUNT, sb};
                        if (run_config(c, 0, reps, seed) < 0)
                            fatal = 1;
                    }
            }
        }
    /* stop the pool the way the encoder does */
    if (!fatal) {
        svt_shutdown_process(g_tasks);
        for (int t = 0; t < T; t++) pthread_join(g_thr[t], NULL);
    }
    fprintf(g_out,
            "{\"summary\":1,\"sb\":%u,\"T\":%d,\"grids\":\"%s\",\"configs\":%llu,\"walks\":%llu,\"segments_started\":%llu,"
            "\"sbs_walked\":%llu,\"feedback_tasks\":%llu,\"empty_segments_started\":%llu,\"empty_segments_in_row_range\":%llu,"
            "\"distinct_start_orders\":%llu,\"nonserial_walks\":%llu,\"perturbations\":%llu,\"violations\":%d,\"fatal\":%d}\n",
            sb, T, all ? "all" : "derived", (unsigned long long)g_configs, (unsigned long long)g_walks,
            (unsigned long long)g_segments_started, (unsigned long long)g_sbs_walked, (unsigned long long)g_feedback_tasks,
            (unsigned long long)g_empty_started, (unsigned long long)g_empty_in_range, (unsigned long long)g_hcount,
            (unsigned long long)g_nonserial, (unsigned long long)svt_verif_sched_count(), g_nviol, fatal);
    fclose(g_out);
    if (fatal)
        _exit(3); /* a wedged worker cannot be joined */
    return g_nviol ? 1 : 0;
}
