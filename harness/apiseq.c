/* apiseq: run one API call sequence (encoder or decoder) and report every call's return code.
 * usage: apiseq <enc|dec> <ivf-for-decoder or -> op op op ...
 * Every op prints `B <index> <op>` before the call and `E <index> <op> <rc hex>` after it (to stdout, unbuffered),
 * so the parent sees which call never returned or died.
 *
 * encoder ops: ih sp sb in sh pp gn eo gb gr gi di dh  and the NULL-argument probes n01..n21
 * decoder ops: ih sp in fr gp di dh and probes n01..n12
 */
#include "vcommon.h"
#include "EbSvtAv1Enc.h"
#include "EbSvtAv1Dec.h"
#include "EbSvtAv1ErrorCodes.h"

static int g_idx, g_proto = 1;
#define BEGIN(op) dprintf(g_proto, "B %d %s\n", g_idx, op)
#define END(op, rc) dprintf(g_proto, "E %d %s %08x\n", g_idx, op, (unsigned)(rc))

/* ---------------------------------------------------------------- encoder */
static EbComponentType *        eh;
static EbSvtAv1EncConfiguration ecfg;
static int                      e_w = 64, e_h = 64, e_sent, e_eos_seen;
static uint8_t *                e_pic;
static EbSvtIOFormat            e_io;
static EbBufferHeaderType       e_recon;

static void enc_make_pic(int k) {
    size_t ysz = (size_t)e_w * e_h, csz = ysz / 4;
    if (!e_pic)
        e_pic = malloc(ysz + 2 * csz);
    for (size_t i = 0; i < ysz + 2 * csz; i++) e_pic[i] = (uint8_t)(v_mix(i * 31 + (uint64_t)k) & 255) / 2 + (uint8_t)(i % 97);
    memset(&e_io, 0, sizeof(e_io));
    e_io.luma      = e_pic;
    e_io.cb        = e_pic + ysz;
    e_io.cr        = e_pic + ysz + csz;
    e_io.y_stride  = (uint32_t)e_w;
    e_io.cb_stride = e_io.cr_stride = (uint32_t)e_w / 2;
    e_io.width     = (uint32_t)e_w;
    e_io.height    = (uint32_t)e_h;
    e_io.color_fmt = EB_YUV420;
    e_io.bit_depth = EB_EIGHT_BIT;
}

static void enc_valid_cfg(EbSvtAv1EncConfiguration *c) {
    c->source_width        = (uint32_t)e_w;
    c->source_height       = (uint32_t)e_h;
    c->enc_mode            = 8;
    c->logical_processors  = 4;
    c->hierarchical_levels = 3;
    c->intra_period_length = -1;
    c->recon_enabled       = 1;
}

static int enc_op(const char *op) {
    EbErrorType rc = EB_ErrorNone;
    BEGIN(op);
    if (!strcmp(op, "ih")) {
        memset(&ecfg, 0, sizeof(ecfg));
        rc = svt_av1_enc_init_handle(&eh, NULL, &ecfg);
    } else if (!strcmp(op, "sp")) {
        enc_valid_cfg(&ecfg);
        rc = svt_av1_enc_set_parameter(eh, &ecfg);
    } else if (!strcmp(op, "sq")) { /* valid configuration without recon output (nothing but packets to collect) */
        enc_valid_cfg(&ecfg);
        ecfg.recon_enabled = 0;
        rc = svt_av1_enc_set_parameter(eh, &ecfg);
    } else if (!strncmp(op, "pm", 2)) { /* pm<N>: N pictures submitted back to back, nothing fetched in between */
        int n = atoi(op + 2);
        for (int k = 0; k < n && rc == EB_ErrorNone; k++) {
            EbBufferHeaderType b;
            memset(&b, 0, sizeof(b));
            enc_make_pic(e_sent);
            b.size = sizeof(b);
            b.p_buffer = (uint8_t *)&e_io;
            b.n_filled_len = b.n_alloc_len = (uint32_t)(e_w * e_h * 3 / 2);
            b.pts = e_sent++;
            b.pic_type = EB_AV1_INVALID_PICTURE;
            rc = svt_av1_enc_send_picture(eh, &b);
            if ((k & 15) == 15)
                dprintf(g_proto, "I %d sent %d\n", g_idx, k + 1);
        }
    } else if (!strncmp(op, "sb", 2)) { /* sb0..sb5: different rejected configurations */
        EbSvtAv1EncConfiguration bad = ecfg;
        enc_valid_cfg(&bad);
        switch (op[2]) {
        case '1': bad.qp = 64; break;
        case '2': bad.encoder_bit_depth = 9; break;
        case '3': bad.hierarchical_levels = 6; break;
        case '4': bad.tile_rows = 7; break;
        case '5': bad.rate_control_mode = 3; break;
        default: bad.source_width = 1; break;
        }
        rc = svt_av1_enc_set_parameter(eh, &bad);
    } else if (!strcmp(op, "in")) {
        rc = svt_av1_enc_init(eh);
    } else if (!strcmp(op, "sh")) {
        EbBufferHeaderType *hdr = NULL;
        rc = svt_av1_enc_stream_header(eh, &hdr);
        if (rc == EB_ErrorNone && hdr)
            svt_av1_enc_stream_header_release(hdr);
    } else if (!strcmp(op, "pp")) {
        EbBufferHeaderType b;
        memset(&b, 0, sizeof(b));
        enc_make_pic(e_sent);
        b.size = sizeof(b);
        b.p_buffer = (uint8_t *)&e_io;
        b.n_filled_len = b.n_alloc_len = (uint32_t)(e_w * e_h * 3 / 2);
        b.pts = e_sent++;
        b.pic_type = EB_AV1_INVALID_PICTURE;
        rc = svt_av1_enc_send_picture(eh, &b);
    } else if (!strcmp(op, "eo")) {
        EbBufferHeaderType b;
        memset(&b, 0, sizeof(b));
        b.size = sizeof(b);
        b.flags = EB_BUFFERFLAG_EOS;
        b.pic_type = EB_AV1_INVALID_PICTURE;
        rc = svt_av1_enc_send_picture(eh, &b);
    } else if (!strcmp(op, "gn") || !strcmp(op, "gb")) {
        /* gn: drain without blocking; gb: block until the EOS packet (documented blocking call) */
        int blocking = op[1] == 'b';
        int n = 0;
        for (;;) {
            EbBufferHeaderType *p = NULL;
            rc = svt_av1_enc_get_packet(eh, &p, (uint8_t)(blocking && !e_eos_seen));
            if (rc != EB_ErrorNone || !p)
                break;
            n++;
            if (p->flags & EB_BUFFERFLAG_EOS)
                e_eos_seen = 1;
            svt_av1_enc_release_out_buffer(&p);
            if (e_recon.p_buffer)
                while (svt_av1_get_recon(eh, &e_recon) == EB_ErrorNone) {}
            if (blocking && e_eos_seen)
                break;
        }
        dprintf(g_proto, "I %d packets %d\n", g_idx, n);
        if (rc == (EbErrorType)EB_NoErrorEmptyQueue)
            rc = EB_ErrorNone;
    } else if (!strcmp(op, "gr")) {
        if (!e_recon.p_buffer) {
            e_recon.size = sizeof(e_recon);
            e_recon.n_alloc_len = (uint32_t)(e_w * e_h * 3 + 4096);
            e_recon.p_buffer = malloc(e_recon.n_alloc_len);
        }
        while ((rc = svt_av1_get_recon(eh, &e_recon)) == EB_ErrorNone) {}
        if (rc == (EbErrorType)EB_NoErrorEmptyQueue)
            rc = EB_ErrorNone;
    } else if (!strcmp(op, "gi")) {
        SvtAv1FixedBuf fb = {NULL, 0};
        rc = svt_av1_enc_get_stream_info(eh, SVT_AV1_STREAM_INFO_FIRST_PASS_STATS_OUT, &fb);
        rc = EB_ErrorNone; /* any answer is fine for a non-first-pass session; only returning matters */
    } else if (!strcmp(op, "di")) {
        rc = svt_av1_enc_deinit(eh);
    } else if (!strcmp(op, "dh")) {
        rc = svt_av1_enc_deinit_handle(eh);
        eh = NULL;
    }
    /* ---- NULL-argument probes: must return an error code (judged by the parent) ---- */
    else if (!strcmp(op, "n01")) {
        EbSvtAv1EncConfiguration c;
        rc = svt_av1_enc_init_handle(NULL, NULL, &c);
    } else if (!strcmp(op, "n02")) {
        EbComponentType *h2 = NULL;
        rc = svt_av1_enc_init_handle(&h2, NULL, NULL);
    } else if (!strcmp(op, "n03")) {
        EbSvtAv1EncConfiguration c = ecfg;
        rc = svt_av1_enc_set_parameter(NULL, &c);
    } else if (!strcmp(op, "n04")) {
        rc = svt_av1_enc_set_parameter(eh, NULL);
    } else if (!strcmp(op, "n05")) {
        rc = svt_av1_enc_init(NULL);
    } else if (!strcmp(op, "n06")) {
        EbBufferHeaderType *hdr = NULL;
        rc = svt_av1_enc_stream_header(NULL, &hdr);
    } else if (!strcmp(op, "n07")) {
        rc = svt_av1_enc_stream_header(eh, NULL);
    } else if (!strcmp(op, "n08")) {
        EbBufferHeaderType b;
        memset(&b, 0, sizeof(b));
        enc_make_pic(0);
        b.p_buffer = (uint8_t *)&e_io;
        rc = svt_av1_enc_send_picture(NULL, &b);
    } else if (!strcmp(op, "n09")) {
        rc = svt_av1_enc_send_picture(eh, NULL);
    } else if (!strcmp(op, "n10")) {
        EbBufferHeaderType *p = NULL;
        rc = svt_av1_enc_get_packet(NULL, &p, 0);
    } else if (!strcmp(op, "n11")) {
        rc = svt_av1_enc_get_packet(eh, NULL, 0);
    } else if (!strcmp(op, "n12")) {
        svt_av1_enc_release_out_buffer(NULL);
        rc = (EbErrorType)0x1; /* void: only surviving matters */
    } else if (!strcmp(op, "n13")) {
        EbBufferHeaderType *p = NULL;
        svt_av1_enc_release_out_buffer(&p);
        rc = (EbErrorType)0x1;
    } else if (!strcmp(op, "n14")) {
        EbBufferHeaderType b;
        memset(&b, 0, sizeof(b));
        rc = svt_av1_get_recon(NULL, &b);
    } else if (!strcmp(op, "n15")) {
        rc = svt_av1_get_recon(eh, NULL);
    } else if (!strcmp(op, "n16")) {
        SvtAv1FixedBuf fb = {NULL, 0};
        rc = svt_av1_enc_get_stream_info(NULL, SVT_AV1_STREAM_INFO_FIRST_PASS_STATS_OUT, &fb);
    } else if (!strcmp(op, "n17")) {
        rc = svt_av1_enc_get_stream_info(eh, SVT_AV1_STREAM_INFO_FIRST_PASS_STATS_OUT, NULL);
    } else if (!strcmp(op, "n18")) {
        rc = svt_av1_enc_deinit(NULL);
    } else if (!strcmp(op, "n19")) {
        rc = svt_av1_enc_deinit_handle(NULL);
    } else if (!strcmp(op, "n20")) {
        rc = svt_av1_enc_stream_header_release(NULL);
    } else if (!strcmp(op, "n21")) {
        rc = svt_av1_enc_eos_nal(NULL, NULL);
        rc = (EbErrorType)0x1; /* documented as optional/unimplemented: only surviving matters */
    } else {
        dprintf(g_proto, "X unknown op %s\n", op);
        return -1;
    }
    END(op, rc);
    return 0;
}

/* ---------------------------------------------------------------- decoder */
static EbComponentType *        dh_;
static EbSvtAv1DecConfiguration dcfg;
static uint8_t *                d_ivf;
static size_t                   d_len, d_pos = 32;
static EbBufferHeaderType       d_out;
static EbSvtIOFormat            d_io;

static void dec_alloc_out(void) {
    if (d_out.p_buffer)
        return;
    memset(&d_io, 0, sizeof(d_io));
    size_t n    = 4096 * 2304 * 2;
    d_io.luma   = malloc(n);
    d_io.cb     = malloc(n / 4);
    d_io.cr     = malloc(n / 4);
    d_out.p_buffer = (uint8_t *)&d_io;
    d_out.size  = sizeof(d_out);
}

static int dec_op(const char *op) {
    EbErrorType rc = EB_ErrorNone;
    BEGIN(op);
    if (!strcmp(op, "ih")) {
        memset(&dcfg, 0, sizeof(dcfg));
        rc = svt_av1_dec_init_handle(&dh_, NULL, &dcfg);
    } else if (!strcmp(op, "sp")) {
        dcfg.threads = 1;
        rc = svt_av1_dec_set_parameter(dh_, &dcfg);
    } else if (!strcmp(op, "in")) {
        rc = svt_av1_dec_init(dh_);
    } else if (!strcmp(op, "fr")) {
        if (d_ivf && d_pos + 12 <= d_len) {
            uint32_t sz = d_ivf[d_pos] | d_ivf[d_pos + 1] << 8 | d_ivf[d_pos + 2] << 16 | (uint32_t)d_ivf[d_pos + 3] << 24;
            uint8_t *tu = malloc(sz + 16);
            memcpy(tu, d_ivf + d_pos + 12, sz);
            memset(tu + sz, 0, 16);
            rc = svt_av1_dec_frame(dh_, tu, sz, 0);
            free(tu);
            d_pos += 12 + sz;
        }
    } else if (!strcmp(op, "gp")) {
        EbAV1StreamInfo si;
        EbAV1FrameInfo  fi;
        dec_alloc_out();
        rc = svt_av1_dec_get_picture(dh_, &d_out, &si, &fi);
        if (rc == EB_DecNoOutputPicture)
            rc = EB_ErrorNone;
    } else if (!strcmp(op, "di")) {
        rc = svt_av1_dec_deinit(dh_);
    } else if (!strcmp(op, "dh")) {
        rc = svt_av1_dec_deinit_handle(dh_);
        dh_ = NULL;
    } else if (!strcmp(op, "n01")) {
        EbSvtAv1DecConfiguration c;
        rc = svt_av1_dec_init_handle(NULL, NULL, &c);
    } else if (!strcmp(op, "n02")) {
        EbComponentType *h2 = NULL;
        rc = svt_av1_dec_init_handle(&h2, NULL, NULL);
    } else if (!strcmp(op, "n03")) {
        rc = svt_av1_dec_set_parameter(NULL, &dcfg);
    } else if (!strcmp(op, "n04")) {
        rc = svt_av1_dec_set_parameter(dh_, NULL);
    } else if (!strcmp(op, "n05")) {
        rc = svt_av1_dec_init(NULL);
    } else if (!strcmp(op, "n06")) {
        uint8_t b[8] = {0x12, 0};
        rc = svt_av1_dec_frame(NULL, b, 2, 0);
    } else if (!strcmp(op, "n07")) {
        rc = svt_av1_dec_frame(dh_, NULL, 16, 0);
    } else if (!strcmp(op, "n08")) {
        EbAV1StreamInfo si;
        EbAV1FrameInfo  fi;
        dec_alloc_out();
        rc = svt_av1_dec_get_picture(NULL, &d_out, &si, &fi);
    } else if (!strcmp(op, "n09")) {
        EbAV1StreamInfo si;
        EbAV1FrameInfo  fi;
        rc = svt_av1_dec_get_picture(dh_, NULL, &si, &fi);
    } else if (!strcmp(op, "n10")) {
        rc = svt_av1_dec_deinit(NULL);
    } else if (!strcmp(op, "n11")) {
        rc = svt_av1_dec_deinit_handle(NULL);
    } else if (!strcmp(op, "n12")) {
        dec_alloc_out();
        rc = svt_av1_dec_get_picture(dh_, &d_out, NULL, NULL);
        if (rc == EB_DecNoOutputPicture)
            rc = (EbErrorType)0x1; /* no picture pending: an error-like answer is fine, NULL info pointers must not crash */
    } else {
        dprintf(g_proto, "X unknown op %s\n", op);
        return -1;
    }
    END(op, rc);
    return 0;
}

int main(int argc, char **argv) {
    if (argc < 4)
        return 2;
    v_drop_sys_nice();
    int isdec = !strcmp(argv[1], "dec");
    if (isdec && strcmp(argv[2], "-")) {
        FILE *f = fopen(argv[2], "rb");
        if (f) {
            fseek(f, 0, SEEK_END);
            d_len = (size_t)ftell(f);
            fseek(f, 0, SEEK_SET);
            d_ivf = malloc(d_len);
            if (fread(d_ivf, 1, d_len, f) != d_len)
                d_len = 0;
            fclose(f);
        }
    }
    if (!freopen("/dev/null", "w", stderr)) {}
    /* the library prints through stdout as well: keep fd 1 for our protocol, give the library /dev/null as `stdout` */
    g_proto = dup(1);
    if (!freopen("/dev/null", "w", stdout)) {}
    for (int i = 3; i < argc; i++) {
        g_idx = i - 3;
        if ((isdec ? dec_op(argv[i]) : enc_op(argv[i])) < 0)
            return 2;
    }
    dprintf(g_proto, "DONE\n");
    return 0;
}
