/* kdiff: the signature each handler was written for (kds_<sig>).  kdiff_table.inc compares them at
 * compile time with the type of the dispatch pointer of the current tree; a pointer whose type
 * changed is reported as uncovered ("signature") instead of being called with a wrong prototype. */
#ifndef KDIFF_SIGS_H
#define KDIFF_SIGS_H
#include "aom_dsp_rtcd.h"

/* ---- SAD / variance / OBMC (kdiff_sad.c) */
typedef uint32_t (*kds_sad)(const uint8_t *src, int src_stride, const uint8_t *ref, int ref_stride);
typedef void (*kds_sad4d)(const uint8_t *src, int src_stride, const uint8_t *const ref[], int ref_stride, uint32_t *sad_array);
typedef unsigned int (*kds_obmc_sad)(const uint8_t *pre, int pre_stride, const int32_t *wsrc, const int32_t *mask);
typedef unsigned int (*kds_obmc_var)(const uint8_t *pre, int pre_stride, const int32_t *wsrc, const int32_t *mask, unsigned int *sse);
typedef unsigned int (*kds_obmc_subpel_var)(const uint8_t *pre, int pre_stride, int xoffset, int yoffset, const int32_t *wsrc,
                                            const int32_t *mask, unsigned int *sse);
typedef unsigned int (*kds_variance)(const uint8_t *src, int src_stride, const uint8_t *ref, int ref_stride, unsigned int *sse);
typedef void (*kds_mse_void)(const uint8_t *src, int src_stride, const uint8_t *ref, int ref_stride, uint32_t *sse);
typedef uint32_t (*kds_subpel_var)(const uint8_t *src, int src_stride, int xoffset, int yoffset, const uint8_t *ref, int ref_stride,
                                   uint32_t *sse);
typedef uint32_t (*kds_sad16b)(uint16_t *src, uint32_t src_stride, uint16_t *ref, uint32_t ref_stride, uint32_t height, uint32_t width);
typedef uint32_t (*kds_var_hbd_wh)(const uint16_t *a, int a_stride, const uint16_t *b, int b_stride, int w, int h, uint32_t *sse);
typedef uint32_t (*kds_nxm_sad)(const uint8_t *src, uint32_t src_stride, const uint8_t *ref, uint32_t ref_stride, uint32_t height,
                                uint32_t width);
typedef int64_t (*kds_sse)(const uint8_t *a, int a_stride, const uint8_t *b, int b_stride, int width, int height);


/* ---- intra prediction (kdiff_intra.c) */
typedef void (*kds_intra)(uint8_t *dst, ptrdiff_t stride, const uint8_t *above, const uint8_t *left);
typedef void (*kds_intra_hbd)(uint16_t *dst, ptrdiff_t stride, const uint16_t *above, const uint16_t *left, int32_t bd);
typedef void (*kds_dr_z1)(uint8_t *dst, ptrdiff_t stride, int32_t bw, int32_t bh, const uint8_t *above, const uint8_t *left,
                          int32_t upsample, int32_t dx, int32_t dy);
typedef void (*kds_dr_z2)(uint8_t *dst, ptrdiff_t stride, int32_t bw, int32_t bh, const uint8_t *above, const uint8_t *left,
                          int32_t upsample_above, int32_t upsample_left, int32_t dx, int32_t dy);
typedef void (*kds_dr_z1_hbd)(uint16_t *dst, ptrdiff_t stride, int32_t bw, int32_t bh, const uint16_t *above, const uint16_t *left,
                              int32_t upsample, int32_t dx, int32_t dy, int32_t bd);
typedef void (*kds_dr_z2_hbd)(uint16_t *dst, ptrdiff_t stride, int32_t bw, int32_t bh, const uint16_t *above, const uint16_t *left,
                              int32_t upsample_above, int32_t upsample_left, int32_t dx, int32_t dy, int32_t bd);
typedef void (*kds_filter_intra)(uint8_t *dst, ptrdiff_t stride, TxSize tx_size, const uint8_t *above, const uint8_t *left, int32_t mode);
typedef void (*kds_fie)(uint8_t *p, int32_t sz, int32_t strength);
typedef void (*kds_fie_hbd)(uint16_t *p, int32_t sz, int32_t strength);
typedef void (*kds_upsample_edge)(uint8_t *p, int32_t sz);
typedef void (*kds_cfl_pred_lbd)(const int16_t *pred_buf_q3, uint8_t *pred, int32_t pred_stride, uint8_t *dst, int32_t dst_stride,
                                 int32_t alpha_q3, int32_t bit_depth, int32_t width, int32_t height);
typedef void (*kds_cfl_pred_hbd)(const int16_t *pred_buf_q3, uint16_t *pred, int32_t pred_stride, uint16_t *dst, int32_t dst_stride,
                                 int32_t alpha_q3, int32_t bit_depth, int32_t width, int32_t height);
typedef void (*kds_cfl_sub_lbd)(const uint8_t *input, int32_t input_stride, int16_t *output_q3, int32_t width, int32_t height);
typedef void (*kds_cfl_sub_hbd)(const uint16_t *input, int32_t input_stride, int16_t *output_q3, int32_t width, int32_t height);
typedef void (*kds_sub_avg)(int16_t *pred_buf_q3, int32_t width, int32_t height, int32_t round_offset, int32_t num_pel_log2);

/* ---- transforms (kdiff_txfm.c) */
typedef void (*kds_fwd_txfm)(int16_t *input, int32_t *output, uint32_t input_stride, TxType transform_type, uint8_t bit_depth);
typedef void (*kds_inv_txfm_sq)(const int32_t *input, uint16_t *output_r, int32_t stride_r, uint16_t *output_w, int32_t stride_w,
                                TxType tx_type, int32_t bd);
typedef void (*kds_inv_txfm_rect)(const int32_t *input, uint16_t *output_r, int32_t stride_r, uint16_t *output_w, int32_t stride_w,
                                  TxType tx_type, TxSize tx_size, int32_t eob, int32_t bd);
typedef void (*kds_inv_txfm_rect2)(const int32_t *input, uint16_t *output_r, int32_t stride_r, uint16_t *output_w, int32_t stride_w,
                                   TxType tx_type, TxSize tx_size, int32_t bd);
typedef void (*kds_inv_txfm_add)(const TranLow *dqcoeff, uint8_t *dst_r, int32_t stride_r, uint8_t *dst_w, int32_t stride_w,
                                 const TxfmParam *txfm_param);
typedef uint64_t (*kds_handle_txfm)(int32_t *output);

/* ---- convolution (kdiff_conv.c) */
typedef void (*kds_convolve)(const uint8_t *src, int32_t src_stride, uint8_t *dst, int32_t dst_stride, int32_t w, int32_t h,
                             InterpFilterParams *filter_params_x, InterpFilterParams *filter_params_y, const int32_t subpel_x_q4,
                             const int32_t subpel_y_q4, ConvolveParams *conv_params);
typedef void (*kds_convolve_hbd)(const uint16_t *src, int32_t src_stride, uint16_t *dst, int32_t dst_stride, int32_t w, int32_t h,
                                 const InterpFilterParams *filter_params_x, const InterpFilterParams *filter_params_y,
                                 const int32_t subpel_x_q4, const int32_t subpel_y_q4, ConvolveParams *conv_params, int32_t bd);

/* ---- blend / masks (kdiff_blend.c) */
typedef void (*kds_blend_mask)(uint8_t *dst, uint32_t dst_stride, const uint8_t *src0, uint32_t src0_stride, const uint8_t *src1,
                               uint32_t src1_stride, const uint8_t *mask, uint32_t mask_stride, int w, int h, int subx, int suby);
typedef void (*kds_blend_mask_hbd)(uint8_t *dst, uint32_t dst_stride, const uint8_t *src0, uint32_t src0_stride, const uint8_t *src1,
                                   uint32_t src1_stride, const uint8_t *mask, uint32_t mask_stride, int w, int h, int subx, int suby, int bd);
typedef void (*kds_blend_hv)(uint8_t *dst, uint32_t dst_stride, const uint8_t *src0, uint32_t src0_stride, const uint8_t *src1,
                             uint32_t src1_stride, const uint8_t *mask, int w, int h);
typedef void (*kds_blend_hv_hbd)(uint8_t *dst, uint32_t dst_stride, const uint8_t *src0, uint32_t src0_stride, const uint8_t *src1,
                                 uint32_t src1_stride, const uint8_t *mask, int w, int h, int bd);
typedef void (*kds_blend_hv_hbd16)(uint16_t *dst, uint32_t dst_stride, const uint16_t *src0, uint32_t src0_stride, const uint16_t *src1,
                                   uint32_t src1_stride, const uint8_t *mask, int w, int h, int bd);
typedef void (*kds_blend_d16)(uint8_t *dst, uint32_t dst_stride, const CONV_BUF_TYPE *src0, uint32_t src0_stride, const CONV_BUF_TYPE *src1,
                              uint32_t src1_stride, const uint8_t *mask, uint32_t mask_stride, int w, int h, int subw, int subh,
                              ConvolveParams *conv_params);
typedef void (*kds_blend_d16_hbd)(uint8_t *dst, uint32_t dst_stride, const CONV_BUF_TYPE *src0, uint32_t src0_stride,
                                  const CONV_BUF_TYPE *src1, uint32_t src1_stride, const uint8_t *mask, uint32_t mask_stride, int w, int h,
                                  int subx, int suby, ConvolveParams *conv_params, const int bd);
typedef void (*kds_diffwtd)(uint8_t *mask, DIFFWTD_MASK_TYPE mask_type, const uint8_t *src0, int src0_stride, const uint8_t *src1,
                            int src1_stride, int h, int w);
typedef void (*kds_diffwtd_hbd)(uint8_t *mask, DIFFWTD_MASK_TYPE mask_type, const uint8_t *src0, int src0_stride, const uint8_t *src1,
                                int src1_stride, int h, int w, int bd);
typedef void (*kds_diffwtd_d16)(uint8_t *mask, DIFFWTD_MASK_TYPE mask_type, const CONV_BUF_TYPE *src0, int src0_stride,
                                const CONV_BUF_TYPE *src1, int src1_stride, int h, int w, ConvolveParams *conv_params, int bd);
typedef uint64_t (*kds_wedge_sse)(const int16_t *r1, const int16_t *d, const uint8_t *m, int N);
typedef int8_t (*kds_wedge_sign)(const int16_t *ds, const uint8_t *m, int N, int64_t limit);
typedef void (*kds_wedge_delta)(int16_t *d, const int16_t *a, const int16_t *b, int N);
typedef void (*kds_subtract)(int rows, int cols, int16_t *diff_ptr, ptrdiff_t diff_stride, const uint8_t *src_ptr, ptrdiff_t src_stride,
                             const uint8_t *pred_ptr, ptrdiff_t pred_stride);
typedef void (*kds_subtract_hbd)(int rows, int cols, int16_t *diff_ptr, ptrdiff_t diff_stride, const uint8_t *src_ptr, ptrdiff_t src_stride,
                                 const uint8_t *pred_ptr, ptrdiff_t pred_stride, int bd);
typedef uint64_t (*kds_sumsq_i16)(const int16_t *src, uint32_t N);

/* ---- loop filter / CDEF (kdiff_lf.c) */
typedef void (*kds_lpf)(uint8_t *s, int32_t pitch, const uint8_t *blimit, const uint8_t *limit, const uint8_t *thresh);
typedef void (*kds_lpf_hbd)(uint16_t *s, int32_t pitch, const uint8_t *blimit, const uint8_t *limit, const uint8_t *thresh, int32_t bd);
typedef int32_t (*kds_cdef_dir)(const uint16_t *img, int32_t stride, int32_t *var, int32_t coeff_shift);
typedef void (*kds_cdef_filter)(uint8_t *dst8, uint16_t *dst16, int32_t dstride, const uint16_t *in, int32_t pri_strength,
                                int32_t sec_strength, int32_t dir, int32_t pri_damping, int32_t sec_damping, int32_t bsize,
                                int32_t coeff_shift);
typedef uint64_t (*kds_cdef_dist16)(const uint16_t *dst, int32_t dstride, const uint16_t *src, const CdefList *dlist, int32_t cdef_count,
                                    BlockSize bsize, int32_t coeff_shift, int32_t pli);
typedef uint64_t (*kds_cdef_dist8)(const uint8_t *dst8, int32_t dstride, const uint8_t *src8, const CdefList *dlist, int32_t cdef_count,
                                   BlockSize bsize, int32_t coeff_shift, int32_t pli);
typedef void (*kds_copy_rect8to16)(uint16_t *dst, int32_t dstride, const uint8_t *src, int32_t sstride, int32_t v, int32_t h);

/* ---- picture operators (kdiff_pic.c) */
typedef void (*kds_residual8)(uint8_t *input, uint32_t input_stride, uint8_t *pred, uint32_t pred_stride, int16_t *residual,
                              uint32_t residual_stride, uint32_t area_width, uint32_t area_height);
typedef void (*kds_residual16)(uint16_t *input, uint32_t input_stride, uint16_t *pred, uint32_t pred_stride, int16_t *residual,
                               uint32_t residual_stride, uint32_t area_width, uint32_t area_height);
typedef void (*kds_pic_avg)(EbByte src0, uint32_t src0_stride, EbByte src1, uint32_t src1_stride, EbByte dst, uint32_t dst_stride,
                            uint32_t area_width, uint32_t area_height);
typedef void (*kds_pic_avg1)(EbByte src0, EbByte src1, EbByte dst, uint32_t area_width);
typedef uint64_t (*kds_sfd)(uint8_t *input, uint32_t input_offset, uint32_t input_stride, uint8_t *recon, int32_t recon_offset,
                            uint32_t recon_stride, uint32_t area_width, uint32_t area_height);
typedef void (*kds_fd32)(int32_t *coeff, uint32_t coeff_stride, int32_t *recon_coeff, uint32_t recon_coeff_stride,
                         uint64_t distortion_result[DIST_CALC_TOTAL], uint32_t area_width, uint32_t area_height);
typedef void (*kds_fd32z)(int32_t *coeff, uint32_t coeff_stride, uint64_t distortion_result[DIST_CALC_TOTAL], uint32_t area_width,
                          uint32_t area_height);
typedef int64_t (*kds_frame_error)(const uint8_t *const ref, int stride, const uint8_t *const dst, int p_width, int p_height, int p_stride);
typedef void (*kds_unpack_avg)(uint16_t *ref16_l0, uint32_t ref_l0_stride, uint16_t *ref16_l1, uint32_t ref_l1_stride, uint8_t *dst_ptr,
                               uint32_t dst_stride, uint32_t width, uint32_t height);
typedef void (*kds_unpack_avg_safe)(uint16_t *ref16_l0, uint32_t ref_l0_stride, uint16_t *ref16_l1, uint32_t ref_l1_stride,
                                    uint8_t *dst_ptr, uint32_t dst_stride, EbBool sub_pred, uint32_t width, uint32_t height);
typedef void (*kds_unpack8)(uint16_t *in16_bit_buffer, uint32_t in_stride, uint8_t *out8_bit_buffer, uint32_t out8_stride,
                            uint32_t width, uint32_t height);
typedef void (*kds_msb_unpack)(uint16_t *in16_bit_buffer, uint32_t in_stride, uint8_t *out8_bit_buffer, uint8_t *outn_bit_buffer,
                               uint32_t out8_stride, uint32_t outn_stride, uint32_t width, uint32_t height);
typedef void (*kds_msb_pack)(uint8_t *in8_bit_buffer, uint32_t in8_stride, uint8_t *inn_bit_buffer, uint16_t *out16_bit_buffer,
                             uint32_t inn_stride, uint32_t out_stride, uint32_t width, uint32_t height);
typedef void (*kds_c_pack)(const uint8_t *inn_bit_buffer, uint32_t inn_stride, uint8_t *in_compn_bit_buffer, uint32_t out_stride,
                           uint8_t *local_cache, uint32_t width, uint32_t height);
typedef void (*kds_cvt8to16)(uint8_t *src, uint32_t src_stride, uint16_t *dst, uint32_t dst_stride, uint32_t width, uint32_t height);
typedef void (*kds_cvt16to8)(uint16_t *src, uint32_t src_stride, uint8_t *dst, uint32_t dst_stride, uint32_t width, uint32_t height);
typedef void (*kds_memcpy)(void *dst_ptr, void const *src_ptr, size_t size);
typedef void (*kds_init_buf32)(uint32_t *pointer, uint32_t count128, uint32_t count32, uint32_t value);
typedef uint32_t (*kds_log2f)(uint32_t x);
typedef uint64_t (*kds_mean8x8)(uint8_t *input_samples, uint32_t input_stride, uint32_t input_area_width, uint32_t input_area_height);
typedef uint64_t (*kds_submean8x8)(uint8_t *input_samples, uint16_t input_stride);
typedef void (*kds_var4x8x8)(uint8_t *input_samples, uint16_t input_stride, uint64_t *mean_of8x8_blocks,
                             uint64_t *mean_of_squared8x8_blocks);
typedef int (*kds_haar)(uint8_t *input, int stride, int hbd);
typedef void (*kds_grad_hist)(const uint8_t *src, int src_stride, int rows, int cols, uint64_t *hist);

/* ---- quantize / entropy helpers (kdiff_quant.c) */
typedef void (*kds_quant_fp)(const TranLow *coeff_ptr, intptr_t n_coeffs, const int16_t *zbin_ptr, const int16_t *round_ptr,
                             const int16_t *quant_ptr, const int16_t *quant_shift_ptr, TranLow *qcoeff_ptr, TranLow *dqcoeff_ptr,
                             const int16_t *dequant_ptr, uint16_t *eob_ptr, const int16_t *scan, const int16_t *iscan);
typedef void (*kds_quant_fp_hbd)(const TranLow *coeff_ptr, intptr_t n_coeffs, const int16_t *zbin_ptr, const int16_t *round_ptr,
                                 const int16_t *quant_ptr, const int16_t *quant_shift_ptr, TranLow *qcoeff_ptr, TranLow *dqcoeff_ptr,
                                 const int16_t *dequant_ptr, uint16_t *eob_ptr, const int16_t *scan, const int16_t *iscan,
                                 int16_t log_scale);
typedef void (*kds_quant_b)(const TranLow *coeff_ptr, intptr_t n_coeffs, const int16_t *zbin_ptr, const int16_t *round_ptr,
                            const int16_t *quant_ptr, const int16_t *quant_shift_ptr, TranLow *qcoeff_ptr, TranLow *dqcoeff_ptr,
                            const int16_t *dequant_ptr, uint16_t *eob_ptr, const int16_t *scan, const int16_t *iscan,
                            const QmVal *qm_ptr, const QmVal *iqm_ptr, const int32_t log_scale);
typedef void (*kds_txb_init)(const TranLow *const coeff, const int32_t width, const int32_t height, uint8_t *const levels);
typedef void (*kds_nz_map)(const uint8_t *const levels, const int16_t *const scan, const uint16_t eob, const TxSize tx_size,
                           const TxClass tx_class, int8_t *const coeff_contexts);
typedef int (*kds_satd)(const TranLow *coeff, int length);
typedef int64_t (*kds_block_error)(const TranLow *coeff, const TranLow *dqcoeff, intptr_t block_size, int64_t *ssz);

/* ---- motion estimation (kdiff_me.c) */
typedef void (*kds_sad_loop)(uint8_t *src, uint32_t src_stride, uint8_t *ref, uint32_t ref_stride, uint32_t block_height,
                             uint32_t block_width, uint64_t *best_sad, int16_t *x_search_center, int16_t *y_search_center,
                             uint32_t src_stride_raw, int16_t search_area_width, int16_t search_area_height);
typedef void (*kds_ext_sad_8x8_16x16)(uint8_t *src, uint32_t src_stride, uint8_t *ref, uint32_t ref_stride, uint32_t *p_best_sad_8x8,
                                      uint32_t *p_best_sad_16x16, uint32_t *p_best_mv8x8, uint32_t *p_best_mv16x16, uint32_t mv,
                                      uint32_t *p_sad16x16, uint32_t *p_sad8x8, EbBool sub_sad);
typedef void (*kds_ext_sad_32x32_64x64)(uint32_t *p_sad16x16, uint32_t *p_best_sad_32x32, uint32_t *p_best_sad_64x64,
                                        uint32_t *p_best_mv32x32, uint32_t *p_best_mv64x64, uint32_t mv, uint32_t *p_sad32x32);
typedef void (*kds_ext_all_sad)(uint8_t *src, uint32_t src_stride, uint8_t *ref, uint32_t ref_stride, uint32_t mv, uint32_t *p_best_sad_8x8,
                                uint32_t *p_best_sad_16x16, uint32_t *p_best_mv8x8, uint32_t *p_best_mv16x16,
                                uint32_t p_eight_sad16x16[16][8], uint32_t p_eight_sad8x8[64][8], EbBool sub_sad);
typedef void (*kds_ext_eight_sad)(uint32_t p_sad16x16[16][8], uint32_t *p_best_sad_32x32, uint32_t *p_best_sad_64x64,
                                  uint32_t *p_best_mv32x32, uint32_t *p_best_mv64x64, uint32_t mv, uint32_t p_sad32x32[4][8]);

/* ---- restoration (kdiff_rest.c) */
typedef void (*kds_wiener_conv)(const uint8_t *const src, const ptrdiff_t src_stride, uint8_t *const dst, const ptrdiff_t dst_stride,
                                const int16_t *const filter_x, const int16_t *const filter_y, const int32_t w, const int32_t h,
                                const ConvolveParams *const conv_params);
typedef void (*kds_wiener_conv_hbd)(const uint8_t *const src, const ptrdiff_t src_stride, uint8_t *const dst, const ptrdiff_t dst_stride,
                                    const int16_t *const filter_x, const int16_t *const filter_y, const int32_t w, const int32_t h,
                                    const ConvolveParams *const conv_params, const int32_t bd);
typedef void (*kds_sgr)(const uint8_t *dgd8, int32_t width, int32_t height, int32_t dgd_stride, int32_t *flt0, int32_t *flt1,
                        int32_t flt_stride, int32_t sgr_params_idx, int32_t bit_depth, int32_t highbd);
typedef void (*kds_sgr_apply)(const uint8_t *dat, int32_t width, int32_t height, int32_t stride, int32_t eps, const int32_t *xqd,
                              uint8_t *dst, int32_t dst_stride, int32_t *tmpbuf, int32_t bit_depth, int32_t highbd);

typedef void (*kds_fft)(const float *input, float *temp, float *output);
typedef double (*kds_cross_corr)(unsigned char *im1, int stride1, int x1, int y1, unsigned char *im2, int stride2, int x2, int y2);

#endif
