/* kdiff: the signature each handler was written for (kds_<sig>).  kdiff_table.inc compares them at
 * compile time with the type of the dispatch pointer of the current tree; a pointer whose type
 * changed is reported as uncovered ("signature") instead of being called with a wrong prototype. */
#ifndef KDIFF_SIGS_H
#define KDIFF_SIGS_H
#include "aom_dsp_rtcd.h"

/* ---- SAD / variance / OBMC (kdiff_sad.c) */
typedef uint32_t (*kds_sad)(const uint8_t *src, int src_stride, const uint8_t *ref, int ref_stride);
typedef void (*kds_sad4d)(const uint8_t *src, int src_stride, const uint8_t *const ref[], int ref_stride, uint32_t *sad_array);
typedef unsigned int (*kds_obmc_sad)(const uint8_t *pre, int pre_stride, const int32_t *wsrc, const int32_t *mask);
typedef unsigned int (*kds_obmc_var)(const uint8_t *pre, int pre_stride, const int32_t *wsrc, const int32_t *mask, unsigned int *sse);
typedef unsigned int (*kds_obmc_subpel_var)(const uint8_t *pre, int pre_stride, int xoffset, int yoffset, const int32_t *wsrc,
                                            const int32_t *mask, unsigned int *sse);
typedef unsigned int (*kds_variance)(const uint8_t *src, int src_stride, const uint8_t *ref, int ref_stride, unsigned int *sse);
typedef void (*kds_mse_void)(const uint8_t *src, int src_stride, const uint8_t *ref, int ref_stride, uint32_t *sse);
typedef uint32_t (*kds_subpel_var)(const uint8_t *src, int src_stride, int xoffset, int yoffset, const uint8_t *ref, int ref_stride,
                                   uint32_t *sse);
typedef uint32_t (*kds_sad16b)(uint16_t *src, uint32_t src_stride, uint16_t *ref, uint32_t ref_stride, uint32_t height, uint32_t width);
typedef uint32_t (*kds_var_hbd_wh)(const uint16_t *a, int a_stride, const uint16_t *b, int b_stride, int w, int h, uint32_t *sse);
typedef uint32_t (*kds_nxm_sad)(const uint8_t *src, uint32_t src_stride, const uint8_t *ref, uint32_t ref_stride, uint32_t height,
                                uint32_t width);
typedef int64_t (*kds_sse)(const uint8_t *a, int a_stride, const uint8_t *b, int b_stride, int width, int height);


/* ---- intra prediction (kdiff_intra.c) */
typedef void (*kds_intra)(uint8_t *dst, ptrdiff_t stride, const uint8_t *above, const uint8_t *left);
typedef void (*kds_intra_hbd)(uint16_t *dst, ptrdiff_t stride, const uint16_t *above, const uint16_t *left, int32_t bd);
typedef void (*kds_dr_z1)(uint8_t *dst, ptrdiff_t stride, int32_t bw, int32_t bh, const uint8_t *above, const uint8_t *left,
                          int32_t upsample, int32_t dx, int32_t dy);
typedef void (*kds_dr_z2)(uint8_t *dst, ptrdiff_t stride, int32_t bw, int32_t bh, const uint8_t *above, const uint8_t *left,
                          int32_t upsample_above, int32_t upsample_left, int32_t dx, int32_t dy);
typedef void (*kds_dr_z1_hbd)(uint16_t *dst, ptrdiff_t stride, int32_t bw, int32_t bh, const uint16_t *above, const uint16_t *left,
                              int32_t upsample, int32_t dx, int32_t dy, int32_t bd);
typedef void (*kds_dr_z2_hbd)(uint16_t *dst, ptrdiff_t stride, int32_t bw, int32_t bh, const uint16_t *above, const uint16_t *left,
                              int32_t upsample_above, int32_t upsample_left, int32_t dx, int32_t dy, int32_t bd);
typedef void (*kds_filter_intra)(uint8_t *dst, ptrdiff_t stride, TxSize tx_size, const uint8_t *above, const uint8_t *left, int32_t mode);
typedef void (*kds_fie)(uint8_t *p, int32_t sz, int32_t strength);
typedef void (*kds_fie_hbd)(uint16_t *p, int32_t sz, int32_t strength);
typedef void (*kds_upsample_edge)(uint8_t *p, int32_t sz);
typedef void (*kds_cfl_pred_lbd)(const int16_t *pred_buf_q3, uint8_t *pred, int32_t pred_stride, uint8_t *dst, int32_t dst_stride,
                                 int32_t alpha_q3, int32_t bit_depth, int32_t width, int32_t height);
typedef void (*kds_cfl_pred_hbd)(const int16_t *pred_buf_q3, uint16_t *pred, int32_t pred_stride, uint16_t *dst, int32_t dst_stride,
                                 int32_t alpha_q3, int32_t bit_depth, int32_t width, int32_t height);
typedef void (*kds_cfl_sub_lbd)(const uint8_t *input, int32_t input_stride, int16_t *output_q3, int32_t width, int32_t height);
typedef void (*kds_cfl_sub_hbd)(const uint16_t *input, int32_t input_stride, int16_t *output_q3, int32_t width, int32_t height);
typedef void (*kds_sub_avg)(int16_t *pred_buf_q3, int32_t width, int32_t height, int32_t round_offset, int32_t num_pel_log2);

/* ---- transforms (kdiff_txfm.c) */
typedef void (*kds_fwd_txfm)(int16_t *input, int32_t *output, uint32_t input_stride, TxType transform_type, uint8_t bit_depth);
typedef void (*kds_inv_txfm_sq)(const int32_t *input, uint16_t *output_r, int32_t stride_r, uint16_t *output_w, int32_t stride_w,
                                TxType tx_type, int32_t bd);
typedef void (*kds_inv_txfm_rect)(const int32_t *input, uint16_t *output_r, int32_t stride_r, uint16_t *output_w, int32_t stride_w,
                                  TxType tx_type, TxSize tx_size, int32_t eob, int32_t bd);
typedef void (*kds_inv_txfm_rect2)(const int32_t *input, uint16_t *output_r, int32_t stride_r, uint16_t *output_w, int32_t stride_w,
                                   TxType tx_type, TxSize tx_size, int32_t bd);
typedef void (*kds_inv_txfm_add)(const TranLow *dqcoeff, uint8_t *dst_r, int32_t stride_r, uint8_t *dst_w, int32_t stride_w,
                                 const TxfmParam *txfm_param);
typedef uint64_t (*kds_handle_txfm)(int32_t *output);

/* ---- convolution (kdiff_conv.c) */
typedef void (*kds_convolve)(const uint8_t *src, int32_t src_stride, uint8_t *dst, int32_t dst_stride, int32_t w, int32_t h,
                             InterpFilterParams *filter_params_x, InterpFilterParams *filter_params_y, const int32_t subpel_x_q4,
                             const int32_t subpel_y_q4, ConvolveParams *conv_params);
typedef void (*kds_convolve_hbd)(const uint16_t *src, int32_t src_stride, uint16_t *dst, int32_t dst_stride, int32_t w, int32_t h,
                                 const InterpFilterParams *filter_params_x, const InterpFilterParams *filter_params_y,
                                 const int32_t subpel_x_q4, const int32_t subpel_y_q4, ConvolveParams *conv_params, int32_t bd);

#endif
