/* encdrv: drives the SVT-AV1 encoder through its public API from a key=value case file and
 * records everything observable at the API boundary.
 *
 * usage: encdrv <case-file>
 * outputs (prefix = case key `out`):
 *   <out>.ivf     packets as IVF
 *   <out>.pkts    one JSON line per packet
 *   <out>.recon   VFRM records keyed by recon pts
 *   <out>.input   VFRM records of the submitted pictures (if dump_input=1)
 *   <out>.log     boundary log: `<seq> C|R <api> ...`
 *   <out>.res     one JSON object: result summary
 * exit status: 0 = session(s) ran to the requested end; 3 = API reported an error; 2 = harness error
 */
#include "vcommon.h"
#include <errno.h>
#include <dirent.h>
#include <malloc.h>
#include <stddef.h>
#include <dlfcn.h>
#include <signal.h>
#include "EbSvtAv1Enc.h"
#include "EbSvtAv1ErrorCodes.h"

#if defined(__has_feature)
#if __has_feature(address_sanitizer)
#define V_ASAN 1
#endif
#endif
#ifdef V_ASAN
size_t __sanitizer_get_current_allocated_bytes(void);
int    __lsan_do_recoverable_leak_check(void);
#endif

/* hooks exported by the library when built with SVT_AV1_VERIF (weak: absent otherwise) */
extern uint64_t svt_verif_sched_count(void) __attribute__((weak));
extern uint64_t svt_verif_trace_count(void) __attribute__((weak));
extern void     svt_verif_trace_flush(void) __attribute__((weak));
extern int64_t  svt_verif_live_entries(int type) __attribute__((weak));
extern int64_t  svt_verif_live_bytes(void) __attribute__((weak));

#include "cfgtable.h"

/* ------------------------------------------------------------ boundary log */
static FILE *   g_log;
static uint64_t g_seq;
#define BLOG(...)                                        \
    do {                                                 \
        if (g_log) {                                     \
            fprintf(g_log, "%llu ", (unsigned long long)++g_seq); \
            fprintf(g_log, __VA_ARGS__);                 \
            fputc('\n', g_log);                          \
            fflush(g_log);                               \
        }                                                \
    } while (0)

static int count_threads(void) {
    DIR *d = opendir("/proc/self/task");
    if (!d)
        return -1;
    int n = 0;
    struct dirent *e;
    while ((e = readdir(d)))
        if (e->d_name[0] != '.')
            n++;
    closedir(d);
    return n;
}

/* ------------------------------------------------------------ session */
typedef struct {
    const VCase *c;
    const char * out;
    Cfg          cfg;
    EbComponentType *h;
    int          w, h_, bd, frames, kind, tag;
    uint64_t     cseed;
    FILE *       fivf, *fpkts, *frecon, *finput;
    int          n_sent, n_pkts, n_recon, eos_pkt_seen, eos_recon_seen, pkts_after_eos;
    int          api_error;
    char         errmsg[256];
    EbBufferHeaderType recon_buf;
    size_t       recon_cap;
    int64_t *    pts_list;
    int          ivf_frames;
    long         ivf_count_pos;
} Sess;

static int64_t pts_of(const Sess *s, int k) {
    if (s->pts_list)
        return s->pts_list[k];
    return v_case_int(s->c, "pts_start", 0) + (int64_t)k * v_case_int(s->c, "pts_stride", 1);
}

static void put_le(FILE *f, uint64_t v, int n) {
    for (int i = 0; i < n; i++) fputc((int)((v >> (8 * i)) & 255), f);
}

static void ivf_header(Sess *s) {
    FILE *f = s->fivf;
    fwrite("DKIF", 1, 4, f);
    put_le(f, 0, 2);
    put_le(f, 32, 2);
    fwrite("AV01", 1, 4, f);
    put_le(f, (uint64_t)s->w, 2);
    put_le(f, (uint64_t)s->h_, 2);
    put_le(f, 30, 4);
    put_le(f, 1, 4);
    s->ivf_count_pos = ftell(f);
    put_le(f, 0, 4);
    put_le(f, 0, 4);
}

static void handle_packet(Sess *s, EbBufferHeaderType *p, EbErrorType rc) {
    int j = s->n_pkts++;
    if (s->eos_pkt_seen)
        s->pkts_after_eos++;
    if (s->fivf && p->p_buffer && p->n_filled_len) {
        put_le(s->fivf, p->n_filled_len, 4);
        put_le(s->fivf, (uint64_t)p->pts, 8);
        fwrite(p->p_buffer, 1, p->n_filled_len, s->fivf);
        s->ivf_frames++;
    }
    if (s->fpkts) {
        fprintf(s->fpkts,
                "{\"i\":%d,\"rc\":%u,\"size\":%u,\"pts\":%lld,\"dts\":%lld,\"flags\":%u,\"pic_type\":%u,\"qp\":%u,"
                "\"luma_sse\":%u,\"cb_sse\":%u,\"cr_sse\":%u,\"priv\":%llu,\"has_buf\":%d,\"after_sends\":%d}\n",
                j, (unsigned)rc, p->n_filled_len, (long long)p->pts, (long long)p->dts, p->flags, p->pic_type, p->qp,
                p->luma_sse, p->cb_sse, p->cr_sse, (unsigned long long)(uintptr_t)p->p_app_private, p->p_buffer != NULL,
                s->n_sent);
        fflush(s->fpkts);
    }
    if (p->flags & EB_BUFFERFLAG_EOS)
        s->eos_pkt_seen = 1;
}

/* fetch packets: mode 0 = non-blocking until empty; returns number fetched */
static int drain_packets(Sess *s, int blocking_until_eos) {
    int got = 0;
    for (;;) {
        EbBufferHeaderType *p = NULL;
        int blocking = blocking_until_eos && !s->eos_pkt_seen;
        BLOG("C get_packet done=%d", blocking);
        EbErrorType rc = svt_av1_enc_get_packet(s->h, &p, (uint8_t)blocking);
        BLOG("R get_packet rc=0x%x pts=%lld flags=0x%x size=%u", (unsigned)rc, p && rc != EB_NoErrorEmptyQueue ? (long long)p->pts : -1LL,
             p && rc != EB_NoErrorEmptyQueue ? p->flags : 0, p && rc != EB_NoErrorEmptyQueue ? p->n_filled_len : 0);
        if (rc == EB_NoErrorEmptyQueue)
            break;
        if (rc == EB_ErrorMax) {
            s->api_error = 1;
            snprintf(s->errmsg, sizeof(s->errmsg), "get_packet returned EB_ErrorMax flags=0x%x", p ? p->flags : 0);
            if (p)
                handle_packet(s, p, rc);
            break;
        }
        if (rc != EB_ErrorNone || !p) {
            s->api_error = 1;
            snprintf(s->errmsg, sizeof(s->errmsg), "get_packet rc=0x%x", (unsigned)rc);
            break;
        }
        handle_packet(s, p, rc);
        got++;
        BLOG("C release_out_buffer");
        svt_av1_enc_release_out_buffer(&p);
        BLOG("R release_out_buffer");
        if (blocking_until_eos && s->eos_pkt_seen)
            blocking_until_eos = 0; /* continue non-blocking: nothing may follow EOS */
    }
    return got;
}

static int drain_recon(Sess *s) {
    int got = 0;
    if (!s->cfg.recon_enabled)
        return 0;
    for (;;) {
        s->recon_buf.n_filled_len = 0;
        s->recon_buf.flags        = 0;
        BLOG("C get_recon");
        EbErrorType rc = svt_av1_get_recon(s->h, &s->recon_buf);
        BLOG("R get_recon rc=0x%x pts=%lld flags=0x%x len=%u", (unsigned)rc, rc == EB_ErrorNone ? (long long)s->recon_buf.pts : -1LL,
             s->recon_buf.flags, s->recon_buf.n_filled_len);
        if (rc == EB_NoErrorEmptyQueue)
            break;
        if (rc != EB_ErrorNone) {
            s->api_error = 1;
            snprintf(s->errmsg, sizeof(s->errmsg), "get_recon rc=0x%x flags=0x%x", (unsigned)rc, s->recon_buf.flags);
            break;
        }
        s->n_recon++;
        got++;
        if (s->recon_buf.flags & EB_BUFFERFLAG_EOS)
            s->eos_recon_seen = 1;
        if (s->frecon) {
            v_write_frame_hdr(s->frecon, (long long)s->recon_buf.pts, s->w, s->h_, s->bd, s->recon_buf.n_filled_len);
            fwrite(s->recon_buf.p_buffer, 1, s->recon_buf.n_filled_len, s->frecon);
        }
    }
    return got;
}

static void maybe_sleep(Sess *s, VRng *r) {
    long long m = v_case_int(s->c, "sleep_us", 0);
    if (m > 0)
        usleep((useconds_t)v_rng_below(r, (uint32_t)m + 1));
}

/* Build the caller-side picture buffer for picture k; returns a heap block the caller owns. */
typedef struct {
    uint8_t *     block;
    size_t        block_size;
    EbSvtIOFormat io;
} InPic;

static int make_input(Sess *s, const VPic *pic, InPic *ip, VRng *r) {
    int    extra   = (int)v_case_int(s->c, "stride_extra", 0);
    int    fillmode = (int)v_case_int(s->c, "pad_fill", 0); /* 0 zero, 1 0xFF, 2 random */
    int    bps     = s->bd > 8 ? 2 : 1;
    int    ys = pic->w + extra, cs = pic->cw + (extra + 1) / 2;
    size_t ysz = (size_t)ys * pic->h * bps, csz = (size_t)cs * pic->ch * bps;
    ip->block_size = ysz + 2 * csz;
    ip->block      = (uint8_t *)malloc(ip->block_size);
    if (!ip->block)
        return -1;
    if (fillmode == 1)
        memset(ip->block, 0xFF, ip->block_size);
    else if (fillmode == 2)
        for (size_t i = 0; i < ip->block_size; i++) ip->block[i] = (uint8_t)v_rng_next(r);
    else
        memset(ip->block, 0, ip->block_size);
    uint8_t *planes[3] = {ip->block, ip->block + ysz, ip->block + ysz + csz};
    int      strides[3] = {ys, cs, cs};
    for (int pl = 0; pl < 3; pl++) {
        int pw = pl ? pic->cw : pic->w, ph = pl ? pic->ch : pic->h;
        for (int y = 0; y < ph; y++) {
            if (bps == 1) {
                uint8_t *d = planes[pl] + (size_t)y * strides[pl];
                for (int x = 0; x < pw; x++) d[x] = (uint8_t)pic->p[pl][(size_t)y * pw + x];
            } else {
                uint16_t *d = (uint16_t *)planes[pl] + (size_t)y * strides[pl];
                for (int x = 0; x < pw; x++) d[x] = pic->p[pl][(size_t)y * pw + x];
            }
        }
    }
    memset(&ip->io, 0, sizeof(ip->io));
    ip->io.luma      = planes[0];
    ip->io.cb        = planes[1];
    ip->io.cr        = planes[2];
    ip->io.y_stride  = (uint32_t)ys;
    ip->io.cb_stride = (uint32_t)cs;
    ip->io.cr_stride = (uint32_t)cs;
    ip->io.width     = (uint32_t)pic->w;
    ip->io.height    = (uint32_t)pic->h;
    ip->io.color_fmt = EB_YUV420;
    ip->io.bit_depth = s->bd > 8 ? EB_TEN_BIT : EB_EIGHT_BIT;
    return 0;
}

static void dump_input(Sess *s, const VPic *pic, long long key) {
    if (!s->finput)
        return;
    int    bps = s->bd > 8 ? 2 : 1;
    size_t n   = ((size_t)pic->w * pic->h + 2 * (size_t)pic->cw * pic->ch) * bps;
    v_write_frame_hdr(s->finput, key, pic->w, pic->h, pic->bd, n);
    for (int pl = 0; pl < 3; pl++) {
        size_t cnt = pl ? (size_t)pic->cw * pic->ch : (size_t)pic->w * pic->h;
        for (size_t i = 0; i < cnt; i++) {
            fputc(pic->p[pl][i] & 255, s->finput);
            if (bps == 2)
                fputc(pic->p[pl][i] >> 8, s->finput);
        }
    }
}

static FILE *open_out(const Sess *s, const char *ext, const char *suffix) {
    char path[1024];
    snprintf(path, sizeof(path), "%s%s.%s", s->out, suffix, ext);
    return fopen(path, "wb");
}

/* teardown points */
enum { TD_FULL = 0, TD_AFTER_INIT_HANDLE, TD_AFTER_BAD_SETPARAM, TD_AFTER_SETPARAM, TD_AFTER_INIT, TD_MID };

/* pass: 0 single pass, 1 first pass, 2 second pass */
static int run_session(const VCase *c, const char *out, const char *suffix, int pass, SvtAv1FixedBuf *stats) {
    Sess s;
    memset(&s, 0, sizeof(s));
    s.c      = c;
    s.out    = out;
    s.w      = (int)v_case_int(c, "width", 64);
    s.h_     = (int)v_case_int(c, "height", 64);
    s.bd     = (int)v_case_int(c, "bitdepth", 8);
    s.frames = (int)v_case_int(c, "frames", 8);
    s.kind   = v_content_kind(v_case_get(c, "content", "pan"));
    s.tag    = (int)v_case_int(c, "tag", 0);
    s.cseed  = (uint64_t)v_case_int(c, "content_seed", 1);
    if (s.kind < 0) {
        fprintf(stderr, "encdrv: unknown content\n");
        return 2;
    }
    int td       = (int)v_case_int(c, "teardown", TD_FULL);
    int td_sends = (int)v_case_int(c, "teardown_sends", 0);
    int td_fetch = (int)v_case_int(c, "teardown_fetch", 1);
    const char *prior = v_case_get(c, "cfg_prior", "zero");

    /* prior contents of the caller's configuration memory (C13) */
    if (!strcmp(prior, "ff"))
        memset(&s.cfg, 0xFF, sizeof(s.cfg));
    else if (!strcmp(prior, "a5"))
        memset(&s.cfg, 0xA5, sizeof(s.cfg));
    else if (!strncmp(prior, "random", 6)) {
        VRng pr;
        v_rng_seed(&pr, (uint64_t)v_case_int(c, "prior_seed", 7));
        for (size_t i = 0; i < sizeof(s.cfg); i++) ((uint8_t *)&s.cfg)[i] = (uint8_t)v_rng_next(&pr);
    } else
        memset(&s.cfg, 0, sizeof(s.cfg));

    BLOG("C init_handle");
    EbErrorType rc = svt_av1_enc_init_handle(&s.h, NULL, &s.cfg);
    BLOG("R init_handle rc=0x%x", (unsigned)rc);
    if (rc != EB_ErrorNone || !s.h) {
        fprintf(stderr, "encdrv: init_handle failed 0x%x\n", (unsigned)rc);
        return 3;
    }
    if (td == TD_AFTER_INIT_HANDLE)
        goto teardown_handle_only;

    s.cfg.source_width      = (uint32_t)s.w;
    s.cfg.source_height     = (uint32_t)s.h_;
    s.cfg.encoder_bit_depth = (uint32_t)s.bd;
    for (int i = 0; i < c->n; i++) {
        if (strncmp(c->kv[i].key, "cfg.", 4))
            continue;
        if (set_field(&s.cfg, c->kv[i].key + 4, c->kv[i].val)) {
            fprintf(stderr, "encdrv: unknown/unsettable config field %s\n", c->kv[i].key);
            return 2;
        }
    }
    if (pass == 1) {
        s.cfg.rc_firstpass_stats_out = EB_TRUE;
        s.cfg.rc_twopass_stats_in.buf = NULL;
        s.cfg.rc_twopass_stats_in.sz  = 0;
    } else if (pass == 2) {
        s.cfg.rc_firstpass_stats_out = EB_FALSE;
        s.cfg.rc_twopass_stats_in    = *stats;
    }
    if (td == TD_AFTER_BAD_SETPARAM) {
        Cfg bad          = s.cfg;
        bad.source_width = 1; /* documented invalid */
        BLOG("C set_parameter bad");
        rc = svt_av1_enc_set_parameter(s.h, &bad);
        BLOG("R set_parameter rc=0x%x", (unsigned)rc);
        goto teardown_handle_only;
    }
    BLOG("C set_parameter");
    rc = svt_av1_enc_set_parameter(s.h, &s.cfg);
    BLOG("R set_parameter rc=0x%x", (unsigned)rc);
    {
        FILE *fc = open_out(&s, "cfg", suffix);
        if (fc) {
            fprintf(fc, "{\"set_parameter_rc\":%u,\"cfg\":", (unsigned)rc);
            dump_cfg(fc, &s.cfg);
            fprintf(fc, "}\n");
            fclose(fc);
        }
    }
    if (rc != EB_ErrorNone) {
        snprintf(s.errmsg, sizeof(s.errmsg), "set_parameter rc=0x%x", (unsigned)rc);
        s.api_error = 2;
        goto teardown_handle_only;
    }
    if (td == TD_AFTER_SETPARAM)
        goto teardown_handle_only;
    BLOG("C init");
    rc = svt_av1_enc_init(s.h);
    BLOG("R init rc=0x%x", (unsigned)rc);
    if (rc != EB_ErrorNone) {
        snprintf(s.errmsg, sizeof(s.errmsg), "init rc=0x%x", (unsigned)rc);
        s.api_error = 3;
        goto teardown;
    }
    if (td == TD_AFTER_INIT)
        goto teardown;

    if (v_case_int(c, "write_outputs", 1)) {
        s.fivf  = open_out(&s, "ivf", suffix);
        s.fpkts = open_out(&s, "pkts", suffix);
        if (s.cfg.recon_enabled)
            s.frecon = open_out(&s, "recon", suffix);
        if (v_case_int(c, "dump_input", 0) && pass != 1)
            s.finput = open_out(&s, "input", suffix);
        if (!s.fivf || !s.fpkts) {
            fprintf(stderr, "encdrv: cannot open outputs under %s\n", out);
            return 2;
        }
        ivf_header(&s);
    }
    if (v_case_int(c, "stream_header", 0)) {
        EbBufferHeaderType *hdr = NULL;
        BLOG("C stream_header");
        rc = svt_av1_enc_stream_header(s.h, &hdr);
        BLOG("R stream_header rc=0x%x len=%u", (unsigned)rc, hdr ? hdr->n_filled_len : 0);
        if (rc == EB_ErrorNone && hdr) {
            FILE *fh = open_out(&s, "hdr", suffix);
            if (fh) {
                fwrite(hdr->p_buffer, 1, hdr->n_filled_len, fh);
                fclose(fh);
            }
            svt_av1_enc_stream_header_release(hdr);
        }
    }

    /* recon buffer */
    s.recon_cap             = ((size_t)s.w * s.h_ * 3 / 2 + 64) * 2 + 4096;
    s.recon_buf.size        = sizeof(EbBufferHeaderType);
    s.recon_buf.p_buffer    = (uint8_t *)malloc(s.recon_cap);
    s.recon_buf.n_alloc_len = (uint32_t)s.recon_cap;

    /* pts list */
    const char *pl = v_case_get(c, "pts_list", NULL);
    if (pl && s.frames > 0) {
        s.pts_list = (int64_t *)calloc((size_t)s.frames, sizeof(int64_t));
        const char *q = pl;
        for (int k = 0; k < s.frames; k++) {
            char *e;
            s.pts_list[k] = strtoll(q, &e, 0);
            q             = (*e == ',') ? e + 1 : e;
        }
    }

    const char *pattern = v_case_get(c, "pattern", "drain_each");
    int         every_k = (int)v_case_int(c, "every_k", 4);
    int         scribble = (int)v_case_int(c, "scribble", 0);
    int         free_after = (int)v_case_int(c, "free_after", 1);
    int         fetch_recon = (int)v_case_int(c, "fetch_recon", 1);
    VRng        prng, irng;
    v_rng_seed(&prng, (uint64_t)v_case_int(c, "poll_seed", 1));
    v_rng_seed(&irng, (uint64_t)v_case_int(c, "pad_seed", 99));

    VPic pic;
    if (v_pic_alloc(&pic, s.w, s.h_, s.bd))
        return 2;
    InPic  held;
    memset(&held, 0, sizeof(held));
    int nsend = s.frames;
    if (td == TD_MID && td_sends < nsend)
        nsend = td_sends;
    for (int k = 0; k < nsend; k++) {
        v_gen_picture(&pic, s.kind, s.cseed, k, s.tag);
        dump_input(&s, &pic, (long long)pts_of(&s, k));
        InPic ip;
        if (make_input(&s, &pic, &ip, &irng))
            return 2;
        EbBufferHeaderType hb;
        memset(&hb, 0, sizeof(hb));
        hb.size          = sizeof(hb);
        hb.p_buffer      = (uint8_t *)&ip.io;
        hb.n_filled_len  = (uint32_t)ip.block_size;
        hb.n_alloc_len   = (uint32_t)ip.block_size;
        hb.p_app_private = (void *)(uintptr_t)(v_case_int(c, "priv_tags", 1) ? (uint64_t)(0x5000 + k) : 0);
        hb.pts           = pts_of(&s, k);
        hb.pic_type      = EB_AV1_INVALID_PICTURE;
        hb.flags         = 0;
        hb.metadata      = NULL;
        BLOG("C send_picture k=%d pts=%lld", k, (long long)hb.pts);
        rc = svt_av1_enc_send_picture(s.h, &hb);
        BLOG("R send_picture rc=0x%x", (unsigned)rc);
        s.n_sent++;
        if (rc != EB_ErrorNone) {
            s.api_error = 4;
            snprintf(s.errmsg, sizeof(s.errmsg), "send_picture rc=0x%x", (unsigned)rc);
        }
        if (scribble)
            for (size_t i = 0; i < ip.block_size; i++) ip.block[i] = (uint8_t)(0x5A ^ i);
        if (free_after)
            free(ip.block);
        else {
            free(held.block);
            held = ip;
        }
        maybe_sleep(&s, &prng);
        int do_drain;
        if (!strcmp(pattern, "drain_each"))
            do_drain = 1;
        else if (!strcmp(pattern, "every_k"))
            do_drain = ((k + 1) % every_k) == 0;
        else if (!strcmp(pattern, "end_only"))
            do_drain = 0;
        else /* random */
            do_drain = (int)v_rng_below(&prng, 100) < (int)v_case_int(c, "poll_pct", 50);
        if (td == TD_MID && !td_fetch)
            do_drain = 0;
        if (do_drain) {
            drain_packets(&s, 0);
            maybe_sleep(&s, &prng);
            if (fetch_recon)
                drain_recon(&s);
        }
        if (s.api_error)
            break;
    }
    v_pic_free(&pic);
    free(held.block);
    if (td == TD_MID)
        goto teardown;

    if (!s.api_error) {
        EbBufferHeaderType eb;
        memset(&eb, 0, sizeof(eb));
        eb.size     = sizeof(eb);
        eb.flags    = EB_BUFFERFLAG_EOS;
        eb.pic_type = EB_AV1_INVALID_PICTURE;
        BLOG("C send_picture eos");
        rc = svt_av1_enc_send_picture(s.h, &eb);
        BLOG("R send_picture rc=0x%x", (unsigned)rc);
        int blocking = (int)v_case_int(c, "blocking_after_eos", s.frames > 0);
        if (blocking && s.cfg.recon_enabled && fetch_recon) {
            /* As the sample application does: keep polling both outputs without blocking until every recon
             * picture has been fetched (a full recon pool would stall the pipeline), then block for the rest. */
            while (!s.api_error && !(s.n_recon >= s.frames || s.eos_recon_seen)) {
                int got = drain_packets(&s, 0);
                got += drain_recon(&s);
                if (s.eos_pkt_seen)
                    break;
                if (!got)
                    usleep(300);
            }
        }
        if (blocking) {
            if (!s.eos_pkt_seen && !s.api_error)
                drain_packets(&s, 1);
        } else {
            /* bounded non-blocking polling */
            int polls = (int)v_case_int(c, "eos_polls", 400);
            for (int i = 0; i < polls && !s.eos_pkt_seen && !s.api_error; i++) {
                drain_packets(&s, 0);
                if (!s.eos_pkt_seen)
                    usleep(5000);
            }
        }
        /* recon: poll until all delivered (bounded) */
        if (s.cfg.recon_enabled && fetch_recon) {
            for (int i = 0; i < 2000 && !s.api_error; i++) {
                drain_recon(&s);
                if (s.n_recon >= s.frames || s.eos_recon_seen)
                    break;
                usleep(2000);
            }
        }
        /* nothing may follow EOS: bounded further observation */
        int post = (int)v_case_int(c, "post_eos_polls", 5);
        for (int i = 0; i < post && !s.api_error; i++) {
            drain_packets(&s, 0);
            if (s.cfg.recon_enabled && fetch_recon) {
                int before = s.n_recon;
                drain_recon(&s);
                (void)before;
            }
            usleep(1000);
        }
        if (pass == 1 && stats) {
            SvtAv1FixedBuf fb = {NULL, 0};
            BLOG("C get_stream_info");
            rc = svt_av1_enc_get_stream_info(s.h, SVT_AV1_STREAM_INFO_FIRST_PASS_STATS_OUT, &fb);
            BLOG("R get_stream_info rc=0x%x sz=%llu", (unsigned)rc, (unsigned long long)fb.sz);
            if (rc == EB_ErrorNone && fb.buf && fb.sz) {
                stats->buf = malloc(fb.sz);
                memcpy(stats->buf, fb.buf, fb.sz);
                stats->sz = fb.sz;
            } else {
                s.api_error = 5;
                snprintf(s.errmsg, sizeof(s.errmsg), "get_stream_info rc=0x%x", (unsigned)rc);
            }
        }
    }

teardown:
    if (s.api_error == 1) {
        /* the library itself reported an encode error (EB_ErrorMax): put the result on record before teardown, which is
         * known to dead-lock when pictures are still in the pipeline */
        FILE *fr = open_out(&s, "res", suffix);
        if (fr) {
            fprintf(fr,
                    "{\"sent\":%d,\"packets\":%d,\"recon\":%d,\"eos_packet\":%d,\"eos_recon\":%d,\"packets_after_eos\":%d,"
                    "\"api_error\":%d,\"errmsg\":\"%s\",\"sched_points\":0,\"trace_records\":0}\n",
                    s.n_sent, s.n_pkts, s.n_recon, s.eos_pkt_seen, s.eos_recon_seen, s.pkts_after_eos, s.api_error, s.errmsg);
            fclose(fr);
        }
        if (s.fpkts) fflush(s.fpkts);
    }
    BLOG("C deinit");
    rc = svt_av1_enc_deinit(s.h);
    BLOG("R deinit rc=0x%x", (unsigned)rc);
teardown_handle_only:
    BLOG("C deinit_handle");
    rc = svt_av1_enc_deinit_handle(s.h);
    BLOG("R deinit_handle rc=0x%x", (unsigned)rc);
    if (s.fivf) {
        fseek(s.fivf, s.ivf_count_pos, SEEK_SET);
        put_le(s.fivf, (uint64_t)s.ivf_frames, 4);
        fclose(s.fivf);
    }
    if (s.fpkts) fclose(s.fpkts);
    if (s.frecon) fclose(s.frecon);
    if (s.finput) fclose(s.finput);
    free(s.recon_buf.p_buffer);
    free(s.pts_list);
    {
        FILE *fr = open_out(&s, "res", suffix);
        if (fr) {
            fprintf(fr,
                    "{\"sent\":%d,\"packets\":%d,\"recon\":%d,\"eos_packet\":%d,\"eos_recon\":%d,\"packets_after_eos\":%d,"
                    "\"api_error\":%d,\"errmsg\":\"%s\",\"sched_points\":%llu,\"trace_records\":%llu}\n",
                    s.n_sent, s.n_pkts, s.n_recon, s.eos_pkt_seen, s.eos_recon_seen, s.pkts_after_eos, s.api_error, s.errmsg,
                    svt_verif_sched_count ? (unsigned long long)svt_verif_sched_count() : 0ull,
                    svt_verif_trace_count ? (unsigned long long)svt_verif_trace_count() : 0ull);
            fclose(fr);
        }
    }
    return s.api_error ? 3 : 0;
}

static void on_term(int sig) {
    /* watchdog fired: flush what the monitors recorded so that the hang can be diagnosed */
    (void)sig;
    if (svt_verif_trace_flush)
        svt_verif_trace_flush();
    _exit(124);
}

int main(int argc, char **argv) {
    if (argc < 2) {
        fprintf(stderr, "usage: encdrv <case-file>\n");
        return 2;
    }
    v_drop_sys_nice();
    signal(SIGTERM, on_term);
    VCase c;
    if (v_case_load(&c, argv[1])) {
        fprintf(stderr, "encdrv: cannot read %s\n", argv[1]);
        return 2;
    }
    const char *out = v_case_get(&c, "out", NULL);
    if (!out) {
        fprintf(stderr, "encdrv: case lacks out=\n");
        return 2;
    }
    if (v_case_int(&c, "quiet", 1)) {
        /* the library prints banners on stdout/stderr: keep our own channel clean */
        if (!freopen("/dev/null", "w", stdout)) {}
    }
    char path[1024];
    snprintf(path, sizeof(path), "%s.log", out);
    g_log = fopen(path, "w");

    int sessions = (int)v_case_int(&c, "sessions", 1);
    int passes   = (int)v_case_int(&c, "passes", 1);
    int ret      = 0;
    snprintf(path, sizeof(path), "%s.sessions", out);
    FILE *fs = sessions > 1 || v_case_int(&c, "resource_report", 0) ? fopen(path, "w") : NULL;
    int   threads0 = count_threads();
    for (int si = 0; si < sessions; si++) {
        char suffix[32] = "";
        if (sessions > 1)
            snprintf(suffix, sizeof(suffix), ".s%d", si);
        if (passes == 2) {
            SvtAv1FixedBuf stats = {NULL, 0};
            char           suf1[48];
            snprintf(suf1, sizeof(suf1), "%s.pass1", suffix);
            ret = run_session(&c, out, suf1, 1, &stats);
            if (!ret)
                ret = run_session(&c, out, suffix, 2, &stats);
            free(stats.buf);
        } else {
            ret = run_session(&c, out, suffix, 0, NULL);
        }
        if (fs) {
            struct mallinfo2 mi = mallinfo2();
            size_t           inuse = mi.uordblks + mi.hblkhd;
#ifdef V_ASAN
            inuse = __sanitizer_get_current_allocated_bytes();
#endif
            /* give exiting threads a moment to disappear from /proc */
            int th = count_threads();
            for (int i = 0; i < 200 && th > threads0; i++) {
                usleep(1000);
                th = count_threads();
            }
            fprintf(fs,
                    "{\"session\":%d,\"ret\":%d,\"threads_before\":%d,\"threads_after\":%d,\"heap_inuse\":%zu,"
                    "\"live_mem\":%lld,\"live_mutex\":%lld,\"live_sem\":%lld,\"live_thread\":%lld,\"live_bytes\":%lld}\n",
                    si, ret, threads0, th, inuse, svt_verif_live_entries ? (long long)svt_verif_live_entries(0) : -1,
                    svt_verif_live_entries ? (long long)svt_verif_live_entries(3) : -1,
                    svt_verif_live_entries ? (long long)svt_verif_live_entries(4) : -1,
                    svt_verif_live_entries ? (long long)svt_verif_live_entries(5) : -1,
                    svt_verif_live_bytes ? (long long)svt_verif_live_bytes() : -1);
            fflush(fs);
        }
        if (ret == 2)
            break;
    }
    if (fs)
        fclose(fs);
    if (svt_verif_trace_flush)
        svt_verif_trace_flush();
    if (g_log)
        fclose(g_log);
    return ret;
}
