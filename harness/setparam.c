/* setparam: feeds configurations to svt_av1_enc_set_parameter, one fresh handle per configuration.
 * stdin: one configuration per line: `field=value;field=value;...` applied on top of the library defaults
 * (source_width/height default to 640x480 unless given). stdout: one line per input line: `<rc hex>`.
 * A line starting with '!' runs in a forked child (values that may crash the library). */
#include "vcommon.h"
#include "cfgtable.h"
#include <sys/wait.h>

static unsigned run_line(char *line) {
    Cfg              cfg;
    EbComponentType *h = NULL;
    memset(&cfg, 0, sizeof(cfg));
    if (svt_av1_enc_init_handle(&h, NULL, &cfg) != EB_ErrorNone || !h)
        return 0xdead0001u;
    cfg.source_width  = 640;
    cfg.source_height = 480;
    char *save = NULL;
    for (char *tok = strtok_r(line, ";", &save); tok; tok = strtok_r(NULL, ";", &save)) {
        char *eq = strchr(tok, '=');
        if (!eq)
            continue;
        *eq = 0;
        if (set_field(&cfg, tok, eq + 1)) {
            svt_av1_enc_deinit_handle(h);
            return 0xdead0002u;
        }
    }
    unsigned rc = (unsigned)svt_av1_enc_set_parameter(h, &cfg);
    svt_av1_enc_deinit_handle(h);
    return rc;
}

int main(void) {
    v_drop_sys_nice();
    int saved = dup(1);
    if (!freopen("/dev/null", "w", stdout)) {}
    if (!freopen("/dev/null", "w", stderr)) {}
    char * line = NULL;
    size_t cap  = 0;
    ssize_t len;
    while ((len = getline(&line, &cap, stdin)) > 0) {
        while (len > 0 && (line[len - 1] == '\n' || line[len - 1] == '\r')) line[--len] = 0;
        unsigned rc;
        if (line[0] == '!') {
            int   pfd[2];
            if (pipe(pfd)) return 2;
            pid_t pid = fork();
            if (pid == 0) {
                unsigned r = run_line(line + 1);
                if (write(pfd[1], &r, sizeof(r)) < 0) {}
                _exit(0);
            }
            close(pfd[1]);
            int st = 0;
            rc     = 0xdead00ffu;
            if (read(pfd[0], &rc, sizeof(rc)) != sizeof(rc))
                rc = 0xdead00ffu;
            close(pfd[0]);
            waitpid(pid, &st, 0);
            if (WIFSIGNALED(st))
                rc = 0xdead0100u | (unsigned)WTERMSIG(st);
        } else
            rc = run_line(line);
        dprintf(saved, "%08x\n", rc);
    }
    return 0;
}
