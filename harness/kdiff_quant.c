/* kdiff handlers: quantizers (fp / b, 8-bit and highbd), txb_init_levels, nz-map contexts, satd,
 * block error.
 *
 * Domains (test/quantize_func_test.cc, QuantAsmTest.cc, EncodeTxbAsmTest.cc; av1_quantize_*_facade):
 *  - tables from the library's own svt_av1_build_quantizer(bd, 0,...), any qindex 0..255, luma
 *    rows (8 x int16, 16-byte aligned: [0] dc, [1..7] ac);
 *  - coefficients: 8-bit int16 range, 10-bit +-2^17 (the unit test's GetRandomCoeff), dense or only
 *    a leading part non-zero;
 *  - n_coeffs / log_scale per transform size: <= 256 samples -> 0, 512..1024 -> 1, more -> 2 with
 *    n_coeffs = 1024; scan/iscan = av1_scan_orders[tx_size][tx_type]; no quantisation matrices (the
 *    encoder passes NULL);
 *  - coefficient buffers 32-byte aligned. */
#include "EbCabacContextModel.h"
#include "EbCoefficients.h"
#include "EbCommonUtils.h"
#include "EbInvTransforms.h"
#include "EbPictureControlSet.h"
#include "kdiff.h"
#include "kdiff_sigs.h"

extern const int kd_txs[19][2];
void             svt_av1_build_quantizer(AomBitDepth bit_depth, int32_t y_dc_delta_q, int32_t u_dc_delta_q, int32_t u_ac_delta_q,
                                         int32_t v_dc_delta_q, int32_t v_ac_delta_q, Quants *const quants, Dequants *const deq);

static Quants   g_q[2];
static Dequants g_dq[2];
static int      g_q_ready;
static void     quant_tables(void) {
    if (g_q_ready) return;
    svt_av1_build_quantizer(AOM_BITS_8, 0, 0, 0, 0, 0, &g_q[0], &g_dq[0]);
    svt_av1_build_quantizer(AOM_BITS_10, 0, 0, 0, 0, 0, &g_q[1], &g_dq[1]);
    g_q_ready = 1;
}

static int tx_log_scale(int tx) {
    int px = kd_txs[tx][0] * kd_txs[tx][1];
    return px > 1024 ? 2 : px > 256 ? 1 : 0;
}
static int pick_tx_for_scale(KdCtx *k, int scale) {
    int tx;
    do tx = kr_range(k, 0, 18);
    while (tx_log_scale(tx) != scale);
    return tx;
}
static int pick_txtype(KdCtx *k, int tx) {
    int m = kd_txs[tx][0] > kd_txs[tx][1] ? kd_txs[tx][0] : kd_txs[tx][1];
    if (m == 64) return DCT_DCT;
    if (m == 32) return kr_bool(k) ? DCT_DCT : IDTX;
    return kr_range(k, 0, TX_TYPES - 1);
}

typedef struct {
    int             tx, type, n, scale, q, bdi;
    TranLow        *coeff, *qc, *dqc;
    uint16_t       *eob;
    const int16_t  *scan, *iscan;
    int16_t        *zbin, *round, *quant, *shift, *dequant;
} QArgs;

static int16_t *row8(KdCtx *k, const int16_t *src) {
    int16_t *r = (int16_t *)kb(k, 8, 2, 16);
    memcpy(r, src, 16);
    return r;
}

static void qargs(KdCtx *k, QArgs *a, int scale, int bd, int fp) {
    quant_tables();
    a->scale = scale;
    a->tx    = pick_tx_for_scale(k, scale);
    a->type  = pick_txtype(k, a->tx);
    a->n     = av1_get_max_eob((TxSize)a->tx);
    a->q     = k->icase < 9 ? kr_range(k, 0, 255) : (k->icase * 37) % 256;
    a->bdi   = bd == 10;
    a->coeff = (TranLow *)kb(k, (size_t)a->n, 4, 32);
    long long m = bd == 8 ? 32767 : (1 << 17) - 1;
    /* magnitude classes: full range, around the quantiser step, small */
    int cls = kr_range(k, 0, 2), dq = g_dq[a->bdi].y_dequant_qtx[a->q][1];
    long long r = cls == 0 ? m : cls == 1 ? (dq * 4 < m ? dq * 4 : m) : (dq < m ? dq : m);
    kfill(k, a->coeff, (size_t)a->n, 4, -r, r);
    a->scan  = av1_scan_orders[a->tx][a->type].scan;
    a->iscan = av1_scan_orders[a->tx][a->type].iscan;
    if (kr_bool(k)) { /* only a leading part (in scan order) is non-zero */
        int keep = kr_range(k, 0, a->n);
        for (int i = keep; i < a->n; i++) a->coeff[a->scan[i]] = 0;
        ka(k, "nonzero_prefix", keep);
    }
    a->qc  = (TranLow *)kb(k, (size_t)a->n, 4, 32);
    a->dqc = (TranLow *)kb(k, (size_t)a->n, 4, 32);
    memset(a->qc, 0x5a, (size_t)a->n * 4), memset(a->dqc, 0x5a, (size_t)a->n * 4);
    a->eob    = (uint16_t *)kb(k, 1, 2, 2);
    *a->eob   = 0x5a5a;
    Quants *Q = &g_q[a->bdi];
    a->zbin    = row8(k, Q->y_zbin[a->q]);
    a->round   = row8(k, fp ? Q->y_round_fp[a->q] : Q->y_round[a->q]);
    a->quant   = row8(k, fp ? Q->y_quant_fp[a->q] : Q->y_quant[a->q]);
    a->shift   = row8(k, Q->y_quant_shift[a->q]);
    a->dequant = row8(k, g_dq[a->bdi].y_dequant_qtx[a->q]);
    ka(k, "tx_size", a->tx), ka(k, "tx_type", a->type), ka(k, "n_coeffs", a->n), ka(k, "log_scale", scale), ka(k, "qindex", a->q),
        ka(k, "bd", bd), ka(k, "range", r);
}

KDH(quant_fp) {
    QArgs a;
    qargs(k, &a, P(0), 8, 1);
    kcall(k);
    KFN(k, quant_fp)(a.coeff, a.n, a.zbin, a.round, a.quant, a.shift, a.qc, a.dqc, a.dequant, a.eob, a.scan, a.iscan);
}
KDH(quant_fp_hbd) {
    QArgs a;
    int   bd = kr_bool(k) ? 10 : 8;
    qargs(k, &a, kr_range(k, 0, 2), bd, 1);
    kcall(k);
    KFN(k, quant_fp_hbd)(a.coeff, a.n, a.zbin, a.round, a.quant, a.shift, a.qc, a.dqc, a.dequant, a.eob, a.scan, a.iscan, (int16_t)a.scale);
}
KDH(quant_b) {
    QArgs a;
    int   hbd = P(1), bd = hbd ? (kr_bool(k) ? 10 : 8) : 8;
    qargs(k, &a, kr_range(k, 0, 2), bd, 0);
    kcall(k);
    KFN(k, quant_b)(a.coeff, a.n, a.zbin, a.round, a.quant, a.shift, a.qc, a.dqc, a.dequant, a.eob, a.scan, a.iscan, NULL, NULL, a.scale);
}

/* ---- entropy-coding helpers */
KDH(txb_init) {
    int tx = k->icase % 19, w = get_txb_wide((TxSize)tx), h = get_txb_high((TxSize)tx);
    TranLow *c = (TranLow *)kb(k, (size_t)w * (size_t)h, 4, 32);
    int      cls = kr_range(k, 0, 2);
    /* quantised levels; +-32767 at most (a level of exactly -32768 - only conceivable for 10-bit video
     * at qindex 0 - is clamped to 127 by C and becomes 128 in the AVX2 kernel: left out of the domain) */
    kfill(k, c, (size_t)w * (size_t)h, 4, cls == 0 ? -32767 : cls == 1 ? -200 : -3, cls == 0 ? 32767 : cls == 1 ? 200 : 3);
    uint8_t *buf = (uint8_t *)kb(k, TX_PAD_2D, 1, 32);
    memset(buf, 0x5a, TX_PAD_2D);
    int      stride = w + TX_PAD_HOR;
    uint8_t *levels = buf + TX_PAD_TOP * stride;
    ka(k, "tx_size", tx), ka(k, "width", w), ka(k, "height", h);
    kcall(k);
    KFN(k, txb_init)(c, w, h, levels);
    /* specified (and what the unit test compares): top pad, h rows, bottom pad.  The C version also
     * clears the TX_PAD_END bytes behind them, the AVX2 one does not; they only exist so that vector
     * loads of the context derivation stay inside the buffer and their content is never used */
    size_t used = (size_t)(TX_PAD_TOP + h + TX_PAD_BOTTOM) * (size_t)stride;
    if (used < TX_PAD_2D) kdontcare(k, buf + used, TX_PAD_2D - used);
}
KDH(nz_map) {
    int tx = k->icase % 19, type = pick_txtype(k, tx);
    int w = get_txb_wide((TxSize)tx), h = get_txb_high((TxSize)tx), stride = w + TX_PAD_HOR;
    const int16_t *scan = av1_scan_orders[tx][type].scan;
    int            eob  = kr_bool(k) ? kr_range(k, 1, w * h) : kr_range(k, 1, 16 < w * h ? 16 : w * h);
    uint8_t       *buf  = (uint8_t *)kb(k, TX_PAD_2D, 1, 32);
    uint8_t       *levels = buf + TX_PAD_TOP * stride;
    uint8_t       *vals = (uint8_t *)kb(k, (size_t)w * (size_t)h, 1, 16);
    kfill(k, vals, (size_t)w * (size_t)h, 1, 0, 127);
    int bwl = get_txb_bwl((TxSize)tx);
    for (int c = 0; c < eob; c++) {
        int idx = scan[c];
        levels[idx + ((idx >> bwl) << TX_PAD_HOR_LOG2)] = vals[c];
    }
    if (levels[scan[eob - 1] + ((scan[eob - 1] >> bwl) << TX_PAD_HOR_LOG2)] == 0) levels[scan[eob - 1] + ((scan[eob - 1] >> bwl) << TX_PAD_HOR_LOG2)] = 1;
    int8_t *ctx = (int8_t *)kb(k, (size_t)w * (size_t)h, 1, 32);
    memset(ctx, 0x5a, (size_t)w * (size_t)h);
    ka(k, "tx_size", tx), ka(k, "tx_type", type), ka(k, "eob", eob);
    kcall(k);
    KFN(k, nz_map)(levels, scan, (uint16_t)eob, (TxSize)tx, tx_type_to_class[type], ctx);
    /* only coeff_contexts[scan[0..eob-1]] are specified */
    {
        uint8_t keep[64 * 64];
        memset(keep, 0, sizeof(keep));
        for (int c = 0; c < eob; c++) keep[scan[c]] = 1;
        for (int i = 0; i < w * h; i++)
            if (!keep[i]) ctx[i] = 0;
    }
}
/* satd: coefficients 16 bits, length 16/64/256/1024 (comment at svt_aom_satd_c) */
KDH(satd) {
    static const int len[] = {16, 64, 256, 1024};
    int              n = len[k->icase % 4];
    TranLow         *c = (TranLow *)kb(k, (size_t)n, 4, 32);
    kfill(k, c, (size_t)n, 4, -32640, 32640);
    ka(k, "length", n);
    kcall(k);
    kret(k, (uint64_t)(int64_t)KFN(k, satd)(c, n));
}
/* block error: coeff / dqcoeff of one transform block (16-bit range for 8-bit video) */
KDH(block_error) {
    static const int len[] = {16, 32, 64, 128, 256, 512, 1024};
    int              n = len[k->icase % 7];
    TranLow         *c = (TranLow *)kb(k, (size_t)n, 4, 32), *d = (TranLow *)kb(k, (size_t)n, 4, 32);
    /* dqcoeff = de-quantised coeff: differs by at most one quantiser step (<= 1336 for 8-bit); the C
     * reference itself squares the difference in 32-bit arithmetic */
    kfill(k, c, (size_t)n, 4, -32767 + 1336, 32767 - 1336);
    kfill(k, d, (size_t)n, 4, -1336, 1336);
    for (int i = 0; i < n; i++) d[i] += c[i];
    int64_t *ssz = (int64_t *)kb(k, 1, 8, 8);
    ka(k, "block_size", n);
    kcall(k);
    kret(k, (uint64_t)KFN(k, block_error)(c, d, n, ssz));
}
