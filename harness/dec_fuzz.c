/* dec_fuzz: C10 "the decoder survives arbitrary input bytes".
 *
 * One decoder session per input:
 *   svt_av1_dec_init_handle -> svt_av1_dec_set_parameter (threads = 1) -> svt_av1_dec_init ->
 *   svt_av1_dec_frame(data, size, annexb) [-> svt_av1_dec_get_picture] (once, or once per record)
 *   -> svt_av1_dec_deinit -> svt_av1_dec_deinit_handle
 *
 * Input layout: byte 0 = control byte, rest = payload.
 *   bit0  Annex-B framing (is_annexb argument)
 *   bit1  is_16bit_pipeline
 *   bit2  multi-call: payload is a list of records [len: 3 bytes little endian][len bytes]; each record is one
 *         svt_av1_dec_frame call (at most DF_MAX_CALLS; a short last record is passed with what is left)
 *   bit3  skip_film_grain
 *   bit4-5 operating_point: 0 -> library default, 1..3 -> 0..2
 *   bit6  ask for a picture even when the frame call returned an error (the sample application does that);
 *         otherwise svt_av1_dec_get_picture is only called after a successful frame call
 *   bit7  ignored
 * An empty input is a session with one frame call of size 0.
 *
 * Buffer policy: every svt_av1_dec_frame call gets its data in its own exact-size heap block (STRICT; any read
 * past the last byte is an ASan heap-buffer-overflow).  env DEC_FUZZ_SLACK=n (n <= 64) appends n readable zero
 * bytes that are *not* counted in data_size (SLACK mode; only used while the bit-reader prefetch over-read is an
 * open finding, see DESIGN.md 3/C10).
 *
 * Two programs are built from this file:
 *   dec_fuzz      (no DEC_FUZZ_STANDALONE) linked with -fsanitize=fuzzer: libFuzzer target
 *   dec_fuzz_sa   (-DDEC_FUZZ_STANDALONE): replays inputs without libFuzzer:
 *        dec_fuzz_sa [--slack n] [--cov file] [--from i] [--to j] [--stop-on-asan] [--alarm s] <file | dir | x.pack> ...
 *     a .pack file is a list of [len: u32 LE][bytes] inputs (written by gen/c10_mutate.py); --from/--to select an
 *     index range of the pack.  For every input it prints
 *        B <idx> <name> <size>                         before the session starts (flushed)
 *        E <idx> rc=<hex of last dec_frame rc> calls=<n> pics=<n> obus=<types seen> dirty=<n> asan=<0/1/2> ph=<hash of pictures>
 *     `dirty` counts sanitizer output produced while the input ran (via __sanitizer_on_print); with
 *     --stop-on-asan the process exits with status 77 after the first input with an ASan report other than an
 *     invalid READ (asan=1; asan=2 means reads only), because the heap may be corrupt afterwards (the driver
 *     resumes behind it in a fresh process).
 *     --cov writes one byte per inline-8bit coverage counter of the instrumented library (0/1) at exit.
 *     --alarm n: in-process watchdog per input (SIGALRM): prints "T <idx>" and exits with status 78.
 *   exit status: 0 all inputs ran; 77 stopped after an ASan report; 78 an input stalled; 2 usage / IO error.
 */
#include <stdint.h>
#include <stdio.h>
#include <stdlib.h>
#include <string.h>
#include <dirent.h>
#include <signal.h>
#include <sys/stat.h>
#include <unistd.h>
#include "EbSvtAv1Dec.h"
#include "EbSvtAv1ErrorCodes.h"

#define DF_MAX_CALLS 64

static int      g_slack = -1;
static unsigned g_last_rc, g_calls, g_pics;
static uint32_t g_obu_mask; /* OBU types present at the start of each call's data (harness-side peek) */

static int df_slack(void) {
    if (g_slack < 0) {
        const char *s = getenv("DEC_FUZZ_SLACK");
        g_slack       = s ? atoi(s) : 0;
        if (g_slack < 0 || g_slack > 64)
            g_slack = 0;
    }
    return g_slack;
}

static void df_quiet_stdout_once(void) {
    /* the library prints a banner per handle through SVT_LOG: silence it (SVT_LOG=-1 is not honoured for the banner) */
    static int done;
    if (!done) {
        done = 1;
        if (!getenv("SVT_LOG"))
            setenv("SVT_LOG", "0", 1);
    }
}

/* FNV-1a over the visible samples of every picture handed out (printed as ph= by the standalone runner: lets a
 * source change be checked for "valid streams still decode to the same pictures") */
static uint64_t g_pic_hash;
static void     df_hash_pic(const EbSvtIOFormat *io) {
    if (!io || !io->luma)
        return;
    int      bps = io->bit_depth > 8 ? 2 : 1;
    uint64_t h   = g_pic_hash ? g_pic_hash : 1469598103934665603ull;
    for (uint32_t y = 0; y < io->height; y++) {
        const uint8_t *p = io->luma + (size_t)y * io->y_stride * bps;
        for (uint32_t x = 0; x < io->width * (uint32_t)bps; x++) h = (h ^ p[x]) * 1099511628211ull;
    }
    if (io->color_fmt == EB_YUV420 && io->cb && io->cr) {
        uint32_t cw = (io->width + 1) / 2, ch = (io->height + 1) / 2;
        for (uint32_t y = 0; y < ch; y++) {
            const uint8_t *p = io->cb + (size_t)y * io->cb_stride * bps;
            const uint8_t *q = io->cr + (size_t)y * io->cr_stride * bps;
            for (uint32_t x = 0; x < cw * (uint32_t)bps; x++) h = (((h ^ p[x]) * 1099511628211ull) ^ q[x]) * 1099511628211ull;
        }
    }
    g_pic_hash = h;
}

static void df_free_out(EbBufferHeaderType *ob) {
    EbSvtIOFormat *io = (EbSvtIOFormat *)ob->p_buffer;
    if (io) {
        free(io->luma);
        free(io->cb);
        free(io->cr);
        free(io);
    }
    ob->p_buffer = NULL;
}

static void df_one_call(EbComponentType *h, const uint8_t *p, size_t n, int annexb, int poll_always,
                        EbBufferHeaderType *ob) {
    int      slack = df_slack();
    uint8_t *blk   = (uint8_t *)malloc(n + (size_t)slack + (n + (size_t)slack == 0 ? 1 : 0));
    if (!blk)
        return;
    if (n)
        memcpy(blk, p, n);
    if (slack)
        memset(blk + n, 0, (size_t)slack);
    if (n) {
        int t = (blk[annexb && n > 1 ? 1 : 0] >> 3) & 15;
        g_obu_mask |= 1u << t;
    }
    EbErrorType rc = svt_av1_dec_frame(h, blk, n, (uint32_t)annexb);
    g_last_rc      = (unsigned)rc;
    g_calls++;
    EbAV1StreamInfo si;
    EbAV1FrameInfo  fi;
    memset(&si, 0, sizeof(si));
    memset(&fi, 0, sizeof(fi));
    if (rc == EB_ErrorNone || poll_always) {
        /* svt_av1_dec_get_picture hands out the current picture as long as show_frame is set: it is not a
         * draining iterator, so two calls are the whole "loop" */
        for (int k = 0; k < 2; k++) {
            EbErrorType r2 = svt_av1_dec_get_picture(h, ob, &si, &fi);
            if (r2 == EB_DecNoOutputPicture)
                break;
            if (r2 == EB_ErrorNone) {
                g_pics++;
                df_hash_pic((const EbSvtIOFormat *)ob->p_buffer);
            }
        }
    }
    free(blk);
}

static int df_session(const uint8_t *data, size_t size) {
    df_quiet_stdout_once();
    g_last_rc = 0;
    g_calls = g_pics = 0;
    g_pic_hash       = 0;
    g_obu_mask       = 0;
    unsigned ctl     = size ? data[0] : 0;
    if (size) {
        data++;
        size--;
    }
    EbComponentType *        h = NULL;
    EbSvtAv1DecConfiguration cfg;
    memset(&cfg, 0, sizeof(cfg));
    if (svt_av1_dec_init_handle(&h, NULL, &cfg) != EB_ErrorNone || !h)
        return 0;
    cfg.threads           = 1;
    cfg.num_p_frames      = 1;
    cfg.is_16bit_pipeline = (ctl >> 1) & 1;
    cfg.skip_film_grain   = (ctl >> 3) & 1;
    unsigned op           = (ctl >> 4) & 3;
    if (op)
        cfg.operating_point = (int32_t)op - 1;
    cfg.max_picture_width  = 0;
    cfg.max_picture_height = 0;
    cfg.max_bit_depth      = EB_EIGHT_BIT;
    cfg.max_color_format   = EB_YUV420;
    int annexb             = ctl & 1;
    int inited             = 0;
    if (svt_av1_dec_set_parameter(h, &cfg) == EB_ErrorNone && svt_av1_dec_init(h) == EB_ErrorNone) {
        inited = 1;
        EbBufferHeaderType ob;
        memset(&ob, 0, sizeof(ob));
        ob.size      = sizeof(ob);
        ob.p_buffer  = (uint8_t *)calloc(1, sizeof(EbSvtIOFormat));
        if (ob.p_buffer) {
            if (ctl & 4) {
                size_t   off = 0;
                unsigned n   = 0;
                while (off + 3 <= size && n < DF_MAX_CALLS) {
                    size_t len = (size_t)data[off] | ((size_t)data[off + 1] << 8) | ((size_t)data[off + 2] << 16);
                    off += 3;
                    if (len > size - off)
                        len = size - off;
                    df_one_call(h, data + off, len, annexb, (ctl >> 6) & 1, &ob);
                    off += len;
                    n++;
                }
            } else {
                df_one_call(h, data, size, annexb, (ctl >> 6) & 1, &ob);
            }
            df_free_out(&ob);
        }
    }
    if (inited)
        svt_av1_dec_deinit(h);
    svt_av1_dec_deinit_handle(h);
    return 0;
}

#ifndef DEC_FUZZ_STANDALONE
int LLVMFuzzerTestOneInput(const uint8_t *data, size_t size) { return df_session(data, size); }
#else
/* ------------------------------------------------------------------ standalone replay */
static volatile unsigned g_dirty, g_asan_reports, g_asan_reads;
/* called by the sanitizer runtimes for every piece of report text (ASan and UBSan) */
void __sanitizer_on_print(const char *str) {
    g_dirty++;
    if (!str)
        return;
    if (strstr(str, "ERROR: AddressSanitizer") || strstr(str, "ERROR: LeakSanitizer"))
        g_asan_reports++;
    if (strstr(str, "READ of size"))
        g_asan_reads++;
}

/* coverage counters of every instrumented module (the decoder library) */
#define DF_MAX_MODS 16
static struct {
    uint8_t *a, *b;
} g_mods[DF_MAX_MODS];
static int g_nmods;
void       __sanitizer_cov_8bit_counters_init(uint8_t *start, uint8_t *stop) {
    for (int i = 0; i < g_nmods; i++)
        if (g_mods[i].a == start)
            return;
    if (g_nmods < DF_MAX_MODS && stop > start) {
        g_mods[g_nmods].a = start;
        g_mods[g_nmods].b = stop;
        g_nmods++;
    }
}
void __sanitizer_cov_pcs_init(const uintptr_t *b, const uintptr_t *e) {
    (void)b;
    (void)e;
}

static void df_write_cov(const char *path) {
    FILE *f = fopen(path, "wb");
    if (!f)
        return;
    for (int i = 0; i < g_nmods; i++)
        for (uint8_t *p = g_mods[i].a; p < g_mods[i].b; p++) fputc(*p ? 1 : 0, f);
    fclose(f);
}

static uint8_t *df_read_file(const char *path, size_t *n) {
    FILE *f = fopen(path, "rb");
    if (!f)
        return NULL;
    fseek(f, 0, SEEK_END);
    long sz = ftell(f);
    fseek(f, 0, SEEK_SET);
    if (sz < 0) {
        fclose(f);
        return NULL;
    }
    uint8_t *b = (uint8_t *)malloc((size_t)sz + 1);
    if (!b) {
        fclose(f);
        return NULL;
    }
    *n = fread(b, 1, (size_t)sz, f);
    fclose(f);
    return b;
}

static int  g_stop_on_asan, g_alarm;
static long g_idx;
static void df_on_alarm(int sig) {
    /* in-process watchdog (like libFuzzer -timeout): only marks the input as stalled; the driver decides */
    char buf[64];
    int  n = snprintf(buf, sizeof(buf), "\nT %ld\n", g_idx);
    (void)sig;
    if (n > 0 && write(1, buf, (size_t)n) < 0) {}
    _exit(78);
}
/* returns 1 when the process must stop (ASan report with --stop-on-asan) */
static int df_run_named(const char *name, const uint8_t *d, size_t n) {
    printf("\nB %ld %s %zu\n", g_idx, name, n);
    fflush(stdout);
    unsigned d0 = g_dirty;
    g_asan_reports = g_asan_reads = 0;
    /* exact-size copy of the whole input as well (the control byte is read from it) */
    uint8_t *cp = (uint8_t *)malloc(n ? n : 1);
    if (n)
        memcpy(cp, d, n);
    if (g_alarm)
        alarm((unsigned)g_alarm);
    df_session(cp, n);
    if (g_alarm)
        alarm(0);
    free(cp);
    /* asan: 0 none, 2 only invalid READs (state not corrupted), 1 anything else (write, free, ...) */
    unsigned asan = g_asan_reports == 0 ? 0 : (g_asan_reads >= g_asan_reports ? 2 : 1);
    printf("\nE %ld rc=%x calls=%u pics=%u obus=%x dirty=%u asan=%u ph=%llx\n", g_idx, g_last_rc, g_calls, g_pics, g_obu_mask,
           g_dirty - d0, asan, (unsigned long long)g_pic_hash);
    fflush(stdout);
    g_idx++;
    return asan == 1 && g_stop_on_asan;
}

static int cmpstr(const void *a, const void *b) { return strcmp(*(char *const *)a, *(char *const *)b); }

int main(int argc, char **argv) {
    const char *cov  = NULL;
    long        from = 0, to = -1;
    int         stop = 0, i = 1;
    for (; i < argc && argv[i][0] == '-' && argv[i][1] == '-'; i++) {
        if (!strcmp(argv[i], "--slack") && i + 1 < argc)
            g_slack = atoi(argv[++i]);
        else if (!strcmp(argv[i], "--cov") && i + 1 < argc)
            cov = argv[++i];
        else if (!strcmp(argv[i], "--from") && i + 1 < argc)
            from = atol(argv[++i]);
        else if (!strcmp(argv[i], "--to") && i + 1 < argc)
            to = atol(argv[++i]);
        else if (!strcmp(argv[i], "--stop-on-asan"))
            g_stop_on_asan = 1;
        else if (!strcmp(argv[i], "--alarm") && i + 1 < argc)
            g_alarm = atoi(argv[++i]);
        else {
            fprintf(stderr, "dec_fuzz_sa: unknown option %s\n", argv[i]);
            return 2;
        }
    }
    if (g_slack > 64 || g_slack < -1)
        g_slack = 0;
    if (g_alarm > 0)
        signal(SIGALRM, df_on_alarm);
    if (i >= argc) {
        fprintf(stderr, "usage: dec_fuzz_sa [--slack n] [--cov f] [--from i] [--to j] [--stop-on-asan] file|dir|x.pack ...\n");
        return 2;
    }
    for (; i < argc && !stop; i++) {
        struct stat st;
        if (stat(argv[i], &st)) {
            fprintf(stderr, "dec_fuzz_sa: cannot stat %s\n", argv[i]);
            return 2;
        }
        size_t ln = strlen(argv[i]);
        if (S_ISDIR(st.st_mode)) {
            DIR *d = opendir(argv[i]);
            if (!d)
                return 2;
            char **        names = NULL;
            size_t         nn = 0, cap = 0;
            struct dirent *de;
            while ((de = readdir(d))) {
                if (de->d_name[0] == '.' || strstr(de->d_name, ".json"))
                    continue;
                if (nn == cap) {
                    cap   = cap ? cap * 2 : 64;
                    names = (char **)realloc(names, cap * sizeof(*names));
                }
                names[nn++] = strdup(de->d_name);
            }
            closedir(d);
            qsort(names, nn, sizeof(*names), cmpstr);
            for (size_t k = 0; k < nn && !stop; k++) {
                char path[4096];
                snprintf(path, sizeof(path), "%s/%s", argv[i], names[k]);
                size_t   n = 0;
                uint8_t *b = df_read_file(path, &n);
                if (b && g_idx >= from && (to < 0 || g_idx < to)) {
                    stop = df_run_named(names[k], b, n);
                } else
                    g_idx++;
                free(b);
            }
            for (size_t k = 0; k < nn; k++) free(names[k]);
            free(names);
        } else if (ln > 5 && !strcmp(argv[i] + ln - 5, ".pack")) {
            size_t   n = 0;
            uint8_t *b = df_read_file(argv[i], &n);
            if (!b)
                return 2;
            size_t off = 0;
            while (off + 4 <= n && !stop) {
                size_t len = (size_t)b[off] | ((size_t)b[off + 1] << 8) | ((size_t)b[off + 2] << 16) |
                    ((size_t)b[off + 3] << 24);
                off += 4;
                if (len > n - off)
                    break;
                if (g_idx >= from && (to < 0 || g_idx < to))
                    stop = df_run_named("pack", b + off, len);
                else
                    g_idx++;
                off += len;
                if (to >= 0 && g_idx >= to)
                    break;
            }
            free(b);
        } else {
            size_t   n = 0;
            uint8_t *b = df_read_file(argv[i], &n);
            if (!b)
                return 2;
            const char *bn = strrchr(argv[i], '/');
            if (g_idx >= from && (to < 0 || g_idx < to))
                stop = df_run_named(bn ? bn + 1 : argv[i], b, n);
            else
                g_idx++;
            free(b);
        }
    }
    if (cov)
        df_write_cov(cov);
    return stop ? 77 : 0;
}
#endif
